// mirfacts: a rustc_private driver that dumps pre-borrowck MIR (`mir_built`) of every body of the
// crate being compiled, plus ADTs / impls, as one JSON file per crate. Used as
// RUSTC_WORKSPACE_WRAPPER under `cargo +nightly check`. Nothing of the analysed crate is executed.
#![feature(rustc_private)]
#![allow(clippy::all)]

extern crate rustc_abi;
extern crate rustc_data_structures;
extern crate rustc_driver;
extern crate rustc_hir;
extern crate rustc_index;
extern crate rustc_interface;
extern crate rustc_middle;
extern crate rustc_session;
extern crate rustc_span;

use rustc_data_structures::steal::Steal;
use rustc_driver::{Callbacks, Compilation};
use rustc_hir::def::DefKind;
use rustc_hir::def_id::{DefId, LocalDefId};
use rustc_interface::interface;
use rustc_middle::mir::*;
use rustc_middle::ty::print::{with_crate_prefix, with_no_trimmed_paths, PrintTraitRefExt};
use rustc_middle::ty::{self, Instance, Ty, TyCtxt, TypingEnv};
use rustc_span::{ExpnKind, Span};
use std::fmt::Write as _;
use std::sync::{Mutex, OnceLock};

type MirBuiltFn = for<'tcx> fn(TyCtxt<'tcx>, LocalDefId) -> &'tcx Steal<Body<'tcx>>;
static ORIG: OnceLock<MirBuiltFn> = OnceLock::new();
static BODIES: Mutex<Vec<String>> = Mutex::new(Vec::new());
static CRATE: OnceLock<String> = OnceLock::new();

/// `crate::a::b` -> `<crate_name>::a::b` so local and foreign paths look the same.
fn fixcrate(s: String) -> String {
    if !s.contains("crate::") {
        return s;
    }
    let name = CRATE.get().map(|s| s.as_str()).unwrap_or("crate");
    let b = s.as_bytes();
    let mut o = String::with_capacity(s.len() + 16);
    let mut i = 0;
    while i < b.len() {
        if s[i..].starts_with("crate::") && (i == 0 || !(b[i - 1].is_ascii_alphanumeric() || b[i - 1] == b'_')) {
            o.push_str(name);
            o.push_str("::");
            i += 7;
        } else {
            let ch = s[i..].chars().next().unwrap();
            o.push(ch);
            i += ch.len_utf8();
        }
    }
    o
}

macro_rules! full {
    ($e:expr) => {
        fixcrate(with_crate_prefix!(with_no_trimmed_paths!($e)))
    };
}

fn esc(s: &str) -> String {
    let mut o = String::with_capacity(s.len() + 2);
    o.push('"');
    for c in s.chars() {
        match c {
            '"' => o.push_str("\\\""),
            '\\' => o.push_str("\\\\"),
            '\n' => o.push_str("\\n"),
            '\r' => o.push_str("\\r"),
            '\t' => o.push_str("\\t"),
            c if (c as u32) < 0x20 => {
                let _ = write!(o, "\\u{:04x}", c as u32);
            }
            c => o.push(c),
        }
    }
    o.push('"');
    o
}

fn ty_s<'tcx>(ty: Ty<'tcx>) -> String {
    full!(format!("{}", ty))
}

fn path_s(tcx: TyCtxt<'_>, did: DefId) -> String {
    full!(tcx.def_path_str(did))
}

struct Cx<'a, 'tcx> {
    tcx: TyCtxt<'tcx>,
    body: &'a Body<'tcx>,
    did: LocalDefId,
    tenv: TypingEnv<'tcx>,
    upvar_names: Vec<String>,
}

fn span_s(tcx: TyCtxt<'_>, sp: Span) -> String {
    // [line, col, expansion-tag] ; line/col of the outermost call site so they point into real source.
    let cs = sp.source_callsite();
    let sm = tcx.sess.source_map();
    let lo = sm.lookup_char_pos(cs.lo());
    let mut tag = String::new();
    if sp.from_expansion() {
        let ed = sp.ctxt().outer_expn_data();
        match ed.kind {
            ExpnKind::Macro(_, name) => {
                let _ = write!(tag, "m:{}", name);
            }
            ExpnKind::Desugaring(k) => {
                let _ = write!(tag, "d:{:?}", k);
            }
            ExpnKind::AstPass(k) => {
                let _ = write!(tag, "a:{:?}", k);
            }
            ExpnKind::Root => tag.push_str("root"),
        }
        // all macro names on the expansion stack (innermost first), for origin filters
        let mut cur = ed.call_site;
        let mut n = 0;
        while cur.from_expansion() && n < 8 {
            let e2 = cur.ctxt().outer_expn_data();
            match e2.kind {
                ExpnKind::Macro(_, name) => {
                    let _ = write!(tag, "<m:{}", name);
                }
                ExpnKind::Desugaring(k) => {
                    let _ = write!(tag, "<d:{:?}", k);
                }
                _ => {}
            }
            cur = e2.call_site;
            n += 1;
        }
    }
    format!("[{},{},{}]", lo.line, lo.col.0, esc(&tag))
}

impl<'a, 'tcx> Cx<'a, 'tcx> {
    fn place(&self, p: &Place<'tcx>) -> String {
        let mut o = String::new();
        let _ = write!(o, "{{\"l\":{}", p.local.as_usize());
        if !p.projection.is_empty() {
            o.push_str(",\"p\":[");
            let mut pty = rustc_middle::mir::PlaceTy::from_ty(self.body.local_decls[p.local].ty);
            let mut first = true;
            for elem in p.projection.iter() {
                if !first {
                    o.push(',');
                }
                first = false;
                match elem {
                    ProjectionElem::Deref => o.push_str("\"*\""),
                    ProjectionElem::Field(f, _) => {
                        let idx = f.as_usize();
                        let mut name = format!("{}", idx);
                        let mut owner = String::new();
                        match pty.ty.kind() {
                            ty::Adt(adt, _) => {
                                let v = match pty.variant_index {
                                    Some(v) => v,
                                    None => rustc_abi::FIRST_VARIANT,
                                };
                                if adt.variants().len() > v.as_usize() {
                                    let vd = adt.variant(v);
                                    if let Some(fd) = vd.fields.get(f) {
                                        name = fd.name.to_string();
                                    }
                                    owner = path_s(self.tcx, adt.did());
                                    if adt.is_enum() {
                                        let _ = write!(owner, "::{}", vd.name);
                                    }
                                }
                            }
                            ty::Closure(..) | ty::Coroutine(..) | ty::CoroutineClosure(..) => {
                                owner = "upvar".to_string();
                                // upvars of *this* body only when the base is _1 of the body itself
                                if p.local.as_usize() == 1 {
                                    if let Some(n) = self.upvar_names.get(idx) {
                                        name = n.clone();
                                    }
                                }
                            }
                            _ => {}
                        }
                        let _ = write!(o, "{{\"f\":{},\"n\":{},\"o\":{}}}", idx, esc(&name), esc(&owner));
                    }
                    ProjectionElem::Downcast(sym, v) => {
                        let n = match sym {
                            Some(s) => s.to_string(),
                            None => format!("{}", v.as_usize()),
                        };
                        let _ = write!(o, "{{\"d\":{},\"v\":{}}}", esc(&n), v.as_usize());
                    }
                    ProjectionElem::Index(l) => {
                        let _ = write!(o, "{{\"i\":{}}}", l.as_usize());
                    }
                    ProjectionElem::ConstantIndex { offset, from_end, .. } => {
                        let _ = write!(o, "{{\"ci\":{},\"fe\":{}}}", offset, from_end);
                    }
                    ProjectionElem::Subslice { from, to, from_end } => {
                        let _ = write!(o, "{{\"ss\":[{},{}],\"fe\":{}}}", from, to, from_end);
                    }
                    ProjectionElem::OpaqueCast(_) => o.push_str("\"opaque\""),
                    ProjectionElem::UnwrapUnsafeBinder(_) => o.push_str("\"unwrapbinder\""),
                }
                pty = pty.projection_ty(self.tcx, elem);
            }
            o.push(']');
        }
        o.push('}');
        o
    }

    fn fn_item(&self, did: DefId, args: ty::GenericArgsRef<'tcx>) -> String {
        let mut o = String::new();
        let _ = write!(o, "{{\"fn\":{}", esc(&path_s(self.tcx, did)));
        let ga: Vec<String> = args.iter().map(|a| esc(&full!(format!("{}", a)))).collect();
        let _ = write!(o, ",\"ga\":[{}]", ga.join(","));
        // trait method? record trait + self type
        if let Some(tr) = self.tcx.trait_of_assoc(did) {
            let _ = write!(o, ",\"trait\":{}", esc(&path_s(self.tcx, tr)));
            if args.len() > 0 {
                if let Some(t) = args.get(0).and_then(|a| a.as_type()) {
                    let _ = write!(o, ",\"self\":{}", esc(&ty_s(t)));
                }
            }
        } else if let Some(imp) = self.tcx.inherent_impl_of_assoc(did) {
            let st = self.tcx.type_of(imp).instantiate_identity().skip_norm_wip();
            let _ = write!(o, ",\"implself\":{}", esc(&ty_s(st)));
        }
        // resolved instance
        let res = std::panic::catch_unwind(std::panic::AssertUnwindSafe(|| {
            Instance::try_resolve(self.tcx, self.tenv, did, args)
        }));
        if let Ok(Ok(Some(inst))) = res {
            let rd = inst.def_id();
            if rd != did {
                let _ = write!(o, ",\"res\":{}", esc(&path_s(self.tcx, rd)));
            }
        }
        o.push('}');
        o
    }

    fn constant(&self, c: &ConstOperand<'tcx>) -> String {
        let ty = c.const_.ty();
        let mut o = String::new();
        match ty.kind() {
            ty::FnDef(did, args) => {
                return format!("{{\"c\":{}}}", self.fn_item(*did, args));
            }
            _ => {}
        }
        let _ = write!(o, "{{\"c\":{{\"ty\":{}", esc(&ty_s(ty)));
        // named const?
        if let Const::Unevaluated(uv, _) = c.const_ {
            let _ = write!(o, ",\"name\":{}", esc(&path_s(self.tcx, uv.def)));
        }
        // A constant that belongs to the item being built (an inline `const { .. }` block, a promoted) can only be
        // evaluated after this very body exists: asking for its value from inside `mir_built` is a query cycle, which
        // rustc reports as a hard error (e.g. `thread_local! { static X: T = const { .. } }`). Those are left unevaluated.
        let own = match c.const_ {
            Const::Unevaluated(uv, _) => {
                uv.promoted.is_some() || self.tcx.typeck_root_def_id(uv.def) == self.tcx.typeck_root_def_id(self.did.to_def_id())
            }
            _ => false,
        };
        let val = std::panic::catch_unwind(std::panic::AssertUnwindSafe(|| {
            if own || c.const_.has_non_region_param_hack() {
                return None;
            }
            c.const_.eval(self.tcx, self.tenv, c.span).ok()
        }));
        if let Ok(Some(v)) = val {
            match v {
                ConstValue::Scalar(s) => {
                    if let Ok(si) = s.try_to_scalar_int() {
                        let size = si.size();
                        let bits = si.to_bits(size);
                        let signed = matches!(ty.kind(), ty::Int(_));
                        if signed {
                            let sh = 128 - size.bits() as u32;
                            let sv = ((bits << sh) as i128) >> sh;
                            let _ = write!(o, ",\"int\":\"{}\"", sv);
                        } else if matches!(ty.kind(), ty::Bool) {
                            let _ = write!(o, ",\"bool\":{}", bits != 0);
                        } else if matches!(ty.kind(), ty::Char) {
                            let ch = char::from_u32(bits as u32).unwrap_or('\u{fffd}');
                            let _ = write!(o, ",\"char\":{}", esc(&ch.to_string()));
                            let _ = write!(o, ",\"int\":\"{}\"", bits);
                        } else {
                            let _ = write!(o, ",\"int\":\"{}\"", bits);
                        }
                    }
                }
                ConstValue::Slice { .. } => {
                    if let Some(bytes) = v.try_get_slice_bytes_for_diagnostics(self.tcx) {
                        let s = String::from_utf8_lossy(bytes);
                        let _ = write!(o, ",\"str\":{}", esc(&s));
                    }
                }
                ConstValue::ZeroSized => {
                    o.push_str(",\"zst\":true");
                }
                ConstValue::Indirect { .. } => {
                    o.push_str(",\"indirect\":true");
                }
            }
        }
        o.push_str("}}");
        o
    }

    fn operand(&self, op: &Operand<'tcx>) -> String {
        match op {
            Operand::Copy(p) => format!("{{\"cp\":{}}}", self.place(p)),
            Operand::Move(p) => format!("{{\"mv\":{}}}", self.place(p)),
            Operand::Constant(c) => self.constant(c),
            #[allow(unreachable_patterns)]
            _ => format!("{{\"other\":{}}}", esc(&format!("{:?}", op))),
        }
    }

    fn rvalue(&self, rv: &Rvalue<'tcx>) -> String {
        match rv {
            Rvalue::Use(op, ..) => format!("{{\"k\":\"use\",\"op\":{}}}", self.operand(op)),
            Rvalue::Ref(_, bk, p) => {
                let m = match bk {
                    BorrowKind::Shared => "shared",
                    BorrowKind::Fake(_) => "fake",
                    BorrowKind::Mut { .. } => "mut",
                };
                format!("{{\"k\":\"ref\",\"m\":\"{}\",\"pl\":{}}}", m, self.place(p))
            }
            Rvalue::RawPtr(_, p) => format!("{{\"k\":\"rawptr\",\"pl\":{}}}", self.place(p)),
            Rvalue::CopyForDeref(p) => format!("{{\"k\":\"use\",\"op\":{{\"cp\":{}}}}}", self.place(p)),
            Rvalue::Cast(kind, op, ty) => format!(
                "{{\"k\":\"cast\",\"ck\":{},\"op\":{},\"ty\":{}}}",
                esc(&format!("{:?}", kind)),
                self.operand(op),
                esc(&ty_s(*ty))
            ),
            Rvalue::BinaryOp(bop, ab) => format!(
                "{{\"k\":\"bin\",\"op\":\"{:?}\",\"a\":{},\"b\":{}}}",
                bop,
                self.operand(&ab.0),
                self.operand(&ab.1)
            ),
            Rvalue::UnaryOp(uop, a) => {
                format!("{{\"k\":\"un\",\"op\":{},\"a\":{}}}", esc(&format!("{:?}", uop)), self.operand(a))
            }
            Rvalue::Discriminant(p) => format!("{{\"k\":\"discr\",\"pl\":{}}}", self.place(p)),
            Rvalue::Aggregate(kind, ops) => {
                let opss: Vec<String> = ops.iter().map(|o| self.operand(o)).collect();
                let mut o = String::from("{\"k\":\"agg\"");
                match &**kind {
                    AggregateKind::Array(_) => o.push_str(",\"ak\":\"array\""),
                    AggregateKind::Tuple => o.push_str(",\"ak\":\"tuple\""),
                    AggregateKind::Adt(did, vidx, _, _, active) => {
                        let adt = self.tcx.adt_def(*did);
                        let vd = adt.variant(*vidx);
                        let _ = write!(
                            o,
                            ",\"ak\":\"adt\",\"adt\":{},\"variant\":{},\"vi\":{}",
                            esc(&path_s(self.tcx, *did)),
                            esc(&vd.name.to_string()),
                            vidx.as_usize()
                        );
                        let fns: Vec<String> = match active {
                            Some(f) => vec![esc(&vd.fields[*f].name.to_string())],
                            None => vd.fields.iter().map(|f| esc(&f.name.to_string())).collect(),
                        };
                        let _ = write!(o, ",\"fields\":[{}]", fns.join(","));
                    }
                    AggregateKind::Closure(did, _) => {
                        let _ = write!(o, ",\"ak\":\"closure\",\"def\":{}", esc(&path_s(self.tcx, *did)));
                    }
                    AggregateKind::Coroutine(did, _) => {
                        let _ = write!(o, ",\"ak\":\"coroutine\",\"def\":{}", esc(&path_s(self.tcx, *did)));
                    }
                    AggregateKind::CoroutineClosure(did, _) => {
                        let _ = write!(o, ",\"ak\":\"coroutine_closure\",\"def\":{}", esc(&path_s(self.tcx, *did)));
                    }
                    AggregateKind::RawPtr(..) => o.push_str(",\"ak\":\"rawptr\""),
                }
                let _ = write!(o, ",\"ops\":[{}]}}", opss.join(","));
                o
            }
            Rvalue::Repeat(op, _) => format!("{{\"k\":\"repeat\",\"op\":{}}}", self.operand(op)),
            Rvalue::ThreadLocalRef(d) => format!("{{\"k\":\"tls\",\"def\":{}}}", esc(&path_s(self.tcx, *d))),
            Rvalue::WrapUnsafeBinder(op, _) => format!("{{\"k\":\"use\",\"op\":{}}}", self.operand(op)),
            #[allow(unreachable_patterns)]
            _ => format!("{{\"k\":\"other\",\"dbg\":{}}}", esc(&format!("{:?}", rv))),
        }
    }

    fn statement(&self, st: &Statement<'tcx>) -> Option<String> {
        let sp = span_s(self.tcx, st.source_info.span);
        match &st.kind {
            StatementKind::Assign(b) => {
                let (pl, rv) = &**b;
                Some(format!("{{\"s\":\"assign\",\"pl\":{},\"rv\":{},\"sp\":{}}}", self.place(pl), self.rvalue(rv), sp))
            }
            StatementKind::SetDiscriminant { place, variant_index } => Some(format!(
                "{{\"s\":\"setdiscr\",\"pl\":{},\"v\":{},\"sp\":{}}}",
                self.place(place),
                variant_index.as_usize(),
                sp
            )),
            StatementKind::StorageDead(l) => Some(format!("{{\"s\":\"dead\",\"l\":{}}}", l.as_usize())),
            StatementKind::StorageLive(l) => Some(format!("{{\"s\":\"live\",\"l\":{}}}", l.as_usize())),
            StatementKind::FakeRead(b) => {
                let (cause, pl) = &**b;
                Some(format!("{{\"s\":\"fakeread\",\"cause\":{},\"pl\":{}}}", esc(&format!("{:?}", cause)), self.place(pl)))
            }
            _ => None,
        }
    }

    fn terminator(&self, t: &Terminator<'tcx>) -> String {
        let sp = span_s(self.tcx, t.source_info.span);
        let bb = |b: &BasicBlock| b.as_usize();
        let unwind_s = |u: &UnwindAction| match u {
            UnwindAction::Cleanup(b) => format!("{}", b.as_usize()),
            _ => "null".to_string(),
        };
        match &t.kind {
            TerminatorKind::Goto { target } => format!("{{\"t\":\"goto\",\"to\":{},\"sp\":{}}}", bb(target), sp),
            TerminatorKind::SwitchInt { discr, targets } => {
                let mut arms = Vec::new();
                for (v, b) in targets.iter() {
                    arms.push(format!("[\"{}\",{}]", v, bb(&b)));
                }
                format!(
                    "{{\"t\":\"switch\",\"discr\":{},\"arms\":[{}],\"otherwise\":{},\"sp\":{}}}",
                    self.operand(discr),
                    arms.join(","),
                    bb(&targets.otherwise()),
                    sp
                )
            }
            TerminatorKind::Return => format!("{{\"t\":\"return\",\"sp\":{}}}", sp),
            TerminatorKind::Unreachable => format!("{{\"t\":\"unreachable\",\"sp\":{}}}", sp),
            TerminatorKind::UnwindResume => format!("{{\"t\":\"resume\",\"sp\":{}}}", sp),
            TerminatorKind::UnwindTerminate(_) => format!("{{\"t\":\"terminate\",\"sp\":{}}}", sp),
            TerminatorKind::CoroutineDrop => format!("{{\"t\":\"coroutine_drop\",\"sp\":{}}}", sp),
            TerminatorKind::Drop { place, target, unwind, .. } => format!(
                "{{\"t\":\"drop\",\"pl\":{},\"to\":{},\"unwind\":{},\"sp\":{}}}",
                self.place(place),
                bb(target),
                unwind_s(unwind),
                sp
            ),
            TerminatorKind::Call { func, args, destination, target, unwind, fn_span, .. } => {
                let a: Vec<String> = args.iter().map(|a| self.operand(&a.node)).collect();
                let fty = func.ty(self.body, self.tcx);
                let mut extra = String::new();
                if func.constant().is_none() {
                    let _ = write!(extra, ",\"fty\":{}", esc(&ty_s(fty)));
                }
                format!(
                    "{{\"t\":\"call\",\"f\":{},\"args\":[{}],\"dest\":{},\"to\":{},\"unwind\":{}{},\"sp\":{},\"fsp\":{}}}",
                    self.operand(func),
                    a.join(","),
                    self.place(destination),
                    target.map(|b| b.as_usize().to_string()).unwrap_or("null".into()),
                    unwind_s(unwind),
                    extra,
                    sp,
                    span_s(self.tcx, *fn_span)
                )
            }
            TerminatorKind::TailCall { func, args, .. } => {
                let a: Vec<String> = args.iter().map(|a| self.operand(&a.node)).collect();
                format!("{{\"t\":\"tailcall\",\"f\":{},\"args\":[{}],\"sp\":{}}}", self.operand(func), a.join(","), sp)
            }
            TerminatorKind::Assert { cond, expected, msg, target, unwind } => {
                let kind = match &**msg {
                    AssertKind::Overflow(op, ..) => format!("Overflow({:?})", op),
                    AssertKind::BoundsCheck { .. } => "BoundsCheck".to_string(),
                    AssertKind::OverflowNeg(_) => "OverflowNeg".to_string(),
                    AssertKind::DivisionByZero(_) => "DivisionByZero".to_string(),
                    AssertKind::RemainderByZero(_) => "RemainderByZero".to_string(),
                    _ => "Other".to_string(),
                };
                format!(
                    "{{\"t\":\"assert\",\"cond\":{},\"expected\":{},\"kind\":{},\"to\":{},\"unwind\":{},\"sp\":{}}}",
                    self.operand(cond),
                    expected,
                    esc(&kind),
                    bb(target),
                    unwind_s(unwind),
                    sp
                )
            }
            TerminatorKind::Yield { value, resume, resume_arg, drop } => format!(
                "{{\"t\":\"yield\",\"value\":{},\"to\":{},\"resume_arg\":{},\"drop\":{},\"sp\":{}}}",
                self.operand(value),
                bb(resume),
                self.place(resume_arg),
                drop.map(|b| b.as_usize().to_string()).unwrap_or("null".into()),
                sp
            ),
            TerminatorKind::FalseEdge { real_target, imaginary_target } => format!(
                "{{\"t\":\"falseedge\",\"to\":{},\"imaginary\":{},\"sp\":{}}}",
                bb(real_target),
                bb(imaginary_target),
                sp
            ),
            TerminatorKind::FalseUnwind { real_target, unwind } => {
                format!("{{\"t\":\"falseunwind\",\"to\":{},\"unwind\":{},\"sp\":{}}}", bb(real_target), unwind_s(unwind), sp)
            }
            TerminatorKind::InlineAsm { .. } => format!("{{\"t\":\"asm\",\"sp\":{}}}", sp),
        }
    }
}

trait HasParamHack {
    fn has_non_region_param_hack(&self) -> bool;
}
impl<'tcx> HasParamHack for Const<'tcx> {
    fn has_non_region_param_hack(&self) -> bool {
        use rustc_middle::ty::TypeVisitableExt;
        match self {
            Const::Ty(_, c) => c.has_non_region_param(),
            Const::Unevaluated(uv, _) => uv.args.has_non_region_param(),
            Const::Val(..) => false,
        }
    }
}

fn dump_body<'tcx>(tcx: TyCtxt<'tcx>, did: LocalDefId, body: &Body<'tcx>) -> String {
    let def_id = did.to_def_id();
    let kind = tcx.def_kind(def_id);
    let mut upvar_names = Vec::new();
    let mut upvars_json = Vec::new();
    if matches!(kind, DefKind::Closure) {
        for cap in tcx.closure_captures(did) {
            let n = cap.to_string(tcx);
            upvar_names.push(n.clone());
            upvars_json.push(format!(
                "{{\"n\":{},\"ty\":{},\"byref\":{}}}",
                esc(&n),
                esc(&ty_s(cap.place.ty())),
                matches!(cap.info.capture_kind, ty::UpvarCapture::ByRef(_))
            ));
        }
    }
    let cx = Cx { tcx, body, did, tenv: TypingEnv::post_analysis(tcx, def_id), upvar_names };
    let _ = cx.did;
    let mut o = String::new();
    let sm = tcx.sess.source_map();
    let sp = body.span;
    let lo = sm.lookup_char_pos(sp.lo());
    let hi = sm.lookup_char_pos(sp.hi());
    let file = format!("{}", lo.file.name.prefer_local_unconditionally());
    let _ = write!(o, "{{\"path\":{}", esc(&path_s(tcx, def_id)));
    let _ = write!(o, ",\"kind\":{}", esc(&format!("{:?}", kind)));
    let _ = write!(o, ",\"file\":{},\"lo\":{},\"hi\":{}", esc(&file), lo.line, hi.line);
    let _ = write!(o, ",\"from_expansion\":{}", sp.from_expansion());
    let parent = tcx.opt_local_parent(did);
    if let Some(p) = parent {
        let _ = write!(o, ",\"parent\":{}", esc(&path_s(tcx, p.to_def_id())));
    }
    if matches!(kind, DefKind::Closure) {
        let cty = tcx.type_of(def_id).instantiate_identity().skip_norm_wip();
        let ck = match cty.kind() {
            ty::Closure(..) => "closure",
            ty::Coroutine(..) => "coroutine",
            ty::CoroutineClosure(..) => "coroutine_closure",
            _ => "?",
        };
        let _ = write!(o, ",\"ckind\":\"{}\"", ck);
    }
    if matches!(kind, DefKind::Fn | DefKind::AssocFn) {
        let vis = tcx.visibility(def_id);
        let _ = write!(o, ",\"vis\":{}", esc(&format!("{:?}", vis)));
        let _ = write!(o, ",\"asyncness\":{}", tcx.asyncness(def_id).is_async());
    }
    if matches!(kind, DefKind::AssocFn) {
        if let Some(imp) = tcx.impl_of_assoc(def_id) {
            let st = tcx.type_of(imp).instantiate_identity().skip_norm_wip();
            let _ = write!(o, ",\"impl_self\":{}", esc(&ty_s(st)));
            if let Some(tr) = tcx.impl_opt_trait_ref(imp) {
                let tr = tr.instantiate_identity().skip_norm_wip();
                let _ = write!(o, ",\"impl_trait\":{}", esc(&full!(format!("{}", tr.print_only_trait_path()))));
            }
        }
    }
    let _ = write!(o, ",\"argc\":{}", body.arg_count);
    let _ = write!(o, ",\"upvars\":[{}]", upvars_json.join(","));
    // locals
    let mut names: Vec<Option<String>> = vec![None; body.local_decls.len()];
    let mut dbg_extra = Vec::new();
    for vdi in &body.var_debug_info {
        if let VarDebugInfoContents::Place(p) = &vdi.value {
            if p.projection.is_empty() {
                names[p.local.as_usize()] = Some(vdi.name.to_string());
            } else {
                dbg_extra.push(format!("{{\"n\":{},\"pl\":{}}}", esc(&vdi.name.to_string()), cx.place(p)));
            }
        }
    }
    let mut locals = Vec::new();
    for (i, ld) in body.local_decls.iter_enumerated() {
        let mut s = format!("{{\"ty\":{}", esc(&ty_s(ld.ty)));
        if let Some(n) = &names[i.as_usize()] {
            let _ = write!(s, ",\"n\":{}", esc(n));
        }
        if ld.is_user_variable() {
            s.push_str(",\"user\":true");
        }
        s.push('}');
        locals.push(s);
    }
    let _ = write!(o, ",\"locals\":[{}]", locals.join(","));
    let _ = write!(o, ",\"dbg\":[{}]", dbg_extra.join(","));
    // blocks
    let mut blocks = Vec::new();
    for (_bb, data) in body.basic_blocks.iter_enumerated() {
        let mut sts = Vec::new();
        for st in &data.statements {
            if let Some(s) = cx.statement(st) {
                sts.push(s);
            }
        }
        let term = match &data.terminator {
            Some(t) => cx.terminator(t),
            None => "null".to_string(),
        };
        blocks.push(format!("{{\"cleanup\":{},\"st\":[{}],\"term\":{}}}", data.is_cleanup, sts.join(","), term));
    }
    let _ = write!(o, ",\"blocks\":[{}]}}", blocks.join(","));
    o
}

fn my_mir_built<'tcx>(tcx: TyCtxt<'tcx>, did: LocalDefId) -> &'tcx Steal<Body<'tcx>> {
    let _ = CRATE.get_or_init(|| tcx.crate_name(rustc_hir::def_id::LOCAL_CRATE).to_string());
    let orig = ORIG.get().expect("orig provider");
    let steal = orig(tcx, did);
    {
        let body = steal.borrow();
        let s = dump_body(tcx, did, &body);
        BODIES.lock().unwrap().push(s);
    }
    steal
}

struct Cb {
    out_dir: Option<String>,
    tag: String,
    argv: Vec<String>,
}

impl Callbacks for Cb {
    fn config(&mut self, config: &mut interface::Config) {
        if self.out_dir.is_some() {
            config.override_queries = Some(|_sess, providers| {
                let _ = ORIG.set(providers.queries.mir_built);
                providers.queries.mir_built = my_mir_built;
            });
        }
    }

    fn after_analysis<'tcx>(&mut self, _compiler: &interface::Compiler, tcx: TyCtxt<'tcx>) -> Compilation {
        let Some(out_dir) = &self.out_dir else { return Compilation::Continue };
        // make sure every body owner has been built (they all are after analysis; this is a no-op then)
        let owners: Vec<LocalDefId> = tcx.hir_body_owners().collect();
        let crate_name = tcx.crate_name(rustc_hir::def_id::LOCAL_CRATE).to_string();
        let _ = CRATE.get_or_init(|| crate_name.clone());
        let mut o = String::new();
        let _ = write!(o, "{{\"crate\":{},\"tag\":{}", esc(&crate_name), esc(&self.tag));
        let _ = write!(o, ",\"body_owners\":{}", owners.len());
        let argv: Vec<String> = self.argv.iter().map(|a| esc(a)).collect();
        let _ = write!(o, ",\"argv\":[{}]", argv.join(","));
        // ADTs
        let mut adts = Vec::new();
        let mut impls = Vec::new();
        let mut fns_nobody = Vec::new();
        for id in tcx.hir_crate_items(()).definitions() {
            let def_id = id.to_def_id();
            match tcx.def_kind(def_id) {
                DefKind::Struct | DefKind::Enum | DefKind::Union => {
                    let adt = tcx.adt_def(def_id);
                    let mut vs = Vec::new();
                    for v in adt.variants() {
                        let fs: Vec<String> = v
                            .fields
                            .iter()
                            .map(|f| {
                                let fty = tcx.type_of(f.did).instantiate_identity().skip_norm_wip();
                                format!(
                                    "{{\"n\":{},\"ty\":{},\"vis\":{}}}",
                                    esc(&f.name.to_string()),
                                    esc(&ty_s(fty)),
                                    esc(&format!("{:?}", f.vis))
                                )
                            })
                            .collect();
                        vs.push(format!("{{\"n\":{},\"fields\":[{}]}}", esc(&v.name.to_string()), fs.join(",")));
                    }
                    adts.push(format!(
                        "{{\"path\":{},\"kind\":{},\"vis\":{},\"variants\":[{}]}}",
                        esc(&path_s(tcx, def_id)),
                        esc(&format!("{:?}", tcx.def_kind(def_id))),
                        esc(&format!("{:?}", tcx.visibility(def_id))),
                        vs.join(",")
                    ));
                }
                DefKind::Impl { of_trait } => {
                    let st = tcx.type_of(def_id).instantiate_identity().skip_norm_wip();
                    let mut s = format!("{{\"self\":{}", esc(&ty_s(st)));
                    if of_trait {
                        if let Some(tr) = tcx.impl_opt_trait_ref(def_id) {
                            let tr = tr.instantiate_identity().skip_norm_wip();
                            let _ = write!(
                                s,
                                ",\"trait\":{}",
                                esc(&full!(format!("{}", tr.print_only_trait_path())))
                            );
                        }
                    }
                    let items: Vec<String> =
                        tcx.associated_item_def_ids(def_id).iter().map(|d| esc(&path_s(tcx, *d))).collect();
                    let sm = tcx.sess.source_map();
                    let sp = tcx.def_span(def_id);
                    let lo = sm.lookup_char_pos(sp.lo());
                    let _ = write!(
                        s,
                        ",\"items\":[{}],\"file\":{},\"line\":{},\"from_expansion\":{}}}",
                        items.join(","),
                        esc(&format!("{}", lo.file.name.prefer_local_unconditionally())),
                        lo.line,
                        sp.from_expansion()
                    );
                    impls.push(s);
                }
                DefKind::Fn | DefKind::AssocFn => {
                    if tcx.hir_maybe_body_owned_by(id).is_none() {
                        fns_nobody.push(esc(&path_s(tcx, def_id)));
                    }
                }
                _ => {}
            }
        }
        let _ = write!(o, ",\"adts\":[{}]", adts.join(","));
        let _ = write!(o, ",\"impls\":[{}]", impls.join(","));
        let _ = write!(o, ",\"decl_only_fns\":[{}]", fns_nobody.join(","));
        let bodies = BODIES.lock().unwrap();
        let _ = write!(o, ",\"bodies_dumped\":{}", bodies.len());
        let _ = write!(o, ",\"bodies\":[{}]}}", bodies.join(",\n"));
        let fname = format!("{}/{}.{}.json", out_dir, crate_name, self.tag);
        let tmp = format!("{}.tmp{}", fname, std::process::id());
        std::fs::write(&tmp, o).expect("write facts");
        std::fs::rename(&tmp, &fname).expect("rename facts");
        Compilation::Continue
    }
}

fn main() {
    let mut args: Vec<String> = std::env::args().collect();
    if args.len() > 1 && (args[1].ends_with("rustc") || args[1].ends_with("rustc.exe")) {
        args.remove(1);
    }
    let out_dir = std::env::var("MIRFACTS_OUT").ok();
    // tag: distinguishes lib / test / bin builds of the same crate
    let mut tag = String::new();
    let mut i = 0;
    let mut is_test = false;
    let mut crate_type = String::new();
    let mut meta = String::new();
    while i < args.len() {
        let a = &args[i];
        if a == "--test" {
            is_test = true;
        }
        if a == "--crate-type" && i + 1 < args.len() {
            crate_type = args[i + 1].clone();
        }
        if a == "-C" && i + 1 < args.len() && args[i + 1].starts_with("metadata=") {
            meta = args[i + 1]["metadata=".len()..].to_string();
        }
        if let Some(m) = a.strip_prefix("-Cmetadata=") {
            meta = m.to_string();
        }
        i += 1;
    }
    let _ = write!(tag, "{}{}.{}", crate_type, if is_test { "-test" } else { "" }, meta);
    // Only dump for real compilations (not `rustc -vV` probes, not build scripts)
    let is_probe = args.iter().any(|a| a == "-vV" || a == "--version" || a.starts_with("--print"));
    let is_build_script = args.iter().any(|a| a == "build_script_build");
    let want = out_dir.is_some() && !is_probe && !is_build_script;
    let mut cb = Cb { out_dir: if want { out_dir } else { None }, tag, argv: args.clone() };
    rustc_driver::run_compiler(&args, &mut cb);
}

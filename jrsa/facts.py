"""Loader for mirfacts JSON + CFG utilities (dominators, post-dominators, reachability, paths)."""
import json
import os
import re
from functools import cached_property


def op_place(op):
    if op is None:
        return None
    if "cp" in op:
        return op["cp"]
    if "mv" in op:
        return op["mv"]
    return None


def op_const(op):
    if op is not None and "c" in op:
        return op["c"]
    return None


def place_str(pl, body=None):
    s = "_%d" % pl["l"]
    if body is not None:
        n = body.locals[pl["l"]].get("n")
        if n:
            s = "%s/_%d" % (n, pl["l"])
    for e in pl.get("p", []):
        if e == "*":
            s = "(*%s)" % s
        elif isinstance(e, dict) and "f" in e:
            s += "." + e["n"]
        elif isinstance(e, dict) and "d" in e:
            s = "(%s as %s)" % (s, e["d"])
        elif isinstance(e, dict) and "i" in e:
            s += "[_%d]" % e["i"]
        else:
            s += "[..]"
    return s


def op_str(op, body=None):
    if op is None:
        return "?"
    if "cp" in op:
        return place_str(op["cp"], body)
    if "mv" in op:
        return "move " + place_str(op["mv"], body)
    if "c" in op:
        c = op["c"]
        if "fn" in c:
            return "fn " + c["fn"]
        for k in ("int", "str", "bool", "char"):
            if k in c:
                return "const %r: %s" % (c[k], c["ty"])
        if "name" in c:
            return "const %s" % c["name"]
        return "const <%s>" % c["ty"]
    return str(op)


class Call:
    __slots__ = ("body", "bb", "term", "callee", "resolved", "args", "dest", "target", "ga", "trait", "self_ty", "fconst")

    def __init__(self, body, bb, term):
        self.body = body
        self.bb = bb
        self.term = term
        f = term["f"]
        c = op_const(f)
        self.fconst = c
        if c is not None and "fn" in c:
            self.callee = c["fn"]
            self.resolved = c.get("res", c["fn"])
            self.ga = c.get("ga", [])
            self.trait = c.get("trait")
            self.self_ty = c.get("self") or c.get("implself")
        else:
            self.callee = None
            self.resolved = None
            self.ga = []
            self.trait = None
            self.self_ty = None
        self.args = term["args"]
        self.dest = term.get("dest")
        self.target = term.get("to")

    @property
    def line(self):
        return self.term["sp"][0]

    @property
    def exp(self):
        return self.term["sp"][2]

    def name(self):
        return self.resolved or self.callee or ("<indirect:%s>" % self.term.get("fty", "?"))

    def matches(self, pat):
        """pat: regex (search) against callee and resolved path."""
        for n in (self.callee, self.resolved):
            if n and re.search(pat, n):
                return True
        return False

    def loc(self):
        return "%s:%d" % (self.body.file, self.line)

    def __repr__(self):
        return "<call %s @%s bb%d>" % (self.name(), self.loc(), self.bb)


class Body:
    def __init__(self, d, crate):
        self.d = d
        self.crate = crate
        self.path = d["path"]
        self.kind = d["kind"]
        self.ckind = d.get("ckind")
        self.file = d["file"]
        self.lo = d["lo"]
        self.hi = d["hi"]
        self.parent = d.get("parent")
        self.upvars = d.get("upvars", [])
        self.locals = d["locals"]
        self.blocks = d["blocks"]
        self.argc = d["argc"]
        self.vis = d.get("vis")
        self.impl_self = d.get("impl_self")
        self.impl_trait = d.get("impl_trait")
        self.from_expansion = d.get("from_expansion", False)

    def __repr__(self):
        return "<body %s>" % self.path

    # ---- structure -------------------------------------------------------------------------
    @cached_property
    def calls(self):
        out = []
        for i, b in enumerate(self.blocks):
            t = b["term"]
            if t and t["t"] == "call":
                out.append(Call(self, i, t))
        return out

    def calls_to(self, pat):
        return [c for c in self.calls if c.matches(pat)]

    @cached_property
    def succ(self):
        """Real successor edges: unwind edges, cleanup blocks and imaginary FalseEdge targets dropped."""
        res = []
        for b in self.blocks:
            t = b["term"]
            s = []
            if t is None or b.get("cleanup"):
                res.append(s)
                continue
            k = t["t"]
            if k in ("goto", "drop", "assert", "falseedge", "falseunwind"):
                s.append(t["to"])
            elif k == "call":
                if t.get("to") is not None:
                    s.append(t["to"])
            elif k == "switch":
                for _, tb in t["arms"]:
                    if tb not in s:
                        s.append(tb)
                if t["otherwise"] not in s:
                    s.append(t["otherwise"])
            elif k == "yield":
                s.append(t["to"])
            # return / unreachable / resume / terminate / coroutine_drop / tailcall: none
            res.append(s)
        return res

    @cached_property
    def pred(self):
        p = [[] for _ in self.blocks]
        for i, ss in enumerate(self.succ):
            for s in ss:
                p[s].append(i)
        return p

    @cached_property
    def reachable(self):
        seen = {0}
        st = [0]
        while st:
            n = st.pop()
            for s in self.succ[n]:
                if s not in seen:
                    seen.add(s)
                    st.append(s)
        return seen

    @cached_property
    def dom(self):
        """dom[b] = set of blocks dominating b (incl. b). Only over reachable blocks."""
        nodes = sorted(self.reachable)
        allb = set(nodes)
        dom = {n: set(allb) for n in nodes}
        dom[0] = {0}
        changed = True
        # reverse post-order helps, but graphs are small
        order = self._rpo()
        while changed:
            changed = False
            for n in order:
                if n == 0:
                    continue
                ps = [p for p in self.pred[n] if p in allb]
                if not ps:
                    new = {n}
                else:
                    new = set.intersection(*(dom[p] for p in ps)) | {n}
                if new != dom[n]:
                    dom[n] = new
                    changed = True
        return dom

    def _rpo(self):
        seen = set()
        order = []

        def dfs(n):
            stack = [(n, iter(self.succ[n]))]
            seen.add(n)
            while stack:
                node, it = stack[-1]
                adv = False
                for s in it:
                    if s not in seen:
                        seen.add(s)
                        stack.append((s, iter(self.succ[s])))
                        adv = True
                        break
                if not adv:
                    order.append(node)
                    stack.pop()

        dfs(0)
        order.reverse()
        return order

    @cached_property
    def exits(self):
        """Blocks that end the function normally (return / coroutine return)."""
        return [i for i in self.reachable if self.blocks[i]["term"] and self.blocks[i]["term"]["t"] in ("return", "tailcall")]

    def dominates(self, a, b):
        """block a dominates block b"""
        return b in self.dom and a in self.dom[b]

    def pt_dominates(self, pa, pb):
        """program points (bb, idx); idx = statement index, terminator = len(st)"""
        if pa[0] == pb[0]:
            return pa[1] <= pb[1]
        return self.dominates(pa[0], pb[0])

    def reach_from(self, start, avoid=()):
        """blocks reachable from block `start` (inclusive of successors only) without entering blocks in `avoid`."""
        avoid = set(avoid)
        seen = set()
        st = [s for s in self.succ[start] if s not in avoid]
        seen.update(st)
        while st:
            n = st.pop()
            for s in self.succ[n]:
                if s not in seen and s not in avoid:
                    seen.add(s)
                    st.append(s)
        return seen

    def can_reach(self, a, b, avoid=()):
        if a == b:
            return True
        return b in self.reach_from(a, avoid)

    def term_idx(self, bb):
        return len(self.blocks[bb]["st"])

    # every definition (assignment) of a local: list of (bb, idx, place, rvalue|call)
    @cached_property
    def defs(self):
        d = {}
        for bi, b in enumerate(self.blocks):
            if b.get("cleanup"):
                continue
            for si, st in enumerate(b["st"]):
                if st["s"] == "assign":
                    d.setdefault(st["pl"]["l"], []).append((bi, si, st["pl"], ("rv", st["rv"])))
            t = b["term"]
            if t and t["t"] == "call" and t.get("dest") is not None:
                d.setdefault(t["dest"]["l"], []).append((bi, len(b["st"]), t["dest"], ("call", t)))
            if t and t["t"] == "yield":
                ra = t.get("resume_arg")
                if ra is not None:
                    d.setdefault(ra["l"], []).append((bi, len(b["st"]), ra, ("yield", t)))
        return d

    def local_name(self, l):
        return self.locals[l].get("n")

    def local_ty(self, l):
        return self.locals[l]["ty"]

    def locals_named(self, name):
        return [i for i, l in enumerate(self.locals) if l.get("n") == name]


class Facts:
    def __init__(self, fact_dir, crates=None, aliases=True, config=None):
        self.dir = fact_dir
        self.crates = {}
        self.bodies = {}
        self.adts = {}
        self.impls = []
        self.decl_only = set()
        self.files = []
        raw = []
        for f in sorted(os.listdir(fact_dir)):
            if not f.endswith(".json"):
                continue
            with open(os.path.join(fact_dir, f)) as fh:
                d = json.load(fh)
            if crates is not None and d["crate"] not in crates:
                continue
            raw.append((f, d))
        # Functions that were only *renamed or moved* (same signature, same callees) are given back the name the rules
        # know them by; everything else about them is analysed as it stands. See `renamed_functions`.
        self.aliases = {}
        self.field_aliases = {}
        self.inlined = {}
        self.absorbed = set()
        self.reparented = {}
        if aliases:
            texts = None

            def respell(raw, table):
                nonlocal texts
                if texts is None:
                    texts = {}
                    for f, _ in raw:
                        with open(os.path.join(fact_dir, f)) as fh:
                            texts[f] = fh.read()
                rxs = [(re.compile(r"(?<![A-Za-z0-9_])" + re.escape(n) + r"(?![A-Za-z0-9_])"), c) for n, c in sorted(table.items(), key=lambda kv: -len(kv[0]))]
                out = []
                for f, _ in raw:
                    text = texts[f]
                    for rx, c in rxs:
                        text = rx.sub(lambda m, c=c: c, text)
                    texts[f] = text
                    out.append((f, json.loads(text)))
                return out

            # 1. types that were renamed or moved (same fields), 2. functions (same signature and callees), 3. fields
            ta = renamed_adts([d for _, d in raw], config)
            if ta:
                raw = respell(raw, ta)
                self.aliases.update(ta)
            fa = renamed_functions([d for _, d in raw], config)
            if fa:
                raw = respell(raw, fa)
                self.aliases.update(fa)
            self.field_aliases = renamed_fields([d for _, d in raw])
            if self.field_aliases:
                for _, d in raw:
                    _respell_fields(d, self.field_aliases)
            # 4. functions the pinned tree does not have at all are analysed as part of their callers (jrsa/inline.py)
            tbl = _load_fp_table()
            if tbl:
                from . import inline as _inline

                is_new = lambda b, crate: _fp_candidate(b, crate) and b["path"] not in tbl
                # (a) helpers of helpers first, then (b) a function that was moved *and* split up is recognised by what it
                # calls once its own helpers are back inside it, then (c) everything that is still unknown goes into its callers
                done_a, _, rep_a = _inline.inline_new_helpers([d for _, d in raw], is_new, only_into_new=True)
                fa2 = renamed_functions([d for _, d in raw], config)
                if fa2:
                    rxs = [(re.compile(r"(?<![A-Za-z0-9_])" + re.escape(n) + r"(?![A-Za-z0-9_])"), c) for n, c in sorted(fa2.items(), key=lambda kv: -len(kv[0]))]
                    raw2 = []
                    for f, d in raw:
                        text = json.dumps(d)
                        for rx, c in rxs:
                            text = rx.sub(lambda m, c=c: c, text)
                        raw2.append((f, json.loads(text)))
                    raw = raw2
                    self.aliases.update(fa2)
                if fa2:
                    def _ren(x):
                        for n_, c_ in fa2.items():
                            if x == n_ or x.startswith(n_ + "::"):
                                return c_ + x[len(n_):]
                        return x
                    done_a = {_ren(h): [_ren(c) for c in cs] for h, cs in done_a.items()}
                    rep_a = {_ren(k): _ren(v) for k, v in rep_a.items()}
                self.inlined, self.absorbed, self.reparented = _inline.inline_new_helpers([d for _, d in raw], is_new, prior=done_a)
                self.reparented.update(rep_a)
        self._is_async_helper = {b["path"]: bool(b.get("asyncness")) for _, d in raw for b in d["bodies"] if b["path"] in self.absorbed}
        for f, d in raw:
            cname = d["crate"]
            self.files.append(f)
            key = cname + ":" + d["tag"]
            self.crates[key] = {
                "crate": cname,
                "tag": d["tag"],
                "body_owners": d["body_owners"],
                "bodies_dumped": d["bodies_dumped"],
                "argv": d["argv"],
            }
            seen_here = {}
            for b in d["bodies"]:
                if b["path"] in self.absorbed or (b["path"].endswith("::{closure#0}") and b["path"][: -len("::{closure#0}")] in self.absorbed and self._is_async_helper.get(b["path"][: -len("::{closure#0}")])):
                    continue  # a new helper whose every use was expanded into its callers
                body = Body(b, cname)
                # Distinct items of one compilation can print the same path (e.g. two `__DeserializeWith` helpers that
                # serde derives inside one visit_map, or the anonymous `_` consts): keep them all, the 2nd, 3rd.. under
                # `path#2`, `path#3` (ordered as emitted, i.e. by definition order). Only functions/closures matter.
                k = seen_here.get(body.path, 0) + 1
                seen_here[body.path] = k
                if k > 1 and body.kind in ("Fn", "AssocFn", "Closure"):
                    body.path = "%s#%d" % (body.path, k)
                # the same lib may be compiled twice (lib + lib-test); keep the first (non-test sorts first)
                if body.path not in self.bodies:
                    self.bodies[body.path] = body
            for a in d["adts"]:
                self.adts.setdefault(a["path"], a)
            for i in d["impls"]:
                i["crate"] = cname
                self.impls.append(i)
            for p in d["decl_only_fns"]:
                self.decl_only.add(p)
        # closures written inside a helper that was absorbed by its callers are closures of (the first of) those callers:
        # the statement that builds them is in the caller's body now
        for b in self.bodies.values():
            par = b.parent
            seen = 0
            while par and par not in self.bodies and seen < 4:
                seen += 1
                if par in self.absorbed and self.inlined.get(par):
                    par = self.inlined[par][0]
                elif par.endswith("::{closure#0}") and par[: -len("::{closure#0}")] in self.absorbed and self.inlined.get(par[: -len("::{closure#0}")]):
                    par = self.inlined[par[: -len("::{closure#0}")]][0]
                else:
                    break
            if par != b.parent and par in self.bodies:
                b.parent = par
        self._children = None
        # types the pinned tree does not have (a parameter bundle introduced by a refactor): the tracer looks through
        # their fields instead of stopping at them
        at = _load_adt_table() if aliases else {}
        self.new_adts = {p for p, a in self.adts.items() if at and p not in at and p.startswith("jsonrpsee") and "{" not in p and not _TEST_RX.search(p)}

    # ---- lookup ---------------------------------------------------------------------------
    def body(self, path):
        return self.bodies.get(path)

    def find(self, pat, kinds=None):
        """bodies whose path matches regex `pat` (search)."""
        rx = re.compile(pat)
        out = [b for p, b in self.bodies.items() if rx.search(p)]
        if kinds:
            out = [b for b in out if b.kind in kinds]
        return out

    def one(self, pat):
        rx = re.compile(pat)
        out = [b for p, b in self.bodies.items() if rx.search(p)]
        if len(out) != 1:
            raise AnchorLost("expected exactly one body matching %r, found %d: %s" % (pat, len(out), [b.path for b in out][:6]))
        return out[0]

    def children(self, body):
        if self._children is None:
            ch = {}
            for b in self.bodies.values():
                if b.parent:
                    ch.setdefault(self.reparented.get(b.parent, b.parent), []).append(b)
            # closures written inside a helper that was inlined belong to the callers as well
            for h, callers in self.inlined.items():
                extra = [c for c in ch.get(h, []) if c.path != h + "::{closure#0}"] + ch.get(h + "::{closure#0}", [])
                if h + "::{closure#0}" in self.bodies and not (self.bodies.get(h) is not None and self.bodies[h].d.get("asyncness")):
                    extra.append(self.bodies[h + "::{closure#0}"])
                for cp in callers:
                    lst = ch.setdefault(cp, [])
                    for e in extra:
                        if e not in lst:
                            lst.append(e)
            self._children = ch
        return self._children.get(body.path, [])

    def nested(self, body, include_self=True):
        """body + all closures/coroutines nested in it (transitively), skipping consts/statics from macros."""
        out = [body] if include_self else []
        st = [body]
        while st:
            b = st.pop()
            for c in self.children(b):
                if c.kind == "Closure":
                    out.append(c)
                    st.append(c)
        return out

    def real_bodies(self):
        """function-like bodies (fn, assoc fn, closures) – no consts/statics"""
        return [b for b in self.bodies.values() if b.kind in ("Fn", "AssocFn", "Closure")]

    def all_calls(self, pat, crates=None, skip_tests=True):
        out = []
        for b in self.real_bodies():
            if crates and b.crate not in crates:
                continue
            if skip_tests and is_test_body(b):
                continue
            for c in b.calls:
                if c.matches(pat):
                    out.append(c)
        return out

    def adt(self, path):
        return self.adts.get(path)

    def parent_body(self, body):
        return self.bodies.get(body.parent) if body.parent else None

    def root_fn(self, body):
        b = body
        while b.kind == "Closure" and b.parent in self.bodies:
            b = self.bodies[b.parent]
        return b


class AnchorLost(Exception):
    pass


# ---- renamed / moved functions ---------------------------------------------------------------------------------------
# The rules name the library's functions by path. A private function can be renamed, or moved to another module, without
# any change of behaviour; reporting "anchor lost" for that would be an alarm on code where the property holds. The table
# fn_fingerprints.json (tools/gen_fn_fingerprints.py, generated from the pinned tree and committed) records for every
# function of the library crates its signature (parameter and return types with its own name blanked) and the set of
# functions it calls. When a recorded function is missing from the tree under analysis and a function the table does not
# know has the same signature in the same crate - and is the only such one, or by far the most similar by callees - the new
# name is an alias of the recorded one. The body that is analysed is always the one in the tree; only its name is mapped.
FP_FILE = os.path.join(os.path.dirname(os.path.abspath(__file__)), "fn_fingerprints.json")
_FP_TABLE = None


def _fp_candidate(b, crate):
    return (
        b["kind"] in ("Fn", "AssocFn")
        and crate.startswith("jsonrpsee")
        and not b.get("from_expansion")
        and not b.get("impl_trait")
        and not _TEST_RX.search(b["path"])
        and "/tests/" not in b["file"]
        and not b["file"].endswith("/tests.rs")
        and not re.match(r"^[\w:]+::_::", b["path"])
        and "{" not in b["path"].rsplit("::", 1)[-1]
    )


def fn_fingerprint(b):
    name = b["path"].rsplit("::", 1)[-1]
    rx = re.compile(r"\b%s\b" % re.escape(name))
    tys = [rx.sub("@", l["ty"]) for l in b["locals"][: b["argc"] + 1]]
    return "|".join([b["kind"], str(b.get("impl_self"))] + tys)


def fn_callees(raws):
    """path of every candidate function -> set of callee names in it and in the closures nested in it"""
    own = {}
    parent = {}
    for d in raws:
        for b in d["bodies"]:
            # only closures are folded into the function they are written in; a nested `fn` is a function of its own
            parent.setdefault(b["path"], b.get("parent") if b["kind"] == "Closure" else None)
            cs = own.setdefault(b["path"], set())
            for blk in b["blocks"]:
                t = blk["term"]
                if t and t["t"] == "call":
                    c = op_const(t["f"])
                    if c is not None and "fn" in c:
                        cs.add(c.get("res", c["fn"]))
    out = {}
    for p, cs in own.items():
        r = p
        seen = set()
        while parent.get(r) and parent[r] in own and r not in seen:
            seen.add(r)
            r = parent[r]
        out.setdefault(r, set()).update(cs)
    return out


def _load_fp_table():
    global _FP_TABLE
    if _FP_TABLE is None:
        try:
            with open(FP_FILE) as fh:
                _FP_TABLE = json.load(fh)
        except OSError:
            _FP_TABLE = {}
    return _FP_TABLE


def renamed_functions(raws, config=None):
    """{path in the tree: path the rules know} for functions that were renamed or moved, decided as described above."""
    table = _load_fp_table()
    if not table:
        return {}
    present = {}
    crates = {d["crate"] for d in raws}
    for d in raws:
        for b in d["bodies"]:
            if _fp_candidate(b, d["crate"]):
                present.setdefault(b["path"], (d["crate"], b))
    missing = [p for p, e in table.items() if p not in present and e["crate"] in crates and (config is None or config in e["cfgs"])]
    if not missing:
        return {}
    new = [p for p in present if p not in table]
    if not new:
        return {}
    callees = fn_callees(raws)
    newfp = {}
    for p in new:
        crate, b = present[p]
        newfp.setdefault((crate, fn_fingerprint(b)), []).append(p)

    def sim(m, n):
        a = set(table[m]["callees"])
        # calls to functions that were themselves renamed are compared by their last segment only
        b = callees.get(n, set())
        a2 = {x.rsplit("::", 1)[-1] for x in a}
        b2 = {x.rsplit("::", 1)[-1] for x in b}
        if not a2 and not b2:
            return 1.0
        return len(a2 & b2) / float(len(a2 | b2))

    pairs = []
    for m in missing:
        e = table[m]
        for n in newfp.get((e["crate"], e["fp"]), []):
            same_prefix = m.rsplit("::", 1)[0] == n.rsplit("::", 1)[0]
            pairs.append((sim(m, n) + (0.05 if same_prefix else 0.0), m, n))
    pairs.sort(reverse=True)
    out = {}
    used_m = set()
    for sc, m, n in pairs:
        if m in used_m or n in out:
            continue
        # the runner-up for either side must be clearly worse, and the bodies must still look alike
        rivals = [s for s, m2, n2 in pairs if (m2 == m) != (n2 == n) and m2 not in used_m and n2 not in out]
        if sc < 0.5 or (rivals and max(rivals) > sc - 0.15):
            continue
        out[n] = m
        used_m.add(m)
    # second tier: renamed *and* given another signature (parameters reordered or bundled): same crate and same enclosing
    # module / type, the sets of callees agree closely, and nothing else comes near
    pairs2 = []
    for m in missing:
        if m in used_m or not table[m]["callees"]:
            continue
        for n in new:
            near = n.startswith(m.rsplit("::", 1)[0] + "::") or m.startswith(n.rsplit("::", 1)[0] + "::")   # free fn <-> method of a type of that module
            if n in out or present[n][0] != table[m]["crate"] or not near:
                continue
            sc = sim(m, n)
            if sc >= 0.6:
                pairs2.append((sc, m, n))
    pairs2.sort(reverse=True)
    for sc, m, n in pairs2:
        if m in used_m or n in out:
            continue
        rivals = [s_ for s_, m2, n2 in pairs2 if (m2 == m) != (n2 == n) and m2 not in used_m and n2 not in out]
        if rivals and max(rivals) > sc - 0.2:
            continue
        out[n] = m
        used_m.add(m)
    return out


_TEST_RX = re.compile(r"(::tests?::|::tests?$|::test_|::mock)")


def is_test_body(b):
    return bool(_TEST_RX.search(b.path)) or "/tests/" in b.file or b.file.endswith("/tests.rs")


# ---- renamed types and fields ----------------------------------------------------------------------------------------
# Same idea for the library's own types: adt_fingerprints.json records, per struct / enum, the variants with their field
# names and types. A recorded type that is missing while an unknown type of the same crate has the same shape (same kind,
# same field types variant by variant) is that type under a new name; a recorded type whose fields have the same types in
# the same order but other names had its fields renamed. Both are mapped back to the recorded names before the rules run.
ADT_FP_FILE = os.path.join(os.path.dirname(os.path.abspath(__file__)), "adt_fingerprints.json")
_ADT_TABLE = None


def _load_adt_table():
    global _ADT_TABLE
    if _ADT_TABLE is None:
        try:
            with open(ADT_FP_FILE) as fh:
                _ADT_TABLE = json.load(fh)
        except OSError:
            _ADT_TABLE = {}
    return _ADT_TABLE


def adt_shape(a):
    name = a["path"].rsplit("::", 1)[-1]
    rx = re.compile(r"\b%s\b" % re.escape(name))
    return [a["kind"]] + [[rx.sub("@", f["ty"]) for f in v["fields"]] for v in a["variants"]]


def _adt_candidate(a, crate):
    return crate.startswith("jsonrpsee") and "{" not in a["path"] and "::_::" not in a["path"] and not _TEST_RX.search(a["path"])


def renamed_adts(raws, config=None):
    table = _load_adt_table()
    if not table:
        return {}
    present = {}
    crates = {d["crate"] for d in raws}
    for d in raws:
        for a in d["adts"]:
            if _adt_candidate(a, d["crate"]):
                present.setdefault(a["path"], (d["crate"], a))
    missing = [p for p, e in table.items() if p not in present and e["crate"] in crates and (config is None or config in e["cfgs"])]
    new = [p for p in present if p not in table]
    if not missing or not new:
        return {}

    def names(vs):
        return {f if isinstance(f, str) else f["n"] for v in vs for f in ([v["n"]] + [x["n"] for x in v["fields"]])}

    pairs = []
    for m in missing:
        e = table[m]
        for n in new:
            crate, a = present[n]
            if crate != e["crate"] or adt_shape(a) != e["shape"]:
                continue
            if not any(v["fields"] for v in a["variants"]) and len(a["variants"]) < 2:
                continue  # unit structs carry no shape to recognise them by
            na, nb = set(e["names"]), names(a["variants"])
            sim = len(na & nb) / float(len(na | nb) or 1)
            same_prefix = m.rsplit("::", 1)[0] == n.rsplit("::", 1)[0]
            pairs.append((sim + (0.05 if same_prefix else 0.0), m, n))
    pairs.sort(reverse=True)
    out = {}
    used = set()
    for sc, m, n in pairs:
        if m in used or n in out:
            continue
        rivals = [s for s, m2, n2 in pairs if (m2 == m) != (n2 == n) and m2 not in used and n2 not in out]
        if rivals and max(rivals) > sc - 0.15:
            continue
        out[n] = m
        used.add(m)
    return out


def renamed_fields(raws):
    """{(adt path, variant index): {field index: recorded name}} for types whose fields kept their types and order"""
    table = _load_adt_table()
    out = {}
    for d in raws:
        for a in d["adts"]:
            e = table.get(a["path"])
            if e is None or e["crate"] != d["crate"] or adt_shape(a) != e["shape"]:
                continue
            for vi, v in enumerate(a["variants"]):
                want = e["fields"][vi]
                got = [f["n"] for f in v["fields"]]
                if got != want and len(got) == len(want) and not got[0:1] == ["0"]:
                    out[(a["path"], vi)] = {i: w for i, (g, w) in enumerate(zip(got, want)) if g != w}
                    out[(a["path"], v["n"])] = out[(a["path"], vi)]
                # enum variants that kept their place and payload types but got another name
                wn = (e.get("variants") or [None] * (vi + 1))[vi] if vi < len(e.get("variants") or []) else None
                if wn and a["kind"] == "Enum" and wn != v["n"]:
                    out[("variant", a["path"], vi)] = (v["n"], wn)
    return out


def _respell_fields(d, fal):
    vren = {}   # (adt path, new variant name) -> recorded name
    for k, v in fal.items():
        if isinstance(k, tuple) and len(k) == 3 and k[0] == "variant":
            vren[(k[1], v[0])] = v[1]
    for a in d["adts"]:
        for vi, v in enumerate(a["variants"]):
            m = fal.get((a["path"], vi))
            if m:
                for i, w in m.items():
                    v["fields"][i]["n"] = w
            if (a["path"], v["n"]) in vren:
                v["n"] = vren[(a["path"], v["n"])]
    def walk(x):
        if isinstance(x, dict):
            if isinstance(x.get("p"), list) and vren:
                # `(.. as Variant).field`: the downcast carries only the variant's name, the field projection behind it the type
                pr = x["p"]
                for i, e in enumerate(pr[:-1]):
                    nx = pr[i + 1]
                    if isinstance(e, dict) and "d" in e and isinstance(nx, dict) and "o" in nx:
                        head, _, var = nx["o"].rpartition("::")
                        if (head, var) in vren and e["d"] == var:
                            e["d"] = vren[(head, var)]
            if "f" in x and "o" in x and "n" in x:
                o = x["o"]
                m = fal.get((o, 0))
                if m is None:
                    head, _, var = o.rpartition("::")
                    m = fal.get((head, var))
                    if (head, var) in vren:
                        x["o"] = head + "::" + vren[(head, var)]
                if m and x["f"] in m:
                    x["n"] = m[x["f"]]
            elif x.get("ak") == "adt" and "fields" in x and "adt" in x:
                if (x["adt"], x.get("variant")) in vren:
                    x["variant"] = vren[(x["adt"], x["variant"])]
                m = fal.get((x["adt"], x.get("vi", 0)))
                if m and len(x["fields"]) > max(m):
                    for i, w in m.items():
                        x["fields"][i] = w
            for v in x.values():
                if isinstance(v, (dict, list)):
                    walk(v)
        elif isinstance(x, list):
            for v in x:
                if isinstance(v, (dict, list)):
                    walk(v)

    for b in d["bodies"]:
        walk(b)

"""Loader for mirfacts JSON + CFG utilities (dominators, post-dominators, reachability, paths)."""
import json
import os
import re
from functools import cached_property


def op_place(op):
    if op is None:
        return None
    if "cp" in op:
        return op["cp"]
    if "mv" in op:
        return op["mv"]
    return None


def op_const(op):
    if op is not None and "c" in op:
        return op["c"]
    return None


def place_str(pl, body=None):
    s = "_%d" % pl["l"]
    if body is not None:
        n = body.locals[pl["l"]].get("n")
        if n:
            s = "%s/_%d" % (n, pl["l"])
    for e in pl.get("p", []):
        if e == "*":
            s = "(*%s)" % s
        elif isinstance(e, dict) and "f" in e:
            s += "." + e["n"]
        elif isinstance(e, dict) and "d" in e:
            s = "(%s as %s)" % (s, e["d"])
        elif isinstance(e, dict) and "i" in e:
            s += "[_%d]" % e["i"]
        else:
            s += "[..]"
    return s


def op_str(op, body=None):
    if op is None:
        return "?"
    if "cp" in op:
        return place_str(op["cp"], body)
    if "mv" in op:
        return "move " + place_str(op["mv"], body)
    if "c" in op:
        c = op["c"]
        if "fn" in c:
            return "fn " + c["fn"]
        for k in ("int", "str", "bool", "char"):
            if k in c:
                return "const %r: %s" % (c[k], c["ty"])
        if "name" in c:
            return "const %s" % c["name"]
        return "const <%s>" % c["ty"]
    return str(op)


class Call:
    __slots__ = ("body", "bb", "term", "callee", "resolved", "args", "dest", "target", "ga", "trait", "self_ty", "fconst")

    def __init__(self, body, bb, term):
        self.body = body
        self.bb = bb
        self.term = term
        f = term["f"]
        c = op_const(f)
        self.fconst = c
        if c is not None and "fn" in c:
            self.callee = c["fn"]
            self.resolved = c.get("res", c["fn"])
            self.ga = c.get("ga", [])
            self.trait = c.get("trait")
            self.self_ty = c.get("self") or c.get("implself")
        else:
            self.callee = None
            self.resolved = None
            self.ga = []
            self.trait = None
            self.self_ty = None
        self.args = term["args"]
        self.dest = term.get("dest")
        self.target = term.get("to")

    @property
    def line(self):
        return self.term["sp"][0]

    @property
    def exp(self):
        return self.term["sp"][2]

    def name(self):
        return self.resolved or self.callee or ("<indirect:%s>" % self.term.get("fty", "?"))

    def matches(self, pat):
        """pat: regex (search) against callee and resolved path."""
        for n in (self.callee, self.resolved):
            if n and re.search(pat, n):
                return True
        return False

    def loc(self):
        return "%s:%d" % (self.body.file, self.line)

    def __repr__(self):
        return "<call %s @%s bb%d>" % (self.name(), self.loc(), self.bb)


class Body:
    def __init__(self, d, crate):
        self.d = d
        self.crate = crate
        self.path = d["path"]
        self.kind = d["kind"]
        self.ckind = d.get("ckind")
        self.file = d["file"]
        self.lo = d["lo"]
        self.hi = d["hi"]
        self.parent = d.get("parent")
        self.upvars = d.get("upvars", [])
        self.locals = d["locals"]
        self.blocks = d["blocks"]
        self.argc = d["argc"]
        self.vis = d.get("vis")
        self.impl_self = d.get("impl_self")
        self.impl_trait = d.get("impl_trait")
        self.from_expansion = d.get("from_expansion", False)

    def __repr__(self):
        return "<body %s>" % self.path

    # ---- structure -------------------------------------------------------------------------
    @cached_property
    def calls(self):
        out = []
        for i, b in enumerate(self.blocks):
            t = b["term"]
            if t and t["t"] == "call":
                out.append(Call(self, i, t))
        return out

    def calls_to(self, pat):
        return [c for c in self.calls if c.matches(pat)]

    @cached_property
    def succ(self):
        """Real successor edges: unwind edges, cleanup blocks and imaginary FalseEdge targets dropped."""
        res = []
        for b in self.blocks:
            t = b["term"]
            s = []
            if t is None or b.get("cleanup"):
                res.append(s)
                continue
            k = t["t"]
            if k in ("goto", "drop", "assert", "falseedge", "falseunwind"):
                s.append(t["to"])
            elif k == "call":
                if t.get("to") is not None:
                    s.append(t["to"])
            elif k == "switch":
                for _, tb in t["arms"]:
                    if tb not in s:
                        s.append(tb)
                if t["otherwise"] not in s:
                    s.append(t["otherwise"])
            elif k == "yield":
                s.append(t["to"])
            # return / unreachable / resume / terminate / coroutine_drop / tailcall: none
            res.append(s)
        return res

    @cached_property
    def pred(self):
        p = [[] for _ in self.blocks]
        for i, ss in enumerate(self.succ):
            for s in ss:
                p[s].append(i)
        return p

    @cached_property
    def reachable(self):
        seen = {0}
        st = [0]
        while st:
            n = st.pop()
            for s in self.succ[n]:
                if s not in seen:
                    seen.add(s)
                    st.append(s)
        return seen

    @cached_property
    def dom(self):
        """dom[b] = set of blocks dominating b (incl. b). Only over reachable blocks."""
        nodes = sorted(self.reachable)
        allb = set(nodes)
        dom = {n: set(allb) for n in nodes}
        dom[0] = {0}
        changed = True
        # reverse post-order helps, but graphs are small
        order = self._rpo()
        while changed:
            changed = False
            for n in order:
                if n == 0:
                    continue
                ps = [p for p in self.pred[n] if p in allb]
                if not ps:
                    new = {n}
                else:
                    new = set.intersection(*(dom[p] for p in ps)) | {n}
                if new != dom[n]:
                    dom[n] = new
                    changed = True
        return dom

    def _rpo(self):
        seen = set()
        order = []

        def dfs(n):
            stack = [(n, iter(self.succ[n]))]
            seen.add(n)
            while stack:
                node, it = stack[-1]
                adv = False
                for s in it:
                    if s not in seen:
                        seen.add(s)
                        stack.append((s, iter(self.succ[s])))
                        adv = True
                        break
                if not adv:
                    order.append(node)
                    stack.pop()

        dfs(0)
        order.reverse()
        return order

    @cached_property
    def exits(self):
        """Blocks that end the function normally (return / coroutine return)."""
        return [i for i in self.reachable if self.blocks[i]["term"] and self.blocks[i]["term"]["t"] in ("return", "tailcall")]

    def dominates(self, a, b):
        """block a dominates block b"""
        return b in self.dom and a in self.dom[b]

    def pt_dominates(self, pa, pb):
        """program points (bb, idx); idx = statement index, terminator = len(st)"""
        if pa[0] == pb[0]:
            return pa[1] <= pb[1]
        return self.dominates(pa[0], pb[0])

    def reach_from(self, start, avoid=()):
        """blocks reachable from block `start` (inclusive of successors only) without entering blocks in `avoid`."""
        avoid = set(avoid)
        seen = set()
        st = [s for s in self.succ[start] if s not in avoid]
        seen.update(st)
        while st:
            n = st.pop()
            for s in self.succ[n]:
                if s not in seen and s not in avoid:
                    seen.add(s)
                    st.append(s)
        return seen

    def can_reach(self, a, b, avoid=()):
        if a == b:
            return True
        return b in self.reach_from(a, avoid)

    def term_idx(self, bb):
        return len(self.blocks[bb]["st"])

    # every definition (assignment) of a local: list of (bb, idx, place, rvalue|call)
    @cached_property
    def defs(self):
        d = {}
        for bi, b in enumerate(self.blocks):
            if b.get("cleanup"):
                continue
            for si, st in enumerate(b["st"]):
                if st["s"] == "assign":
                    d.setdefault(st["pl"]["l"], []).append((bi, si, st["pl"], ("rv", st["rv"])))
            t = b["term"]
            if t and t["t"] == "call" and t.get("dest") is not None:
                d.setdefault(t["dest"]["l"], []).append((bi, len(b["st"]), t["dest"], ("call", t)))
            if t and t["t"] == "yield":
                ra = t.get("resume_arg")
                if ra is not None:
                    d.setdefault(ra["l"], []).append((bi, len(b["st"]), ra, ("yield", t)))
        return d

    def local_name(self, l):
        return self.locals[l].get("n")

    def local_ty(self, l):
        return self.locals[l]["ty"]

    def locals_named(self, name):
        return [i for i, l in enumerate(self.locals) if l.get("n") == name]


class Facts:
    def __init__(self, fact_dir, crates=None):
        self.dir = fact_dir
        self.crates = {}
        self.bodies = {}
        self.adts = {}
        self.impls = []
        self.decl_only = set()
        self.files = []
        for f in sorted(os.listdir(fact_dir)):
            if not f.endswith(".json"):
                continue
            with open(os.path.join(fact_dir, f)) as fh:
                d = json.load(fh)
            cname = d["crate"]
            if crates is not None and cname not in crates:
                continue
            self.files.append(f)
            key = cname + ":" + d["tag"]
            self.crates[key] = {
                "crate": cname,
                "tag": d["tag"],
                "body_owners": d["body_owners"],
                "bodies_dumped": d["bodies_dumped"],
                "argv": d["argv"],
            }
            seen_here = {}
            for b in d["bodies"]:
                body = Body(b, cname)
                # Distinct items of one compilation can print the same path (e.g. two `__DeserializeWith` helpers that
                # serde derives inside one visit_map, or the anonymous `_` consts): keep them all, the 2nd, 3rd.. under
                # `path#2`, `path#3` (ordered as emitted, i.e. by definition order). Only functions/closures matter.
                k = seen_here.get(body.path, 0) + 1
                seen_here[body.path] = k
                if k > 1 and body.kind in ("Fn", "AssocFn", "Closure"):
                    body.path = "%s#%d" % (body.path, k)
                # the same lib may be compiled twice (lib + lib-test); keep the first (non-test sorts first)
                if body.path not in self.bodies:
                    self.bodies[body.path] = body
            for a in d["adts"]:
                self.adts.setdefault(a["path"], a)
            for i in d["impls"]:
                i["crate"] = cname
                self.impls.append(i)
            for p in d["decl_only_fns"]:
                self.decl_only.add(p)
        self._children = None

    # ---- lookup ---------------------------------------------------------------------------
    def body(self, path):
        return self.bodies.get(path)

    def find(self, pat, kinds=None):
        """bodies whose path matches regex `pat` (search)."""
        rx = re.compile(pat)
        out = [b for p, b in self.bodies.items() if rx.search(p)]
        if kinds:
            out = [b for b in out if b.kind in kinds]
        return out

    def one(self, pat):
        rx = re.compile(pat)
        out = [b for p, b in self.bodies.items() if rx.search(p)]
        if len(out) != 1:
            raise AnchorLost("expected exactly one body matching %r, found %d: %s" % (pat, len(out), [b.path for b in out][:6]))
        return out[0]

    def children(self, body):
        if self._children is None:
            ch = {}
            for b in self.bodies.values():
                if b.parent:
                    ch.setdefault(b.parent, []).append(b)
            self._children = ch
        return self._children.get(body.path, [])

    def nested(self, body, include_self=True):
        """body + all closures/coroutines nested in it (transitively), skipping consts/statics from macros."""
        out = [body] if include_self else []
        st = [body]
        while st:
            b = st.pop()
            for c in self.children(b):
                if c.kind == "Closure":
                    out.append(c)
                    st.append(c)
        return out

    def real_bodies(self):
        """function-like bodies (fn, assoc fn, closures) – no consts/statics"""
        return [b for b in self.bodies.values() if b.kind in ("Fn", "AssocFn", "Closure")]

    def all_calls(self, pat, crates=None, skip_tests=True):
        out = []
        for b in self.real_bodies():
            if crates and b.crate not in crates:
                continue
            if skip_tests and is_test_body(b):
                continue
            for c in b.calls:
                if c.matches(pat):
                    out.append(c)
        return out

    def adt(self, path):
        return self.adts.get(path)

    def parent_body(self, body):
        return self.bodies.get(body.parent) if body.parent else None

    def root_fn(self, body):
        b = body
        while b.kind == "Closure" and b.parent in self.bodies:
            b = self.bodies[b.parent]
        return b


class AnchorLost(Exception):
    pass


_TEST_RX = re.compile(r"(::tests?::|::tests?$|::test_|::mock)")


def is_test_body(b):
    return bool(_TEST_RX.search(b.path)) or "/tests/" in b.file or b.file.endswith("/tests.rs")

"""Engine C: type-level witnesses (compile_fail doctests with compiling twins), thorough tier only."""
import json
import os
import re
import shutil
import subprocess

from . import extract


def run_witnesses():
    """returns {name: {"compile_fail": bool, "twin": bool}} ; cached per /repo tree hash"""
    th = extract.tree_hash()
    with open(os.path.join(extract.VERIF, "witness", "src", "lib.rs"), "rb") as fh:
        import hashlib

        th = hashlib.sha256((th + hashlib.sha256(fh.read()).hexdigest()).encode()).hexdigest()[:24]
    cache = os.path.join(extract.CACHE, "witness-results", th + ".json")
    if os.path.exists(cache):
        return json.load(open(cache))
    out = os.path.join(extract.CACHE, "witness")
    os.makedirs(os.path.join(out, "src"), exist_ok=True)
    src = os.path.join(extract.VERIF, "witness")
    with open(os.path.join(src, "Cargo.toml")) as fh:
        toml = fh.read().replace("REPO", extract.REPO)
    with open(os.path.join(out, "Cargo.toml"), "w") as fh:
        fh.write(toml)
    shutil.copyfile(os.path.join(src, "src", "lib.rs"), os.path.join(out, "src", "lib.rs"))
    shutil.copyfile(os.path.join(extract.REPO, "Cargo.lock"), os.path.join(out, "Cargo.lock"))
    env = dict(os.environ, CARGO_NET_OFFLINE="true", CARGO_INCREMENTAL="0", CARGO_TARGET_DIR=os.path.join(extract.CACHE, "target-witness"))
    env.pop("RUSTC_WORKSPACE_WRAPPER", None)
    r = subprocess.run(["cargo", "+nightly", "test", "--doc", "--offline"], cwd=out, env=env, capture_output=True, text=True)
    txt = r.stdout + r.stderr
    res = {}
    for m in re.finditer(r"^test src/lib.rs - (\w+) \(line \d+\)( - compile fail| - compile)? \.\.\. (\w+)", txt, re.M):
        d = res.setdefault(m.group(1), {"compile_fail": False, "twin": False})
        if m.group(2) and "fail" in m.group(2):
            d["compile_fail"] = m.group(3) == "ok"
        else:
            d["twin"] = m.group(3) == "ok"
    res["_raw_tail"] = txt[-1500:] if not res or r.returncode != 0 else ""
    os.makedirs(os.path.dirname(cache), exist_ok=True)
    json.dump(res, open(cache, "w"))
    return res


def check_witnesses(R, names):
    res = run_witnesses()
    for n, (code, what) in names.items():
        d = res.get(n)
        ok = bool(d) and d["compile_fail"] and d["twin"]
        R.check(ok, R.pid + ".W", "witness:" + n, "witness %s: the violating program is rejected with %s and its twin compiles (%s)" % (n, code, what), "witness %s: %s" % (n, ("the violating program compiles or fails with another error than %s" % code) if d and not d["compile_fail"] else ("the compiling twin does not compile (the witness proves nothing)" if d else "was not run: " + res.get("_raw_tail", "")[-300:])), "witness/src/lib.rs")

"""Helper functions that the pinned tree does not have are analysed as part of their callers.

"Extract function" is the commonest behaviour-preserving edit there is, and the rules name the functions in which the
library does its work. A function of the library crates that fn_fingerprints.json does not know (and that is not a known
one under a new name, see facts.renamed_functions) is therefore *inlined* into every direct caller before the rules run:
its blocks and locals are appended to the caller, arguments become assignments, `return` becomes a jump back. For an
`async fn` helper that is awaited where it is called, the body of its future replaces the caller's poll loop (its own
awaits become awaits of the caller). The helper's body also stays in the fact base under its own name, so that rules
which scan every function of a module still see it. Nothing is inlined that the pinned tree knows: the facts of the
unmodified tree are exactly what the compiler produced.

Works on the raw JSON dicts of the fact files, before Body objects are built."""
import copy
import re

_BLOCK_KEYS = ("to", "otherwise", "imaginary", "unwind", "drop")
MAX_ROUNDS = 6
MAX_BLOCKS = 6000


def _renumber(x, loff, boff, lmap=None):
    """in place: locals += loff (or through lmap), block ids += boff"""
    if isinstance(x, dict):
        for k, v in list(x.items()):
            if k in ("l", "i") and isinstance(v, int) and not x.get("_final"):
                x[k] = lmap[v] if lmap is not None and v in lmap else v + loff
            elif k in _BLOCK_KEYS and isinstance(v, int) and not isinstance(v, bool):
                x[k] = v + boff
            elif k == "arms":
                x[k] = [[a, b + boff] for a, b in v]
            elif isinstance(v, (dict, list)):
                _renumber(v, loff, boff, lmap)
    elif isinstance(x, list):
        for v in x:
            if isinstance(v, (dict, list)):
                _renumber(v, loff, boff, lmap)


def _callee_path(t):
    f = t.get("f") or {}
    c = f.get("c")
    if not c or "fn" not in c:
        return None
    return c.get("res", c["fn"])


def _callee_decl(t):
    c = (t.get("f") or {}).get("c")
    return c.get("fn") if c and "fn" in c else None


def _sp(t):
    return t.get("sp", [0, 0, ""])


def _use(dst, op, sp):
    return {"s": "assign", "pl": dst, "rv": {"k": "use", "op": op}, "sp": sp}


def _known_variant(blk, ret_local):
    """discriminant value the block leaves in the return place, when its last write of it is a plain constructor"""
    for st in reversed(blk["st"]):
        if st.get("s") == "assign" and st["pl"]["l"] == ret_local and not st["pl"].get("p"):
            rv = st["rv"]
            if rv["k"] == "agg" and rv.get("ak") == "adt" and "vi" in rv:
                return str(rv["vi"])
            if rv["k"] == "use" and "c" in rv["op"] and "bool" in rv["op"]["c"]:
                return "1" if rv["op"]["c"]["bool"] else "0"
            return None
    return None


def _place_of(op):
    if not isinstance(op, dict):
        return None
    return op.get("mv") or op.get("cp")


def _thread_from(B, site_bb, ret_local, variant, max_steps=32):
    """`site_bb` ends in a goto and leaves the enum variant / bool `variant` in `ret_local`. Follow the straight-line code
    behind it (moves, `Poll::Ready(..)` wrapping and unwrapping, `?`'s Try::branch, drops) and, if it ends in a switch on
    that very value, give this path its own copy of that code ending in a jump to the arm taken. Tail duplication: every
    statement and call still runs, only the join with the helper's other return paths is undone."""
    facts = {ret_local: variant}
    payload = {}
    dv = {}
    seeded = {("f", ret_local)}   # facts that derive from the seed (only those justify giving this path its own copy)
    chain = []
    t0 = B["blocks"][site_bb]["term"]
    if not t0 or t0["t"] not in ("goto", "drop", "call") or t0.get("to") is None:
        return False
    cur = t0["to"]

    def kill(l):
        facts.pop(l, None)
        dv.pop(l, None)
        seeded.discard(("f", l))
        seeded.discard(("d", l))
        for k in [k for k in payload if k[0] == l]:
            payload.pop(k)
            seeded.discard(("p",) + k)

    def transfer(st, all_seeded=False):
        if st.get("s") != "assign":
            return
        pl = st["pl"]
        if pl.get("p"):
            return
        l = pl["l"]
        rv = st["rv"]
        if rv["k"] == "use":
            q = _place_of(rv["op"])
            if q is not None and not q.get("p") and q["l"] in facts:
                v = facts[q["l"]]
                was = ("f", q["l"]) in seeded
                pay = {(l,) + k[1:]: (x, ("p",) + k in seeded) for k, x in payload.items() if k[0] == q["l"]}
                kill(l)
                facts[l] = v
                if was:
                    seeded.add(("f", l))
                for k2, (x, sd) in pay.items():
                    payload[k2] = x
                    if sd:
                        seeded.add(("p",) + k2)
            elif q is not None and len(q.get("p", [])) == 2 and isinstance(q["p"][0], dict) and "d" in q["p"][0] and isinstance(q["p"][1], dict) and "f" in q["p"][1] and (q["l"], q["p"][0]["d"], q["p"][1]["f"]) in payload:
                key_ = (q["l"], q["p"][0]["d"], q["p"][1]["f"])
                v = payload[key_]
                was = ("p",) + key_ in seeded
                kill(l)
                facts[l] = v
                if was:
                    seeded.add(("f", l))
            elif "c" in rv["op"] and "bool" in rv["op"]["c"]:
                kill(l)
                facts[l] = "1" if rv["op"]["c"]["bool"] else "0"
            else:
                kill(l)
        elif rv["k"] == "agg" and rv.get("ak") == "adt" and "vi" in rv:
            inner = {}
            for i, op in enumerate(rv["ops"]):
                q = _place_of(op)
                if q is not None and not q.get("p") and q["l"] in facts:
                    inner[(l, rv.get("variant"), i)] = (facts[q["l"]], ("f", q["l"]) in seeded)
            kill(l)
            facts[l] = str(rv["vi"])
            for k2, (x, sd) in inner.items():
                payload[k2] = x
                if sd:
                    seeded.add(("p",) + k2)
        elif rv["k"] == "discr":
            q = rv["pl"]
            was = ("f", q["l"]) in seeded
            kill(l)
            if not q.get("p") and q["l"] in facts:
                dv[l] = facts[q["l"]]
                if was:
                    seeded.add(("d", l))
        else:
            kill(l)

    # the site block's own statements establish the facts (a `tmp = Ok(x); ret = Some(move tmp)` pair included)
    for st in B["blocks"][site_bb]["st"]:
        transfer(st)
    for l_ in list(facts):
        seeded.add(("f", l_))
    for k_ in list(payload):
        seeded.add(("p",) + k_)
    facts[ret_local] = variant
    seeded.add(("f", ret_local))
    for _ in range(max_steps):
        blk = B["blocks"][cur]
        if blk.get("cleanup"):
            return False
        for st in blk["st"]:
            transfer(st)
        t = blk["term"]
        if not t:
            return False
        if t["t"] == "switch":
            q = _place_of(t["discr"])
            if q is None or q.get("p"):
                return False
            val = dv.get(q["l"], facts.get(q["l"]) if B["locals"][q["l"]]["ty"] == "bool" else None)
            if val is None:
                return False
            if not (("d", q["l"]) in seeded or ("f", q["l"]) in seeded):
                return False   # decided by something built on the way, not by the seed: a later seed gets it with less code
            arms = dict((a_, b_) for a_, b_ in t["arms"])
            tgt = arms.get(val, t["otherwise"])
            # clone the chain
            first = len(B["blocks"])
            ids = {}
            for i, c in enumerate(chain + [cur]):
                ids[c] = first + i
            for c in chain:
                nb = copy.deepcopy(B["blocks"][c])
                nb["term"]["to"] = ids[B["blocks"][c]["term"]["to"]]
                B["blocks"].append(nb)
            last = copy.deepcopy(blk)
            last["term"] = {"t": "goto", "to": tgt, "sp": _sp(t)}
            B["blocks"].append(last)
            B["blocks"][site_bb]["term"]["to"] = first
            return True
        if t["t"] in ("goto", "falseunwind", "falseedge", "drop"):
            chain.append(cur)
            cur = t["to"]
        elif t["t"] == "call" and t.get("to") is not None and not t["dest"].get("p"):
            d = t["dest"]["l"]
            nm = _callee_decl(t) or ""
            a0 = _place_of(t["args"][0]) if t["args"] else None
            known = None
            if re.search(r"Try>?::branch$", nm) and a0 is not None and not a0.get("p") and a0["l"] in facts:
                ty = B["locals"][a0["l"]]["ty"]
                v = facts[a0["l"]]
                if re.match(r"^(std|core)::result::Result<", ty):
                    known = v
                elif re.match(r"^(std|core)::option::Option<", ty):
                    known = "0" if v == "1" else "1"
            if known is None and a0 is not None and not a0.get("p") and a0["l"] in facts:
                # std combinators whose outcome variant is a function of the input's variant
                v0 = facts[a0["l"]]
                if re.search(r"result::Result::<.*>::(map_err|map|inspect|inspect_err|as_ref|as_mut|as_deref|copied|cloned)$", nm) or re.search(r"option::Option::<.*>::(map|inspect|as_ref|as_mut|as_deref|copied|cloned)$", nm):
                    known = v0
                elif re.search(r"option::Option::<.*>::(ok_or|ok_or_else)$", nm) or re.search(r"result::Result::<.*>::(ok)$", nm):
                    known = "0" if v0 == "1" else "1"
                elif re.search(r"result::Result::<.*>::(err)$", nm):
                    known = v0
            inner = None
            inner_sd = False
            was = a0 is not None and ("f", a0["l"]) in seeded
            if known == "0" and a0 is not None:
                # Continue(v): v is the payload of the Ok / Some that went in
                for vn in ("Ok", "Some"):
                    if (a0["l"], vn, 0) in payload:
                        inner = payload[(a0["l"], vn, 0)]
                        inner_sd = ("p", a0["l"], vn, 0) in seeded
            kill(d)
            if known is not None:
                facts[d] = known
                if was:
                    seeded.add(("f", d))
                if inner is not None:
                    payload[(d, "Continue", 0)] = inner
                    if inner_sd:
                        seeded.add(("p", d, "Continue", 0))
            chain.append(cur)
            cur = t["to"]
        else:
            return False
        if cur in chain:
            return False
    return False


def _thread_returns(B, first, last, ret_bb, ret_local):
    """see _thread_from; applied to every return site of a body that was just spliced in (blocks first..last-1, all jumping
    to ret_bb with their result in ret_local)"""
    sites = []
    for bi in range(first, last):
        t = B["blocks"][bi]["term"]
        if t and t["t"] == "goto" and t["to"] == ret_bb:
            sites.append(bi)
    work = []
    for bi in sites:
        blk = B["blocks"][bi]
        v = _known_variant(blk, ret_local)
        if v is not None:
            work.append((bi, v))
        elif not any(st.get("s") == "assign" for st in blk["st"]):
            # a bare `return` block reached by several `_0 = ..; goto` blocks: look one step back
            preds = [pi for pi in range(first, last) if (B["blocks"][pi]["term"] or {}).get("t") == "goto" and B["blocks"][pi]["term"]["to"] == bi]
            for pi in preds:
                pv = _known_variant(B["blocks"][pi], ret_local)
                if pv is not None:
                    work.append((pi, pv))
    # `?` inside the spliced body: `ret = from_residual(..)` is an Err (None for an Option) whatever it carries
    rty = B["locals"][ret_local]["ty"] if ret_local < len(B["locals"]) else ""
    resid = "1" if re.match(r"^(std|core)::result::Result<", rty) else ("0" if re.match(r"^(std|core)::option::Option<", rty) else None)
    if resid is not None:
        for bi in range(first, last):
            t = B["blocks"][bi]["term"]
            if t and t["t"] == "call" and t.get("to") is not None and re.search(r"FromResidual(<.*>)?>?::from_residual$", _callee_decl(t) or "") and t["dest"]["l"] == ret_local and not t["dest"].get("p") and not B["blocks"][bi].get("cleanup"):
                work.append((bi, resid))
    for bi, v in work:
        _thread_from(B, bi, ret_local, v)


def _single_ref_def(B, l, upto=None):
    """the place P when local l is defined exactly once in B, as `l = &P` / `l = &mut P` (else None)"""
    found = None
    n = 0
    for blk in B["blocks"][: upto or len(B["blocks"])]:
        for st in blk["st"]:
            if st.get("s") == "assign" and st["pl"]["l"] == l and not st["pl"].get("p"):
                n += 1
                if st["rv"]["k"] == "ref":
                    found = st["rv"]["pl"]
                elif st["rv"]["k"] == "use":
                    q = _place_of(st["rv"]["op"])
                    found = ("alias", q) if q is not None and not q.get("p") else None
                else:
                    found = None
        t = blk["term"]
        if t and t["t"] == "call" and t.get("dest") and t["dest"]["l"] == l:
            n += 1
            found = None
    return found if n == 1 else None


def _pointee(B, l, upto, depth=0):
    """the place `*l` stands for, through `l = &mut x`, moves of references and reborrows `l = &mut *r`"""
    if depth > 4:
        return None
    d = _single_ref_def(B, l, upto)
    if d is None:
        return None
    if isinstance(d, tuple):
        return _pointee(B, d[1]["l"], upto, depth + 1)
    pr = d.get("p", [])
    if pr and pr[0] == "*":
        base = _pointee(B, d["l"], upto, depth + 1)
        if base is None:
            if 1 <= d["l"] <= B.get("argc", 0) and not any(e == "*" for e in pr[1:]):
                return {"l": d["l"], "p": list(pr)}   # a reborrow of one of the caller's own reference parameters
            return None
        return {"l": base["l"], "p": list(base.get("p", [])) + list(pr[1:])}
    if any(e == "*" for e in pr):
        return None
    return {"l": d["l"], "p": list(pr)}


def _see_through_refs(B, first, last, param_locals, upto):
    """inside the blocks first..last-1 (a body that was just spliced in) `(*param).x` is written as the place the reference
    was taken of at the call site (`&mut state` -> `state.x`), when that is unambiguous and the parameter is never
    reassigned in the body: the spliced code then reads and writes the caller's variables the way un-extracted code would"""
    targets = {}
    for pl in param_locals:
        tgt = _pointee(B, pl, upto)
        if tgt is None:
            continue
        # the parameter itself must not be written inside the spliced body
        clean = True
        for blk in B["blocks"][first:last]:
            for st in blk["st"]:
                if st.get("s") == "assign" and st["pl"]["l"] == pl and not st["pl"].get("p"):
                    clean = False
            t = blk["term"]
            if t and t["t"] == "call" and t.get("dest") and t["dest"]["l"] == pl:
                clean = False
        if clean:
            targets[pl] = tgt
    if not targets:
        return

    def walk(x):
        if isinstance(x, dict):
            if isinstance(x.get("l"), int) and x["l"] in targets and isinstance(x.get("p"), list) and x["p"] and x["p"][0] == "*":
                tgt = targets[x["l"]]
                x["l"] = tgt["l"]
                x["p"] = list(tgt["p"]) + x["p"][1:]
                if not x["p"]:
                    x.pop("p")
            for v in x.values():
                if isinstance(v, (dict, list)):
                    walk(v)
        elif isinstance(x, list):
            for v in x:
                if isinstance(v, (dict, list)):
                    walk(v)

    walk(B["blocks"][first:last])


def _inline_sync(B, k, C):
    """replace the call terminating block k of B by the body of C"""
    t = B["blocks"][k]["term"]
    sp = _sp(t)
    loff = len(B["locals"])
    boff = len(B["blocks"])
    cl = copy.deepcopy(C["locals"])
    cb = copy.deepcopy(C["blocks"])
    _renumber(cb, loff, boff)
    B["locals"].extend(cl)
    ret_bb = boff + len(cb)
    for blk in cb:
        tt = blk["term"]
        if tt and tt["t"] == "return":
            blk["term"] = {"t": "goto", "to": ret_bb, "sp": _sp(tt)}
    B["blocks"].extend(cb)
    if t.get("to") is not None:
        B["blocks"].append({"cleanup": False, "st": [_use(t["dest"], {"mv": {"l": loff}}, sp)], "term": {"t": "goto", "to": t["to"], "sp": sp}})
    else:
        B["blocks"].append({"cleanup": False, "st": [], "term": {"t": "unreachable", "sp": sp}})
    blk = B["blocks"][k]
    for j, a in enumerate(t["args"]):
        if j + 1 <= C["argc"]:
            blk["st"].append(_use({"l": loff + 1 + j}, a, sp))
    blk["term"] = {"t": "goto", "to": boff, "sp": sp}
    _see_through_refs(B, boff, ret_bb, [loff + 1 + j for j in range(min(len(t["args"]), C["argc"]))], boff)
    _thread_returns(B, boff, ret_bb, ret_bb, loff)


def _copies(B, l):
    """locals holding (a move/copy of) local l"""
    out = {l}
    changed = True
    while changed:
        changed = False
        for blk in B["blocks"]:
            for st in blk["st"]:
                if st.get("s") == "assign" and st["rv"]["k"] == "use" and not st["pl"].get("p"):
                    op = st["rv"]["op"]
                    p = op.get("mv") or op.get("cp")
                    if p and not p.get("p") and p["l"] in out and st["pl"]["l"] not in out:
                        out.add(st["pl"]["l"])
                        changed = True
    return out


def _find_await(B, fut_local):
    """(block of the into_future call, block of the poll call, ready target, poll dest) for the awaited local, or None"""
    holders = _copies(B, fut_local)
    sites = []
    for bi, blk in enumerate(B["blocks"]):
        t = blk["term"]
        if t and t["t"] == "call" and re.search(r"IntoFuture>?::into_future$", _callee_decl(t) or ""):
            a = t["args"][0] if t["args"] else None
            p = (a.get("mv") or a.get("cp")) if a else None
            if p and not p.get("p") and p["l"] in holders:
                sites.append(bi)
    if len(sites) != 1:
        return None
    a_bb = sites[0]
    cur = B["blocks"][a_bb]["term"].get("to")
    for _ in range(10):
        if cur is None:
            return None
        t = B["blocks"][cur]["term"]
        if not t:
            return None
        if t["t"] == "call" and re.search(r"Future>?::poll$", _callee_decl(t) or ""):
            sw = t.get("to")
            if sw is None:
                return None
            ts = B["blocks"][sw]["term"]
            if not ts or ts["t"] != "switch":
                return None
            arms = dict((a, b) for a, b in ts["arms"])
            ready = arms.get("0")
            if ready is None:
                return None
            return a_bb, cur, ready, t["dest"]
        if t["t"] in ("goto", "falseunwind", "call", "drop", "falseedge"):
            cur = t.get("to")
        else:
            return None
    return None


def _inline_async(B, k, Cf, Cc):
    """B awaits `Cf(args)` (an async fn whose future body is Cc) right where / after it calls it: put Cc's body in place of
    the poll loop. Returns False (and changes nothing) when the shape is not the plain `helper(..).await`."""
    if B.get("ckind") != "coroutine" or len(B["locals"]) < 3:
        return False
    t = B["blocks"][k]["term"]
    if t.get("to") is None or t["dest"].get("p"):
        return False
    # the helper's own body: `_0 = <coroutine>(move _a, move _b, ..)`
    agg = None
    for blk in Cf["blocks"]:
        for st in blk["st"]:
            if st.get("s") == "assign" and st["rv"]["k"] == "agg" and st["rv"].get("ak") == "coroutine" and st["pl"]["l"] == 0 and not st["pl"].get("p"):
                agg = st["rv"]
    if agg is None or agg.get("def") != Cc["path"]:
        return False
    param_of_upvar = []
    for op in agg["ops"]:
        p = op.get("mv") or op.get("cp")
        if not p or p.get("p") or not (1 <= p["l"] <= Cf["argc"]):
            return False
        param_of_upvar.append(p["l"])
    found = _find_await(B, t["dest"]["l"])
    if found is None:
        return False
    a_bb, poll_bb, ready, poll_dest = found
    sp = _sp(t)
    loff = len(B["locals"])
    boff = len(B["blocks"])
    cl = copy.deepcopy(Cc["locals"])
    cb = copy.deepcopy(Cc["blocks"])
    B["locals"].extend(cl)
    # fresh locals for the captured arguments
    uv = []
    for u, pl in enumerate(param_of_upvar):
        ty = Cc["upvars"][u]["ty"] if u < len(Cc.get("upvars", [])) else Cf["locals"][pl]["ty"]
        B["locals"].append({"ty": ty, "n": (Cc["upvars"][u]["n"] if u < len(Cc.get("upvars", [])) else None)})
        uv.append(len(B["locals"]) - 1)

    def fix_upvars(x):
        if isinstance(x, dict):
            if "l" in x and x.get("l") == 1 and isinstance(x.get("p"), list) and x["p"]:
                e = x["p"][0]
                rest = x["p"][1:]
                if e == "*" and rest and isinstance(rest[0], dict) and rest[0].get("o") == "upvar":
                    e, rest = rest[0], rest[1:]
                if isinstance(e, dict) and "f" in e and e.get("o") == "upvar" and e["f"] < len(uv):
                    x["l"] = uv[e["f"]]
                    x["_final"] = True
                    if rest:
                        x["p"] = rest
                    else:
                        x.pop("p")
            for v in x.values():
                if isinstance(v, (dict, list)):
                    fix_upvars(v)
        elif isinstance(x, list):
            for v in x:
                if isinstance(v, (dict, list)):
                    fix_upvars(v)

    fix_upvars(cb)
    lmap = {2: 2}
    _renumber(cb, loff, boff, lmap)

    def unmark(x):
        if isinstance(x, dict):
            x.pop("_final", None)
            for v in x.values():
                if isinstance(v, (dict, list)):
                    unmark(v)
        elif isinstance(x, list):
            for v in x:
                if isinstance(v, (dict, list)):
                    unmark(v)

    unmark(cb)
    ret_bb = boff + len(cb)
    for blk in cb:
        tt = blk["term"]
        if tt and tt["t"] == "return":
            blk["term"] = {"t": "goto", "to": ret_bb, "sp": _sp(tt)}
    B["blocks"].extend(cb)
    # where the caller takes the value out of `Poll::Ready(v)`, the spliced body hands its result over directly (a copy of
    # the ready arm's first blocks with `(poll as Ready).0` replaced by the result); failing that, wrap it in a Poll::Ready
    ret_block = None
    cur = ready
    pre = []
    for _ in range(4):
        rb = B["blocks"][cur]
        hit = None
        for si, st in enumerate(rb["st"]):
            if st.get("s") == "assign" and st["rv"]["k"] == "use":
                q = st["rv"]["op"].get("mv") or st["rv"]["op"].get("cp")
                if q and q["l"] == poll_dest["l"] and len(q.get("p", [])) == 2 and isinstance(q["p"][0], dict) and q["p"][0].get("d") == "Ready":
                    hit = si
        if hit is not None:
            sts = copy.deepcopy(pre + rb["st"])
            sts[len(pre) + hit]["rv"]["op"] = {"mv": {"l": loff}}
            ret_block = {"cleanup": False, "st": sts, "term": copy.deepcopy(rb["term"])}
            break
        if rb["term"] and rb["term"]["t"] in ("goto", "falseedge", "falseunwind"):
            pre = pre + rb["st"]
            cur = rb["term"]["to"]
        else:
            break
    if ret_block is None:
        ready_st = {"s": "assign", "pl": poll_dest, "rv": {"k": "agg", "ak": "adt", "adt": "std::task::Poll", "variant": "Ready", "vi": 0, "fields": ["0"], "ops": [{"mv": {"l": loff}}]}, "sp": sp}
        ret_block = {"cleanup": False, "st": [ready_st], "term": {"t": "goto", "to": ready, "sp": sp}}
    B["blocks"].append(ret_block)
    # the call site: bind the captured arguments, skip the call
    blk = B["blocks"][k]
    for u, pl in enumerate(param_of_upvar):
        if pl - 1 < len(t["args"]):
            blk["st"].append(_use({"l": uv[u]}, t["args"][pl - 1], sp))
    blk["term"] = {"t": "goto", "to": t["to"], "sp": sp}
    # the await: run the body instead of polling
    ab = B["blocks"][a_bb]
    ab["term"] = {"t": "goto", "to": boff, "sp": _sp(ab["term"])}
    _thread_returns(B, boff, ret_bb, ret_bb, loff)
    return True


def _async_as_block(B, k, Cf, Cc, taken):
    """the future of the async helper is not awaited in place (it is spawned, selected on, stored): present it the way an
    `async move { .. }` block written at the call site would look - a coroutine built from the arguments whose body is
    nested in the caller. Returns the new body dict or None."""
    t = B["blocks"][k]["term"]
    if t.get("to") is None:
        return None
    agg = None
    for blk in Cf["blocks"]:
        for st in blk["st"]:
            if st.get("s") == "assign" and st["rv"]["k"] == "agg" and st["rv"].get("ak") == "coroutine" and st["pl"]["l"] == 0 and not st["pl"].get("p"):
                agg = st["rv"]
    if agg is None or agg.get("def") != Cc["path"]:
        return None
    ops = []
    for op in agg["ops"]:
        p = op.get("mv") or op.get("cp")
        if not p or p.get("p") or not (1 <= p["l"] <= Cf["argc"]) or p["l"] - 1 >= len(t["args"]):
            return None
        ops.append(t["args"][p["l"] - 1])
    n = 0
    while "%s::{closure#%d}" % (B["path"], n) in taken:
        n += 1
    newpath = "%s::{closure#%d}" % (B["path"], n)
    taken.add(newpath)
    nb = copy.deepcopy(Cc)
    nb["path"] = newpath
    nb["parent"] = B["path"]
    nb["_was"] = Cc["path"]
    sp = _sp(t)
    blk = B["blocks"][k]
    blk["st"].append({"s": "assign", "pl": t["dest"], "rv": {"k": "agg", "ak": "coroutine", "def": newpath, "ops": ops}, "sp": sp})
    blk["term"] = {"t": "goto", "to": t["to"], "sp": sp}
    return nb


def inline_new_helpers(raws, is_new, only_into_new=False, prior=None):
    """raws: parsed fact files (modified in place). is_new(body dict, crate) -> bool. Returns {helper path: [caller paths]}."""
    by_path = {}
    crate_of = {}
    for d in raws:
        for b in d["bodies"]:
            if b["path"] not in by_path:
                by_path[b["path"]] = b
                crate_of[b["path"]] = d["crate"]
    new = {p: b for p, b in by_path.items() if b["kind"] in ("Fn", "AssocFn") and is_new(b, crate_of[p])}
    if not new:
        return {}, set(), {}
    pristine = {p: copy.deepcopy(b) for p, b in new.items()}
    for p in list(new):
        cp = p + "::{closure#0}"
        if by_path.get(p, {}).get("asyncness") and cp in by_path:
            pristine[cp] = copy.deepcopy(by_path[cp])
    done = {h: list(cs) for h, cs in (prior or {}).items() if h in new}
    added = []
    taken = set(by_path)
    reparent = {}
    for _ in range(MAX_ROUNDS):
        changed = False
        # the bodies to splice in are refreshed each round, so helpers of helpers arrive already expanded
        snap = {p: copy.deepcopy(by_path[p]) for p in pristine}
        for d in raws:
            for B in list(d["bodies"]):
                if B["kind"] not in ("Fn", "AssocFn", "Closure") or len(B["blocks"]) > MAX_BLOCKS:
                    continue
                if B.get("from_expansion"):
                    continue  # derive output: a call from there to a function of the crate is a `*_with` hook, not an extracted helper
                if only_into_new and not (B["path"] in new or any(B["path"].startswith(h + "::") for h in new)):
                    continue
                nb = len(B["blocks"])
                for k in range(nb):
                    t = B["blocks"][k]["term"]
                    if not t or t["t"] != "call" or B["blocks"][k].get("cleanup"):
                        continue
                    cp = _callee_path(t)
                    if cp not in new or cp == B["path"] or B["path"].startswith(cp + "::"):
                        continue
                    Cf = snap[cp]
                    if Cf.get("asyncness"):
                        Cc = snap.get(cp + "::{closure#0}")
                        if Cc is None:
                            continue
                        if not _inline_async(B, k, Cf, Cc):
                            nbody = _async_as_block(B, k, Cf, Cc, taken)
                            if nbody is None:
                                continue
                            added.append(nbody)
                            d["bodies"].append(nbody)
                            by_path[nbody["path"]] = nbody
                            reparent[Cc["path"]] = nbody["path"]
                    else:
                        if any((bl["term"] or {}).get("t") == "tailcall" for bl in Cf["blocks"]):
                            continue
                        _inline_sync(B, k, Cf)
                    B["_inlined"] = True
                    done.setdefault(cp, [])
                    if B["path"] not in done[cp]:
                        done[cp].append(B["path"])
                    changed = True
        if not changed:
            break
    # in the bodies that received a helper: a value built with a known variant on one path and matched on after a join
    # (`let res = match .. { .. Err(e) => Err(e) }; finish(res)` where finish matches on it) takes its own way to the arm
    for d in raws:
        for B in d["bodies"]:
            if not B.get("_inlined") or len(B["blocks"]) > MAX_BLOCKS:
                continue
            n0 = len(B["blocks"])
            for bi in range(n0):
                blk = B["blocks"][bi]
                t = blk["term"]
                if blk.get("cleanup") or not t or t["t"] not in ("goto", "drop") or t.get("to") is None:
                    continue
                last = None
                for st in blk["st"]:
                    if st.get("s") == "assign" and not st["pl"].get("p"):
                        last = st
                if last is None:
                    continue
                v = _known_variant({"st": [last]}, last["pl"]["l"])
                if v is not None:
                    _thread_from(B, bi, last["pl"]["l"], v)
    # a helper all of whose uses were expanded is fully represented by its callers
    still = set()

    def scan(x, in_f):
        if isinstance(x, dict):
            c = x.get("c")
            if isinstance(c, dict) and "fn" in c:
                for nm in (c.get("fn"), c.get("res")):
                    if nm in new:
                        still.add(nm)
            if x.get("k") == "agg" and x.get("def"):
                pass
            for v in x.values():
                if isinstance(v, (dict, list)):
                    scan(v, False)
        elif isinstance(x, list):
            for v in x:
                if isinstance(v, (dict, list)):
                    scan(v, False)

    for d in raws:
        for B in d["bodies"]:
            if B["path"] in new or any(B["path"].startswith(h + "::") for h in new):
                continue  # uses inside the helpers themselves do not keep them alive
            scan(B["blocks"], False)
    removable = {h for h in done if h not in still}
    return done, removable, reparent

"""Decision-table extraction for small pure functions.

The SwitchInt / comparison structure of a loop-free, (almost) call-free MIR body is evaluated over a finite abstract
domain: integer constants, enum variants with abstract payloads, and *symbolic* values that stand for "any value that
is none of the constants the function mentions" (a switch on a symbolic value takes the `otherwise` edge; a comparison
of a symbolic value with a constant is false). The result is an explicit table input -> output that rules compare with
the table a property states. No code of the analysed crates is run; this is constant folding over the IR.
"""
from .facts import op_place, op_const


import re

_LOGGING = re.compile(r"^<?tracing(_core)?::|^<?log::")


class Unsupported(Exception):
    pass


class Sym:
    def __init__(self, name):
        self.name = name

    def __repr__(self):
        return "sym(%s)" % self.name

    def __eq__(self, o):
        return isinstance(o, Sym) and o.name == self.name

    def __hash__(self):
        return hash(("sym", self.name))


class Enum:
    def __init__(self, adt, vidx, vname, fields=()):
        self.adt = adt
        self.vidx = vidx
        self.vname = vname
        self.fields = list(fields)

    def __repr__(self):
        return "%s(%s)" % (self.vname, ",".join(map(repr, self.fields))) if self.fields else self.vname

    def __eq__(self, o):
        return isinstance(o, Enum) and (o.vname, o.fields) == (self.vname, self.fields)

    def __hash__(self):
        return hash(("enum", self.vname, tuple(map(repr, self.fields))))


class Struct:
    def __init__(self, adt, fields, names=None):
        self.adt = adt
        self.fields = list(fields)
        self.names = names or []

    def __repr__(self):
        return "%s{%s}" % (self.adt.split("::")[-1], ",".join(map(repr, self.fields)))


class Ref:
    def __init__(self, cell):
        self.cell = cell  # a 1-element list holding the value

    def __repr__(self):
        return "&%r" % (self.cell[0],)


class ListVal:
    """a concrete slice / Vec value"""
    def __init__(self, items):
        self.items = list(items)

    def __repr__(self):
        return "list%r" % (self.items,)


class IterVal:
    def __init__(self, items, by_ref=True):
        self.items = list(items)
        self.i = 0
        self.by_ref = by_ref

    def __repr__(self):
        return "iter@%d%r" % (self.i, self.items)


class Closure:
    def __init__(self, path, captured):
        self.path = path
        self.captured = list(captured)

    def __repr__(self):
        return "closure(%s)" % self.path.split("::")[-1]


OPT = "std::option::Option"
RES = "std::result::Result"


def _some(v):
    return Enum(OPT, 1, "Some", [v])


def _none():
    return Enum(OPT, 0, "None", [])


def _ok(v):
    return Enum(RES, 0, "Ok", [v])


def _err(v):
    return Enum(RES, 1, "Err", [v])


_COMBINATOR = re.compile(r"^(?:std|core)::(option::Option|result::Result)::<.*>::(\w+)$")


def _bits_to_int(v, ty):
    n = int(v)
    widths = {"i8": 8, "i16": 16, "i32": 32, "i64": 64, "i128": 128, "isize": 64}
    if ty in widths:
        w = widths[ty]
        if n >= 1 << (w - 1):
            n -= 1 << w
    return n


class Interp:
    def __init__(self, F, call_handlers=None, max_steps=4000, max_depth=4, default_sym=False, opaque_calls=False):
        self.F = F
        self.default_sym = default_sym
        self.opaque_calls = opaque_calls
        self.handlers = call_handlers or []
        self.max_steps = max_steps
        self.max_depth = max_depth

    def run(self, body, args, depth=0):
        """args: list of values for params 1..argc. returns the value of _0."""
        env = {}
        for i, a in enumerate(args):
            env[i + 1] = [a]
        return self.run_from(body, 0, 0, env, depth)

    def run_from(self, body, bb, first_stmt, env, depth=0):
        """evaluate from statement `first_stmt` of block `bb` with a preset environment {local: [value]}"""
        steps = 0
        skip = first_stmt
        while True:
            steps += 1
            if steps > self.max_steps:
                raise Unsupported("step budget exceeded in %s" % body.path)
            blk = body.blocks[bb]
            sts = blk["st"][skip:]
            skip = 0
            for st in sts:
                if st["s"] == "assign":
                    val = self._rvalue(body, env, st["rv"])
                    self._store(body, env, st["pl"], val)
                elif st["s"] == "setdiscr":
                    raise Unsupported("setdiscr")
            t = blk["term"]
            k = t["t"]
            if k in ("goto", "falseedge", "falseunwind", "drop"):
                bb = t["to"]
            elif k == "assert":
                bb = t["to"]
            elif k == "return":
                return env.get(0, [None])[0]
            elif k == "switch":
                v = self._operand(body, env, t["discr"])
                dty = self._op_ty(body, t["discr"])
                if isinstance(v, bool):
                    v = int(v)
                target = t["otherwise"]
                if isinstance(v, int):
                    for sv, tb in t["arms"]:
                        if _bits_to_int(sv, dty) == v or int(sv) == v:
                            target = tb
                            break
                elif isinstance(v, Sym):
                    target = t["otherwise"]
                else:
                    raise Unsupported("switch on %r" % (v,))
                bb = target
            elif k == "call":
                val = self._call(body, env, t, depth)
                self._store(body, env, t["dest"], val)
                if t.get("to") is None:
                    raise Unsupported("diverging call")
                bb = t["to"]
            elif k == "unreachable":
                raise Unsupported("reached unreachable in %s" % body.path)
            else:
                raise Unsupported("terminator " + k)

    # ---- pieces --------------------------------------------------------------------------------
    def _op_ty(self, body, op):
        p = op_place(op)
        if p is not None and not p.get("p"):
            return body.locals[p["l"]]["ty"]
        c = op_const(op)
        if c:
            return c.get("ty")
        return None

    def _load(self, body, env, pl):
        cell = env.get(pl["l"])
        if cell is None:
            if not self.default_sym:
                raise Unsupported("read of unset local _%d in %s" % (pl["l"], body.path))
            cell = env[pl["l"]] = [Sym("_%d" % pl["l"])]
        v = cell[0]
        if isinstance(v, Sym) and pl.get("p") and self.default_sym:
            return Sym("%s.proj" % v.name)
        for e in pl.get("p", []):
            if e == "*":
                if isinstance(v, Ref):
                    v = v.cell[0]
                # Box/Arc deref of plain values: transparent
            elif isinstance(e, dict) and "d" in e:
                while isinstance(v, Ref):
                    v = v.cell[0]
                if not isinstance(v, Enum):
                    raise Unsupported("downcast of %r" % (v,))
            elif isinstance(e, dict) and "f" in e:
                while isinstance(v, Ref):
                    v = v.cell[0]
                if isinstance(v, (Enum, Struct)):
                    if e["f"] >= len(v.fields):
                        raise Unsupported("field %d of %r" % (e["f"], v))
                    v = v.fields[e["f"]]
                elif isinstance(v, tuple):
                    v = v[e["f"]]
                else:
                    raise Unsupported("field of %r" % (v,))
            else:
                raise Unsupported("projection %r" % (e,))
        return v

    def _store(self, body, env, pl, val):
        if not pl.get("p"):
            env[pl["l"]] = [val]
            return
        # field-wise initialisation is not needed for the table functions we analyse
        raise Unsupported("store to projected place")

    def _operand(self, body, env, op):
        c = op_const(op)
        if c is not None:
            if "int" in c:
                return int(c["int"])
            if "bool" in c:
                return bool(c["bool"])
            if "str" in c:
                return c["str"]
            if "char" in c:
                return int(c["int"]) if "int" in c else ord(c["char"])
            if "fn" in c:
                return ("fn", c["fn"])
            if c.get("zst"):
                return ()
            raise Unsupported("constant %r" % (c,))
        p = op_place(op)
        return self._load(body, env, p)

    def _rvalue(self, body, env, rv):
        k = rv["k"]
        if k == "use":
            return self._operand(body, env, rv["op"])
        if k in ("ref", "rawptr"):
            pl = rv["pl"]
            if not pl.get("p"):
                cell = env.get(pl["l"])
                if cell is None:
                    if not self.default_sym:
                        raise Unsupported("ref of unset local")
                    cell = env[pl["l"]] = [Sym("_%d" % pl["l"])]
                return Ref(cell)
            return Ref([self._load(body, env, pl)])
        if k == "cast":
            return self._operand(body, env, rv["op"])
        if k == "discr":
            v = self._load(body, env, rv["pl"])
            if isinstance(v, Enum):
                return v.vidx
            raise Unsupported("discriminant of %r" % (v,))
        if k == "agg":
            ops = [self._operand(body, env, o) for o in rv["ops"]]
            if rv["ak"] == "adt":
                adt = self.F.adts.get(rv["adt"])
                if adt is not None and adt["kind"] == "Enum" or rv["adt"].startswith("std::option::Option") or rv["adt"].startswith("std::result::Result"):
                    return Enum(rv["adt"], rv["vi"], rv["variant"], ops)
                return Struct(rv["adt"], ops, rv["fields"])
            if rv["ak"] == "tuple":
                return tuple(ops)
            if rv["ak"] == "closure":
                return Closure(rv["def"], ops)
            raise Unsupported("aggregate " + rv["ak"])
        if k == "bin":
            a = self._operand(body, env, rv["a"])
            b = self._operand(body, env, rv["b"])
            op = rv["op"]
            if isinstance(a, Sym) or isinstance(b, Sym):
                if op == "Eq":
                    return a == b
                if op == "Ne":
                    return not (a == b)
                raise Unsupported("ordering comparison on symbolic value")
            if isinstance(a, bool):
                a = int(a)
            if isinstance(b, bool):
                b = int(b)
            if not (isinstance(a, int) and isinstance(b, int)):
                if op == "Eq":
                    return a == b
                if op == "Ne":
                    return a != b
                raise Unsupported("binop on %r,%r" % (a, b))
            base = op.replace("WithOverflow", "").replace("Unchecked", "")
            res = {
                "Eq": lambda: a == b, "Ne": lambda: a != b, "Lt": lambda: a < b, "Le": lambda: a <= b, "Gt": lambda: a > b, "Ge": lambda: a >= b,
                "Add": lambda: a + b, "Sub": lambda: a - b, "Mul": lambda: a * b, "BitAnd": lambda: a & b, "BitOr": lambda: a | b,
            }.get(base)
            if res is None:
                raise Unsupported("binop " + op)
            r = res()
            if "WithOverflow" in op:
                return (r, False)
            return r
        if k == "un":
            a = self._operand(body, env, rv["a"])
            if rv["op"] == "Not":
                return (not a) if isinstance(a, bool) else ~a
            if rv["op"] == "Neg":
                return -a
            raise Unsupported("unop " + rv["op"])
        raise Unsupported("rvalue " + k)

    def _call(self, body, env, t, depth):
        f = op_const(t["f"])
        if f is None or "fn" not in f:
            raise Unsupported("indirect call")
        name = f.get("res", f["fn"])
        args = [self._operand(body, env, a) for a in t["args"]]
        for rx, h in self.handlers:
            if rx.search(name) or rx.search(f["fn"]):
                return h(self, name, args)
        # integer ranges: `(a..=b).contains(&x)` / `(a..b).contains(&x)` over concrete integers
        if re.search(r"RangeInclusive::<.*>::new$", name):
            return ("range", deref(args[0]), deref(args[1]), True)
        if re.search(r"Range(Inclusive)?::<.*>::contains$", name) or re.search(r"Range(Inclusive)?<.*>::contains$", name):
            r, x = deref(args[0]), deref(args[1])
            if isinstance(r, Struct) and len(r.fields) == 2:
                r = ("range", deref(r.fields[0]), deref(r.fields[1]), False)
            if isinstance(r, tuple) and r and r[0] == "range" and all(isinstance(v, int) for v in (r[1], r[2])):
                if isinstance(x, int):
                    return r[1] <= x <= r[2] if r[3] else r[1] <= x < r[2]
                if isinstance(x, Sym):
                    # "any value that is none of the constants the function mentions": outside every literal range
                    return False
            raise Unsupported("range test on %r / %r" % (r, x))
        # Option / Result combinators of the standard library: their meaning is fixed, so `match x { Some(v) => v, None => d }`
        # and `x.unwrap_or(d)` evaluate alike
        mb = re.match(r"^(?:std|core)::bool::<impl bool>::(then_some|then)$", name)
        if mb and args and isinstance(deref(args[0]), bool):
            if not deref(args[0]):
                return _none()
            return _some(args[1] if mb.group(1) == "then_some" else self._apply(args[1], [], depth))
        m = _COMBINATOR.match(name)
        if m:
            r = self._combinator(m.group(2), args, depth)
            if r is not NotImplemented:
                return r
        # concrete slices / Vecs: iter(), next(), any(), all()
        if args and isinstance(deref(args[0]), (ListVal, IterVal)):
            x = deref(args[0])
            if re.search(r"::iter$|IntoIterator>?::into_iter$|Deref>?::deref$|::as_slice$", name):
                if isinstance(x, IterVal) or re.search(r"deref$|as_slice$", name):
                    return x
                return IterVal(x.items, by_ref=True)
            if isinstance(x, IterVal):
                wrap = (lambda v: Ref([v])) if x.by_ref else (lambda v: v)
                if re.search(r"Iterator>?::next$", name):
                    if x.i < len(x.items):
                        x.i += 1
                        return _some(wrap(x.items[x.i - 1]))
                    return _none()
                if re.search(r"Iterator>?::(any|all)$", name):
                    is_any = name.endswith("any")
                    while x.i < len(x.items):
                        x.i += 1
                        r = self._apply(args[1], [wrap(x.items[x.i - 1])], depth)
                        if bool(r) == is_any:
                            return is_any
                    return not is_any
            if re.search(r"::(len)$", name):
                return len(x.items)
            if re.search(r"::is_empty$", name):
                return not x.items
        # the `?` operator on Option / Result
        if re.search(r"^<std::(option::Option|result::Result)<.*> as std::ops::Try>::branch$", name):
            x = deref(args[0])
            if isinstance(x, Enum) and x.vname in ("Some", "Ok"):
                return Enum("std::ops::ControlFlow", 0, "Continue", [x.fields[0]])
            if isinstance(x, Enum) and x.vname in ("None", "Err"):
                return Enum("std::ops::ControlFlow", 1, "Break", [x])
        if re.search(r"^<std::(option::Option|result::Result)<.*> as std::ops::FromResidual<.*>>::from_residual$", name):
            x = deref(args[0])
            if isinstance(x, Enum) and x.vname in ("None", "Err"):
                return x
        if re.search(r"^<(.*) as std::convert::From<\1>>::from$", name):
            return args[0]
        if re.search(r"ops::Fn(Once|Mut)?<.*>>::call(_once|_mut)?$", name) and len(args) == 2 and isinstance(args[1], tuple):
            return self._apply(args[0], list(args[1]), depth)
        # log statements are not part of a function's decision: the `tracing` macros guard their body with level /
        # callsite tests; evaluating those tests to "disabled" skips the body
        if _LOGGING.search(name) or _LOGGING.search(f["fn"]):
            return False
        target = self.F.bodies.get(name)
        if target is not None and depth < self.max_depth:
            return self.run(target, args, depth + 1)
        if self.opaque_calls:
            return Sym("call:" + name.split("::")[-1])
        raise Unsupported("call to %s" % name)


def _interp_apply(self, f, args, depth):
    f = deref(f)
    if isinstance(f, Closure):
        target = self.F.bodies.get(f.path)
        if target is None or depth >= self.max_depth + 2:
            raise Unsupported("closure body %s" % f.path)
        return self.run(target, [Struct("closure", f.captured)] + list(args), depth + 1)
    if isinstance(f, tuple) and len(f) == 2 and f[0] == "fn":
        path = f[1]
        mm = re.search(r"(option::Option|result::Result)::<.*>::(Some|Ok|Err)$", path)
        if mm:
            return {"Some": _some, "Ok": _ok, "Err": _err}[mm.group(2)](args[0])
        target = self.F.bodies.get(path)
        if target is not None and depth < self.max_depth + 2:
            return self.run(target, list(args), depth + 1)
    raise Unsupported("application of %r" % (f,))


def _interp_combinator(self, meth, args, depth):
    x = deref(args[0]) if args else None
    if not isinstance(x, Enum) or x.vname not in ("Some", "None", "Ok", "Err"):
        return NotImplemented
    has = x.vname in ("Some", "Ok")
    v = x.fields[0] if x.fields else None
    ap = lambda f, a: self._apply(f, a, depth)
    if meth == "unwrap_or":
        return v if has else args[1]
    if meth == "filter" and x.vname in ("Some", "None"):
        return x if has and bool(ap(args[1], [Ref([v])])) else _none()
    if meth in ("is_some_and", "is_ok_and"):
        return has and bool(ap(args[1], [v]))
    if meth == "is_none_or":
        return (not has) or bool(ap(args[1], [v]))
    if meth == "map_or":
        return ap(args[2], [v]) if has else args[1]
    if meth == "map_or_else":
        return ap(args[2], [v]) if has else ap(args[1], [] if x.vname == "None" else [x.fields[0]])
    if meth == "flatten" and x.vname in ("Some", "None"):
        return (v if isinstance(v, Enum) else _some(v)) if has else x
    if meth == "unwrap_or_else":
        return v if has else ap(args[1], [] if x.vname == "None" else [v])
    if meth in ("is_some", "is_ok"):
        return has
    if meth in ("is_none", "is_err"):
        return not has
    if meth == "map":
        return (_some if x.vname == "Some" else _ok)(ap(args[1], [v])) if has else x
    if meth == "map_err":
        return x if has else _err(ap(args[1], [v]))
    if meth == "and_then":
        return ap(args[1], [v]) if has else x
    if meth == "or_else":
        return x if has else ap(args[1], [] if x.vname == "None" else [v])
    if meth == "or":
        return x if has else args[1]
    if meth == "ok":
        return _some(v) if x.vname == "Ok" else _none()
    if meth == "err":
        return _some(v) if x.vname == "Err" else _none()
    if meth == "ok_or":
        return _ok(v) if has else _err(args[1])
    if meth == "ok_or_else":
        return _ok(v) if has else _err(ap(args[1], []))
    if meth == "map_or":
        return ap(args[2], [v]) if has else args[1]
    if meth == "map_or_else":
        return ap(args[2], [v]) if has else ap(args[1], [] if x.vname == "None" else [v])
    if meth in ("is_some_and", "is_ok_and"):
        return ap(args[1], [v]) if has else False
    if meth == "is_none_or":
        return ap(args[1], [v]) if has else True
    if meth in ("as_ref", "as_mut", "as_deref", "copied", "cloned"):
        return x
    return NotImplemented


Interp._apply = _interp_apply
Interp._combinator = _interp_combinator


def deref(v):
    while isinstance(v, Ref):
        v = v.cell[0]
    return v


def eq_handler(interp, name, args):
    a, b = deref(args[0]), deref(args[1])
    return a == b


def unit_variants(F, adt_path):
    adt = F.adts[adt_path]
    return [(i, v["n"], v["fields"]) for i, v in enumerate(adt["variants"])]

"""Run the mirfacts driver over /repo's *current working tree* and cache the fact files.

Facts are keyed by a SHA-256 over every source file of /repo (everything except target/ and .git/),
recomputed on every invocation, so a check always reflects the tree as it is now.
"""
import fcntl
import hashlib
import json
import os
import shutil
import subprocess
import sys
import time

VERIF = os.path.dirname(os.path.dirname(os.path.abspath(__file__)))
REPO = os.environ.get("JRSA_REPO", "/repo")
CACHE = os.path.join(VERIF, ".cache")
DRIVER = os.path.join(VERIF, "engine", "mirfacts", "target", "release", "mirfacts")

LIB_PKGS = [
    "jsonrpsee-types",
    "jsonrpsee-core",
    "jsonrpsee-server",
    "jsonrpsee-http-client",
    "jsonrpsee-ws-client",
    "jsonrpsee-client-transport",
    "jsonrpsee-proc-macros",
]
LIB_CRATES = [p.replace("-", "_") for p in LIB_PKGS]

# configurations: name -> (cargo args, expected crates)
CONFIGS = {
    "libs-all": (sum([["-p", p] for p in LIB_PKGS], []) + ["--all-features"], LIB_CRATES),
    # the library crates as unified by the facade crate's `full` feature (what a user of `jsonrpsee = { features = ["full"] }` compiles)
    "facade-full": (["-p", "jsonrpsee", "--features", "full"], LIB_CRATES),
}


def _prepare_corpus():
    """(re)generate the C17 corpus crate under .cache/corpus (path-depends on the current /repo)"""
    out = os.path.join(CACHE, "corpus")
    r = subprocess.run([sys.executable, os.path.join(VERIF, "corpus", "gen.py"), out, REPO], capture_output=True, text=True)
    if r.returncode != 0:
        raise FactsError("corpus generator failed: " + r.stdout + r.stderr)
    shutil.copyfile(os.path.join(REPO, "Cargo.lock"), os.path.join(out, "Cargo.lock"))
    return out


# configurations that are not plain `cargo check` runs in /repo: name -> (prepare fn returning cwd, cargo args, expected crates)
def _prepare_fixtures():
    out = os.path.join(CACHE, "fixtures")
    src = os.path.join(VERIF, "fixtures")
    os.makedirs(os.path.join(out, "src"), exist_ok=True)
    with open(os.path.join(src, "Cargo.toml")) as fh:
        toml = fh.read().replace("REPO/", REPO.rstrip("/") + "/")
    with open(os.path.join(out, "Cargo.toml"), "w") as fh:
        fh.write(toml)
    shutil.copyfile(os.path.join(src, "src", "lib.rs"), os.path.join(out, "src", "lib.rs"))
    shutil.copyfile(os.path.join(REPO, "Cargo.lock"), os.path.join(out, "Cargo.lock"))
    return out


SPECIAL = {
    "corpus": (_prepare_corpus, [], ["verif_corpus"]),
    "fixtures": (_prepare_fixtures, [], ["verif_fixtures"]),
}
CONFIGS["pmcore"] = (["-p", "jsonrpsee-proc-macro-core"], ["jsonrpsee_proc_macro_core"])
CONFIGS["repo-programs"] = (["-p", "jsonrpsee-integration-tests", "-p", "jsonrpsee-examples", "-p", "jsonrpsee-proc-macro-core", "--tests", "--examples", "--lib"], ["jsonrpsee_proc_macro_core"])


def tree_hash(repo=None):
    repo = repo or REPO
    h = hashlib.sha256()
    for root, dirs, files in os.walk(repo):
        dirs[:] = sorted(d for d in dirs if d not in (".git", "target", "node_modules"))
        for f in sorted(files):
            p = os.path.join(root, f)
            if os.path.islink(p) or not os.path.isfile(p):
                continue
            rel = os.path.relpath(p, repo)
            h.update(rel.encode())
            h.update(b"\0")
            try:
                with open(p, "rb") as fh:
                    h.update(hashlib.sha256(fh.read()).digest())
            except OSError:
                pass
    return h.hexdigest()[:24]


def sysroot_lib():
    out = subprocess.run(["rustc", "+nightly", "--print", "sysroot"], capture_output=True, text=True, check=True)
    return os.path.join(out.stdout.strip(), "lib")


def build_driver():
    if os.path.exists(DRIVER):
        src_m = max(
            os.path.getmtime(os.path.join(VERIF, "engine", "mirfacts", "src", "main.rs")),
            os.path.getmtime(os.path.join(VERIF, "engine", "mirfacts", "Cargo.toml")),
        )
        if os.path.getmtime(DRIVER) >= src_m:
            return
    env = dict(os.environ, CARGO_NET_OFFLINE="true")
    r = subprocess.run(
        ["cargo", "+nightly", "build", "--release", "--offline"],
        cwd=os.path.join(VERIF, "engine", "mirfacts"),
        env=env,
        capture_output=True,
        text=True,
    )
    if r.returncode != 0:
        sys.stderr.write(r.stdout + r.stderr)
        raise SystemExit("mirfacts driver failed to build")


class FactsError(Exception):
    pass


def _clear_member_fingerprints(target_dir):
    fp = os.path.join(target_dir, "debug", ".fingerprint")
    if os.path.isdir(fp):
        for d in os.listdir(fp):
            if d.startswith("jsonrpsee") or d.startswith("verif-") or d.startswith("verif_"):
                shutil.rmtree(os.path.join(fp, d), ignore_errors=True)


def run_driver(out_dir, cargo_args, cwd=None, target_dir=None, extra_env=None, subcmd="check"):
    """One `cargo +nightly check` with the driver as workspace wrapper. Returns (rc, output)."""
    build_driver()
    target_dir = target_dir or os.path.join(CACHE, "target")
    os.makedirs(target_dir, exist_ok=True)
    os.makedirs(out_dir, exist_ok=True)
    _clear_member_fingerprints(target_dir)
    env = dict(os.environ)
    env.update(
        {
            "LD_LIBRARY_PATH": sysroot_lib() + ":" + env.get("LD_LIBRARY_PATH", ""),
            "RUSTFLAGS": "-Awarnings",
            "RUSTC_WORKSPACE_WRAPPER": DRIVER,
            "CARGO_TARGET_DIR": target_dir,
            "CARGO_NET_OFFLINE": "true",
            "MIRFACTS_OUT": out_dir,
            # incremental compilation would satisfy borrowck from its cache and never build MIR
            "CARGO_INCREMENTAL": "0",
        }
    )
    # never let an outer cfg leak in
    env.pop("RUSTC_WRAPPER", None)
    if extra_env:
        env.update(extra_env)
    cmd = ["cargo", "+nightly", subcmd, "--offline"] + cargo_args
    r = subprocess.run(cmd, cwd=cwd or REPO, env=env, capture_output=True, text=True)
    return r.returncode, r.stdout + r.stderr


def ensure_facts(config="libs-all", verbose=False):
    """Returns (dir with fact files, tree hash). Raises FactsError (fail closed) if extraction fails."""
    os.makedirs(CACHE, exist_ok=True)
    th = tree_hash()
    if config in SPECIAL:
        extra = os.path.join(VERIF, "corpus", "gen.py") if config == "corpus" else os.path.join(VERIF, "fixtures", "src", "lib.rs")
        with open(extra, "rb") as fh:
            th = hashlib.sha256((th + hashlib.sha256(fh.read()).hexdigest()).encode()).hexdigest()[:24]
    out_dir = os.path.join(CACHE, "facts", th, config)
    stamp = os.path.join(out_dir, "OK")
    lock_path = os.path.join(CACHE, "lock")
    with open(lock_path, "w") as lk:
        fcntl.flock(lk, fcntl.LOCK_EX)
        try:
            if os.path.exists(stamp):
                # a tree that is being analysed is not the one to evict (several checks may run side by side)
                try:
                    os.utime(os.path.join(CACHE, "facts", th), None)
                except OSError:
                    pass
                return out_dir, th
            if os.path.isdir(out_dir):
                shutil.rmtree(out_dir)
            t0 = time.time()
            if config in SPECIAL:
                prep, cargo_args, expected = SPECIAL[config]
                cwd = prep()
                rc, out = run_driver(out_dir, cargo_args, cwd=cwd)
            else:
                cargo_args, expected = CONFIGS[config]
                rc, out = run_driver(out_dir, cargo_args)
            if rc != 0:
                raise FactsError("cargo check with the mirfacts driver failed for config %s:\n%s" % (config, out[-6000:]))
            files = [f for f in os.listdir(out_dir) if f.endswith(".json")]
            got = set()
            for f in files:
                got.add(f.split(".")[0])
            for f in files:
                with open(os.path.join(out_dir, f)) as fh:
                    head = fh.read(400)
                import re as _re

                m1 = _re.search(r'"body_owners":(\d+)', head)
                if not m1:
                    raise FactsError("fact file %s has no body_owners header" % f)
                with open(os.path.join(out_dir, f)) as fh:
                    txt = fh.read()
                m2 = _re.search(r'"bodies_dumped":(\d+)', txt)
                if not m2 or int(m2.group(1)) < int(m1.group(1)):
                    raise FactsError(
                        "driver dumped %s bodies of %s body owners for %s (MIR not built: stale incremental cache?)"
                        % (m2.group(1) if m2 else "?", m1.group(1), f)
                    )
            missing = [c for c in expected if c not in got]
            if missing:
                raise FactsError("driver produced no fact file for crates %s (config %s)" % (missing, config))
            with open(stamp, "w") as fh:
                json.dump({"wall_s": time.time() - t0, "files": sorted(files)}, fh)
            if verbose:
                sys.stderr.write("facts[%s] extracted in %.1fs\n" % (config, time.time() - t0))
            _gc_old(th)
            return out_dir, th
        finally:
            fcntl.flock(lk, fcntl.LOCK_UN)


def _gc_old(keep):
    root = os.path.join(CACHE, "facts")
    try:
        ents = [(os.path.getmtime(os.path.join(root, d)), d) for d in os.listdir(root) if d != keep]
    except OSError:
        return
    ents.sort(reverse=True)
    for _, d in ents[16:]:
        shutil.rmtree(os.path.join(root, d), ignore_errors=True)

"""Collects rule instances / obligations / violations, matches known findings, writes evidence."""
import json
import os
import re
import time

VERIF = os.path.dirname(os.path.dirname(os.path.abspath(__file__)))
KNOWN_FILE = os.path.join(VERIF, "known_findings.txt")


def load_known():
    known = {}
    fixed = []
    if os.path.exists(KNOWN_FILE):
        for line in open(KNOWN_FILE):
            line = line.strip()
            if not line or line.startswith("#"):
                continue
            m = re.match(r"known:\s+property=(\S+)\s+key=(\S+)\s+(.*)$", line)
            if m:
                known[(m.group(1), m.group(2))] = m.group(3)
                continue
            m = re.match(r"fixed:\s+property=(\S+)\s+(\S+)\s+(.*)$", line)
            if m:
                fixed.append((m.group(1), m.group(2), m.group(3)))
    return known, fixed


class Report:
    def __init__(self, pid, tier, seed=0):
        self.pid = pid
        self.tier = tier
        self.seed = seed
        self.t0 = time.time()
        self.instances = []  # dicts
        self.violations = []  # dicts
        self.floors = {}
        self.notes = []
        self.configs = []
        self.functions = set()
        self.paths_enumerated = 0
        self.extra = {}
        self.uncovered = []
        self.config = None

    # --- recording ------------------------------------------------------------------------------
    def set_config(self, name):
        self.config = name
        if name not in self.configs:
            self.configs.append(name)

    def fn(self, body):
        if body is not None:
            self.functions.add(body.path)

    def ok(self, rule, key, what, where=None, detail=None, nontrivial=True):
        self.instances.append(
            {"rule": rule, "key": key, "what": what, "where": where, "detail": detail, "ok": True, "nontrivial": nontrivial, "config": self.config}
        )

    def bad(self, rule, key, what, where=None, detail=None):
        """an obligation that does not hold. key identifies the construct without line numbers."""
        v = {"rule": rule, "key": "%s:%s" % (rule, key), "what": what, "where": where, "detail": detail, "config": self.config}
        self.instances.append({"rule": rule, "key": key, "what": what, "where": where, "detail": detail, "ok": False, "nontrivial": True, "config": self.config})
        # the same construct seen in several configurations is one violation
        if not any(x["key"] == v["key"] for x in self.violations):
            self.violations.append(v)

    def check(self, cond, rule, key, what_ok, what_bad=None, where=None, detail=None):
        if cond:
            self.ok(rule, key, what_ok, where, detail)
        else:
            self.bad(rule, key, what_bad or ("NOT: " + what_ok), where, detail)
        return cond

    def anchor_lost(self, rule, what):
        self.bad(rule, "ANCHOR-LOST:" + re.sub(r"\s+", "_", what)[:120], "ANCHOR-LOST " + what + " (the rule could not find the construct it reasons about; the property is not shown to hold)")

    def floor(self, rule, count, minimum, what):
        self.floors[rule] = {"count": count, "floor": minimum, "what": what}
        if count < minimum:
            self.bad(rule, "FLOOR", "rule %s matched %d %s, fewer than the %d confirmed by hand on the pinned tree (a rule that matches nothing passes vacuously)" % (rule, count, what, minimum))

    def note(self, s):
        self.notes.append(s)

    # --- finishing ------------------------------------------------------------------------------
    def finish(self, level, explanation, rule_text, trusted_base, assumptions, checker_cmd, extra_cov=None):
        known, fixed = load_known()
        out_lines = []
        unknown = []
        matched = []
        for v in self.violations:
            k = (self.pid, v["key"])
            if k in known:
                matched.append(v)
                out_lines.append("KNOWN-FINDING: property=%s %s [%s]" % (self.pid, known[k], v["key"]))
            else:
                unknown.append(v)
        # developer tools that run the checks on a deliberately broken tree redirect the evidence elsewhere
        ev_dir = os.environ.get("JRSA_EVIDENCE_DIR") or os.path.join(VERIF, "evidence")
        os.makedirs(ev_dir, exist_ok=True)
        rp_dir = os.path.join(ev_dir, "replay")
        os.makedirs(rp_dir, exist_ok=True)
        for v in unknown:
            safe = re.sub(r"[^A-Za-z0-9_.-]+", "_", v["key"])[:150]
            rp = os.path.join(rp_dir, "%s-%s.json" % (self.pid, safe))
            with open(rp, "w") as fh:
                json.dump({"property": self.pid, **v}, fh, indent=1, default=str)
            out_lines.append("%s  %s  %s" % (v.get("where") or "-", v["rule"], v["what"]))
            out_lines.append("VIOLATION property=%s replay=%s" % (self.pid, rp))
        oks = [i for i in self.instances if i["ok"]]
        distinct = set()
        for i in self.instances:
            if i["nontrivial"]:
                distinct.add((i["rule"], i["key"]))
        samples = []
        seen_rules = {}
        for i in self.instances:
            n = seen_rules.get(i["rule"], 0)
            if n < 3:
                seen_rules[i["rule"]] = n + 1
                samples.append({k: i[k] for k in ("rule", "key", "what", "where", "detail", "ok", "config") if i.get(k) is not None})
        obligations = len({(i["rule"], i["key"]) for i in self.instances})
        discharged = len({(i["rule"], i["key"]) for i in oks} - {(i["rule"], i["key"]) for i in self.instances if not i["ok"]})
        cov = {
            "explanation": explanation,
            "evaluations": len(self.instances),
            "distinct_nontrivial": len(distinct),
            "rule": rule_text,
            "samples": samples[:60],
            "obligations": obligations,
            "discharged": discharged,
            "checker_cmd": checker_cmd,
            "trusted_base": trusted_base,
            "functions_analysed": len(self.functions),
            "paths_enumerated": self.paths_enumerated,
            "configs": self.configs,
            "floors": self.floors,
            "rules": sorted({i["rule"] for i in self.instances}),
            "per_rule": {r: {"instances": sum(1 for i in self.instances if i["rule"] == r), "failed": sum(1 for i in self.instances if i["rule"] == r and not i["ok"])} for r in sorted({i["rule"] for i in self.instances})},
            "known_findings_matched": [v["key"] for v in matched],
            "uncovered": self.uncovered,
            "notes": self.notes,
            "exhaustive": False,
        }
        if extra_cov:
            cov.update(extra_cov)
        cov.update(self.extra)
        ev = {
            "property_id": self.pid,
            "tier": self.tier,
            "seed": self.seed,
            "level": level,
            "coverage": cov,
            "assumptions": assumptions,
            "wall_s": round(time.time() - self.t0, 2),
            "violations": len(unknown),
        }
        with open(os.path.join(ev_dir, "%s.json" % self.pid), "w") as fh:
            json.dump(ev, fh, indent=1, default=str)
        return out_lines, (1 if unknown else 0)

"""Origin tracing (field-sensitive, inter-procedural def-use) and path helpers over mirfacts bodies."""
import re
from collections import namedtuple

from .facts import op_place, op_const, place_str, op_str, is_test_body

Leaf = namedtuple("Leaf", "kind detail where chain")
# kinds: const | param | field | call | agg | arith | discr | len | resume | unknown | closure


def leaf_str(lf):
    k = lf.kind
    d = lf.detail
    if k == "const":
        for key in ("int", "str", "bool", "char"):
            if key in d:
                return "const %r (%s)%s" % (d[key], d.get("ty"), (" = " + d["name"]) if "name" in d else "")
        return "const <%s>%s" % (d.get("ty"), (" = " + d["name"]) if "name" in d else "")
    if k == "field":
        return "field " + ".".join("%s" % n for (_o, n) in d["fields"]) + " of " + (d["fields"][0][0] or "?")
    if k == "param":
        return "param #%d %s of %s" % (d["idx"], d.get("name"), d["fn"])
    if k == "call":
        return "result of %s" % d["callee"]
    if k == "agg":
        return "aggregate %s::%s" % (d.get("adt"), d.get("variant"))
    if k == "arith":
        return "arithmetic %s" % d["op"]
    return "%s %s" % (k, d)


# ---- transparency table -------------------------------------------------------------------------
# callee regex -> index of the argument the result "is" (identity-like step). One reason per line.
TRANSPARENT = [
    (r"^std::clone::Clone::clone$|as std::clone::Clone>::clone$", 0),  # a clone is the same value
    (r"^std::borrow::ToOwned::to_owned$|as std::borrow::ToOwned>::to_owned$", 0),  # owned copy of the same value
    (r"^std::ops::Deref::deref$|as std::ops::Deref>::deref$|^std::ops::DerefMut::deref_mut$|as std::ops::DerefMut>::deref_mut$", 0),  # smart-pointer deref
    (r"^std::convert::AsRef::as_ref$|as std::convert::AsRef<.*>>::as_ref$", 0),
    (r"^std::convert::AsMut::as_mut$", 0),
    (r"^std::borrow::Borrow::borrow$|^std::borrow::BorrowMut::borrow_mut$", 0),
    (r"^std::convert::Into::into$|as std::convert::Into<.*>>::into$", 0),  # value conversion keeps the value's identity
    (r"^std::convert::From::from$|as std::convert::From<.*>>::from$", 0),
    (r"^std::convert::TryInto::try_into$|^std::convert::TryFrom::try_from$", 0),
    (r"^std::sync::Arc::<.*>::new$|^std::boxed::Box::<.*>::new$|^std::rc::Rc::<.*>::new$", 0),  # wrapping
    (r"^std::pin::Pin::<.*>::new$|^std::pin::Pin::<.*>::new_unchecked$|^std::pin::Pin::<.*>::as_mut$|^std::pin::Pin::<.*>::get_mut$", 0),
    (r"^std::future::IntoFuture::into_future$|as std::future::IntoFuture>::into_future$", 0),  # `.await` plumbing
    (r"^std::future::Future::poll$|as std::future::Future>::poll$|^futures_util::Future::poll$", 0),  # awaited value = output of the future
    (r"^std::ops::Try::branch$|as std::ops::Try>::branch$", 0),  # `?` keeps the Ok/Some payload
    (r"^std::option::Option::<.*>::(unwrap|expect|unwrap_or|unwrap_or_default|unwrap_unchecked|as_ref|as_mut|as_deref|take|cloned|copied|ok_or|ok_or_else)$", 0),
    (r"^std::result::Result::<.*>::(unwrap|expect|unwrap_or|unwrap_or_default|ok|as_ref|as_mut|map_err)$", 0),  # map_err keeps the Ok payload
    (r"^std::borrow::Cow::<.*>::(into_owned|to_mut)$", 0),
    (r"^jsonrpsee_types::Id::<'.*>::into_owned$|^jsonrpsee_types::params::Id::<'.*>::into_owned$", 0),  # owned copy of the same id
    (r"^jsonrpsee_types::params::SubscriptionId::<'.*>::into_owned$|^jsonrpsee_types::SubscriptionId::<'.*>::into_owned$", 0),
    (r"^jsonrpsee_types::Params::<'.*>::into_owned$|^jsonrpsee_types::params::Params::<'.*>::into_owned$", 0),
    (r"^std::mem::take$|^std::mem::replace$", 0),
    (r"^std::string::String::as_str$|^std::string::ToString::to_string$|as std::string::ToString>::to_string$", 0),
    (r"^std::iter::IntoIterator::into_iter$|as std::iter::IntoIterator>::into_iter$", 0),
    (r"^std::iter::Iterator::next$|as std::iter::Iterator>::next$", 0),  # an element of the iterated collection
    (r"^std::vec::Vec::<.*>::(iter|iter_mut|as_slice|drain)$|^core::slice::<impl \[T\]>::(iter|iter_mut)$", 0),
    (r"^std::sync::RwLock::<.*>::(read|write)$|^std::sync::Mutex::<.*>::lock$", 0),
]
_TRANSPARENT_RX = [(re.compile(p), i) for p, i in TRANSPARENT]

# wrapper variants that `?`, `.await`, unwrap etc. peel off: a Downcast to one of these + field 0 is
# consumed by the transparent call that produced it.
_PEEL = {"Continue", "Ready", "Some", "Ok", "Break", "Err"}


def transparent_arg(name, extra=None):
    if name is None:
        return None
    if extra:
        for rx, i in extra:
            if rx.search(name):
                return i
    for rx, i in _TRANSPARENT_RX:
        if rx.search(name):
            return i
    return None


def _proj_key(e):
    if e == "*":
        return ("*",)
    if isinstance(e, dict):
        if "f" in e:
            return ("f", e["f"], e.get("n"), e.get("o"))
        if "d" in e:
            return ("d", e["d"])
        if "i" in e or "ci" in e or "ss" in e:
            return ("idx",)
    if isinstance(e, tuple):
        return e
    return ("?",)


def proj_keys(pl):
    return tuple(_proj_key(e) for e in pl.get("p", []))


def _strip_derefs(sfx):
    return tuple(e for e in sfx if e[0] != "*")


class Tracer:
    def __init__(self, F, max_depth=5, follow_callers=True, follow_fields=True, inline_calls=True, extra_transparent=None, stop_at_call=None):
        self.F = F
        self.max_depth = max_depth
        self.follow_callers = follow_callers
        self.follow_fields = follow_fields
        self.inline_calls = inline_calls
        self.extra = [(re.compile(p), i) for p, i in (extra_transparent or [])]
        self.stop_at_call = re.compile(stop_at_call) if stop_at_call else None
        self._callers = None
        self._ctor_index = None
        self._field_writes = None

    # ---- public ----------------------------------------------------------------------------
    def origins(self, body, x, suffix=()):
        """x: operand or place. Returns list of Leaf (deduplicated by kind+detail-key)."""
        self._out = []
        self._seen = set()
        if "l" in x:
            self._place(body, x, tuple(suffix), (), 0, ())
        else:
            self._operand(body, x, tuple(suffix), (), 0, ())
        # dedupe
        res = []
        keys = set()
        for lf in self._out:
            k = (lf.kind, _detail_key(lf))
            if k not in keys:
                keys.add(k)
                res.append(lf)
        return res

    # ---- internals -------------------------------------------------------------------------
    def _emit(self, kind, detail, body, chain):
        self._out.append(Leaf(kind, detail, body.path, chain))

    def _operand(self, body, op, sfx, ctx, depth, chain):
        c = op_const(op)
        if c is not None:
            if "fn" in c:
                self._emit("fnitem", {"fn": c["fn"]}, body, chain)
            else:
                self._emit("const", c, body, chain)
            return
        pl = op_place(op)
        if pl is None:
            self._emit("unknown", {"what": "operand", "op": str(op)[:80]}, body, chain)
            return
        self._place(body, pl, sfx, ctx, depth, chain)

    def _place(self, body, pl, sfx, ctx, depth, chain):
        self._local(body, pl["l"], proj_keys(pl) + tuple(sfx), ctx, depth, chain)

    def _local(self, body, l, sfx, ctx, depth, chain):
        key = (body.path, l, sfx, ctx)
        if key in self._seen:
            return
        self._seen.add(key)
        if len(self._seen) > 20000:
            self._emit("unknown", {"what": "trace budget exceeded"}, body, chain)
            return
        chain = chain + ("%s:%s%s" % (_short(body.path), place_str({"l": l}, body), _sfx_str(sfx)),)
        defs = body.defs.get(l, [])
        is_param = 1 <= l <= body.argc
        if is_param:
            self._param(body, l, sfx, ctx, depth, chain)
        # a parameter can also be re-assigned; handle defs too
        matched = False
        for bi, si, dpl, src in defs:
            dproj = proj_keys(dpl)
            rest = _match_prefix(dproj, sfx)
            if rest is None:
                continue
            matched = True
            kind, v = src
            if kind == "rv":
                self._rvalue(body, v, rest, ctx, depth, chain, (bi, si))
            elif kind == "call":
                self._call(body, bi, v, rest, ctx, depth, chain)
            elif kind == "yield":
                self._emit("resume", {}, body, chain)
        if not matched and not is_param:
            if l == 0:
                self._emit("unknown", {"what": "return place"}, body, chain)
            else:
                self._emit("unknown", {"what": "no definition of %s%s" % (place_str({"l": l}, body), _sfx_str(sfx))}, body, chain)

    def _rvalue(self, body, rv, sfx, ctx, depth, chain, at):
        k = rv["k"]
        if k == "use":
            self._operand(body, rv["op"], sfx, ctx, depth, chain)
        elif k == "ref" or k == "rawptr":
            # &place : transparent; a leading deref in the suffix cancels the borrow
            if sfx and sfx[0][0] == "*":
                sfx = sfx[1:]
            self._place(body, rv["pl"], sfx, ctx, depth, chain)
        elif k == "cast":
            self._operand(body, rv["op"], sfx, ctx, depth, chain + ("cast",))
        elif k == "agg":
            ak = rv["ak"]
            s = _strip_leading_derefs(sfx)
            if ak == "adt":
                # optional downcast then field
                i = 0
                if s and s[0][0] == "d":
                    if s[0][1] != rv["variant"] and not str(s[0][1]).isdigit():
                        return  # a different variant was built here: cannot be the source
                    i = 1
                if len(s) > i and s[i][0] == "f":
                    fidx = s[i][1]
                    fname = s[i][2]
                    # field operands are listed in declaration order (or a single active union field)
                    if fname in rv["fields"]:
                        fidx = rv["fields"].index(fname)
                    if fidx < len(rv["ops"]):
                        self._operand(body, rv["ops"][fidx], s[i + 1 :], ctx, depth, chain)
                    return
                self._emit("agg", {"adt": rv["adt"], "variant": rv["variant"], "ops": rv["ops"], "fields": rv["fields"], "at": at}, body, chain)
            elif ak in ("tuple", "closure", "coroutine", "coroutine_closure"):
                if s and s[0][0] == "f":
                    fidx = s[0][1]
                    if fidx < len(rv["ops"]):
                        self._operand(body, rv["ops"][fidx], s[1:], ctx, depth, chain)
                    return
                if ak == "tuple":
                    self._emit("agg", {"adt": "tuple", "variant": "", "ops": rv["ops"], "fields": [], "at": at}, body, chain)
                else:
                    self._emit("closure", {"def": rv["def"], "ops": rv["ops"], "at": at}, body, chain)
            elif ak == "array":
                rest = s[1:] if s and s[0][0] == "idx" else s
                for o in rv["ops"]:
                    self._operand(body, o, rest, ctx, depth, chain)
            else:
                self._emit("unknown", {"what": "aggregate " + ak}, body, chain)
        elif k == "bin":
            self._emit("arith", {"op": rv["op"], "a": rv["a"], "b": rv["b"], "at": at}, body, chain)
        elif k == "un":
            if rv["op"] in ("Not", "Neg"):
                self._emit("arith", {"op": rv["op"], "a": rv["a"], "b": None, "at": at}, body, chain)
            elif "PtrMetadata" in rv["op"]:
                self._emit("len", {"of": rv["a"], "at": at}, body, chain)
            else:
                self._emit("unknown", {"what": "unop " + rv["op"]}, body, chain)
        elif k == "discr":
            self._emit("discr", {"pl": rv["pl"], "at": at}, body, chain)
        elif k == "repeat":
            self._operand(body, rv["op"], sfx[1:] if sfx and sfx[0][0] == "idx" else sfx, ctx, depth, chain)
        else:
            self._emit("unknown", {"what": "rvalue " + k}, body, chain)

    def _call(self, body, bi, term, sfx, ctx, depth, chain):
        f = op_const(term["f"])
        name = None
        callee = None
        if f is not None and "fn" in f:
            callee = f["fn"]
            name = f.get("res", callee)
        if self.stop_at_call is not None and (name and self.stop_at_call.search(name) or callee and self.stop_at_call.search(callee)):
            self._emit("call", {"callee": name, "declared": callee, "bb": bi, "args": term["args"], "line": term["sp"][0], "file": body.file}, body, chain)
            return
        ti = transparent_arg(name, self.extra)
        if ti is None and callee != name:
            ti = transparent_arg(callee, self.extra)
        if ti is not None and ti < len(term["args"]):
            s = sfx
            # peel (Downcast wrapper, field 0) consumed by unwrap-like calls
            s2 = _strip_leading_derefs(s)
            if len(s2) >= 2 and s2[0][0] == "d" and s2[0][1] in _PEEL and s2[1][0] == "f" and s2[1][1] == 0:
                s = s2[2:]
            self._operand(body, term["args"][ti], s, ctx, depth, chain + ("via " + _short(name),))
            return
        # closure / fn-pointer invocation of a local closure: inline the closure body
        if name and self.inline_calls and depth < self.max_depth:
            target = self.F.bodies.get(name)
            if target is not None and target.kind in ("Fn", "AssocFn", "Closure") and _is_getter_like(target):
                self._inline_return(target, body, bi, term, sfx, ctx, depth, chain)
                return
        self._emit("call", {"callee": name, "declared": callee, "bb": bi, "args": term["args"], "line": term["sp"][0], "file": body.file}, body, chain)

    def _inline_return(self, target, body, bi, term, sfx, ctx, depth, chain):
        nctx = ctx + ((body.path, bi),)
        self._local(target, 0, sfx, nctx, depth + 1, chain + ("into " + _short(target.path),))

    def _param(self, body, l, sfx, ctx, depth, chain):
        F = self.F
        # closure / coroutine environment
        if l == 1 and body.kind == "Closure":
            s = _strip_leading_derefs(sfx)
            if s and s[0][0] == "f":
                parent = F.parent_body(body)
                if parent is not None:
                    found = False
                    for bi, b in enumerate(parent.blocks):
                        for si, st in enumerate(b["st"]):
                            if st["s"] == "assign" and st["rv"]["k"] == "agg" and st["rv"].get("def") == body.path:
                                ops = st["rv"]["ops"]
                                if s[0][1] < len(ops):
                                    found = True
                                    # a by-ref capture is `&x`; derefs in the rest are harmless
                                    self._operand(parent, ops[s[0][1]], s[1:], ctx, depth, chain + ("captured",))
                    if found:
                        return
                self._emit("unknown", {"what": "upvar %s of %s: construction not found" % (s[0][2], body.path)}, body, chain)
                return
            self._emit("param", {"fn": body.path, "idx": l, "name": "<env>", "sfx": sfx}, body, chain)
            return
        # returning from an inlined call
        if ctx:
            (cpath, cbi) = ctx[-1]
            caller = F.bodies[cpath]
            term = caller.blocks[cbi]["term"]
            args = term["args"]
            if l - 1 < len(args):
                self._operand(caller, args[l - 1], sfx, ctx[:-1], depth, chain + ("arg %d at %s" % (l - 1, _short(cpath)),))
            else:
                self._emit("unknown", {"what": "arity mismatch at inlined call"}, body, chain)
            return
        s = _strip_derefs(sfx)
        fields = [(e[3], e[2]) for e in s if e[0] == "f"]
        name = body.local_name(l)
        if fields and fields[0][0] and (fields[0][0] in getattr(F, "new_adts", ()) or fields[0][0].rsplit("::", 1)[0] in getattr(F, "new_adts", ())) and depth < self.max_depth + 2:
            # a field of a struct the pinned tree does not have: a value parked in a new parameter bundle; go to its writes
            self._follow_field(fields, s, depth, chain)
            return
        if fields:
            det = {"fn": body.path, "idx": l, "name": name, "fields": fields, "base_ty": body.local_ty(l)}
            self._emit("field", det, body, chain)
            if self.follow_fields and depth < self.max_depth:
                self._follow_field(fields, s, depth, chain)
            return
        self._emit("param", {"fn": body.path, "idx": l, "name": name, "ty": body.local_ty(l)}, body, chain)
        if self.follow_callers and depth < self.max_depth and body.kind in ("Fn", "AssocFn"):
            for call in self.callers_of(body.path):
                if l - 1 < len(call.args):
                    self._operand(call.body, call.args[l - 1], sfx, (), depth + 1, chain + ("caller " + _short(call.body.path),))

    def _follow_field(self, fields, s, depth, chain):
        """continue at every write of the first field in the chain (struct constructions and assignments)."""
        # locate the first field elem
        for i, e in enumerate(s):
            if e[0] == "f":
                first = e
                rest = s[i + 1 :]
                break
        else:
            return
        owner, fname = first[3], first[2]
        if not owner or owner == "upvar":
            return
        for (wb, op) in self.field_writes(owner, fname):
            self._operand(wb, op, rest, (), depth + 1, chain + ("write of %s.%s in %s" % (_short(owner), fname, _short(wb.path)),))

    # ---- indices -----------------------------------------------------------------------------
    def callers_of(self, path):
        if self._callers is None:
            idx = {}
            for b in self.F.real_bodies():
                if is_test_body(b):
                    continue
                for c in b.calls:
                    for n in {c.callee, c.resolved}:
                        if n:
                            idx.setdefault(n, []).append(c)
            self._callers = idx
        return self._callers.get(path, [])

    def field_writes(self, owner, fname):
        if self._field_writes is None:
            idx = {}
            for b in self.F.real_bodies():
                if is_test_body(b):
                    continue
                for bi, blk in enumerate(b.blocks):
                    if blk.get("cleanup"):
                        continue
                    for st in blk["st"]:
                        if st["s"] != "assign":
                            continue
                        rv = st["rv"]
                        if rv["k"] == "agg" and rv["ak"] == "adt":
                            o = rv["adt"]
                            adt = self.F.adts.get(o)
                            is_enum = adt is not None and adt["kind"] == "Enum"
                            oname = o + ("::" + rv["variant"] if is_enum else "")
                            for fi, fn_ in enumerate(rv["fields"]):
                                if fi < len(rv["ops"]):
                                    idx.setdefault((oname, fn_), []).append((b, rv["ops"][fi]))
                        # direct field assignment  x.f = v
                        p = st["pl"].get("p", [])
                        if p and isinstance(p[-1], dict) and "f" in p[-1] and p[-1].get("o") not in (None, "", "upvar"):
                            if rv["k"] == "use":
                                idx.setdefault((p[-1]["o"], p[-1]["n"]), []).append((b, rv["op"]))
                            else:
                                # route through a synthetic operand: the assigned local itself is not available; trace rvalue by wrapping
                                idx.setdefault((p[-1]["o"], p[-1]["n"]), []).append((b, {"rvwrap": rv}))
            self._field_writes = idx
        res = self._field_writes.get((owner, fname), [])
        out = []
        for b, op in res:
            if "rvwrap" in op:
                continue
            out.append((b, op))
        return out


def _is_getter_like(body):
    """small, call-free-ish functions whose return value is worth tracing through (getters, field readers)."""
    n = sum(1 for b in body.blocks if not b.get("cleanup"))
    if n > 6 or len(body.calls) > 1:
        return False
    # an `async fn` wrapper only builds its coroutine: the call itself is the meaningful leaf
    for b in body.blocks:
        for st in b["st"]:
            if st["s"] == "assign" and st["rv"]["k"] == "agg" and st["rv"]["ak"] in ("coroutine", "coroutine_closure"):
                return False
    return True


def _detail_key(lf):
    d = lf.detail
    k = lf.kind
    if k == "const":
        return (d.get("ty"), d.get("int"), d.get("str"), d.get("bool"), d.get("name"))
    if k == "field":
        return (tuple(d["fields"]), d["fn"])
    if k == "param":
        return (d["fn"], d["idx"])
    if k == "call":
        return (d["callee"], lf.where, d["bb"])
    if k == "agg":
        return (d.get("adt"), d.get("variant"), lf.where, d.get("at"))
    if k in ("arith", "discr", "len", "closure"):
        return (lf.where, d.get("at"))
    return (lf.where, str(d))


def _match_prefix(dproj, sfx):
    """The definition writes place local.dproj; we want local.sfx. Returns the remaining suffix to apply to the
    written value, or None if this definition cannot supply the wanted part."""
    if not dproj:
        return sfx
    a = _strip_derefs(dproj)
    b = _strip_derefs(sfx)
    n = len(a)
    if len(b) >= n:
        for x, y in zip(a, b[:n]):
            if x[0] != y[0]:
                return None
            if x[0] == "f" and x[1] != y[1]:
                return None
            if x[0] == "d" and x[1] != y[1]:
                return None
        return b[n:]
    # we want a bigger part than this def writes (whole struct, def writes one field): partial contributor
    for x, y in zip(a, b):
        if x[0] != y[0] or (x[0] == "f" and x[1] != y[1]):
            return None
    return ()


def _strip_leading_derefs(sfx):
    i = 0
    while i < len(sfx) and sfx[i][0] == "*":
        i += 1
    return sfx[i:]


def _short(p):
    if p is None:
        return "?"
    p = re.sub(r"<[^<>]*>", "", p)
    p = re.sub(r"<[^<>]*>", "", p)
    parts = p.split("::")
    return "::".join(parts[-3:]) if len(parts) > 3 else p


def _sfx_str(sfx):
    s = ""
    for e in sfx:
        if e[0] == "*":
            s += ".*"
        elif e[0] == "f":
            s += "." + str(e[2])
        elif e[0] == "d":
            s += " as " + str(e[1])
        else:
            s += "[]"
    return s


# -------------------------------------------------------------------------------------------------
# CFG / path helpers


def switch_on(body, local, tracer_depth=6):
    """All `switch` terminators whose discriminant comes from `local` (its enum discriminant, or its bool value),
    following moves/copies/refs. Returns list of (bb, {value(str): target}, otherwise)."""
    res = []
    for bi, b in enumerate(body.blocks):
        t = b["term"]
        if not t or t["t"] != "switch" or bi not in body.reachable:
            continue
        if _discr_of(body, t["discr"], local, tracer_depth):
            arms = {v: tb for v, tb in t["arms"]}
            # two-valued discriminants (bool, Option, Result, ControlFlow, Poll): rustc spells the same match as
            # `[0 => A, 1 => B] else unreachable`, `[0 => A] else B` or `[1 => B] else A` depending on the source form
            # (match / if let / let-else). Normalise to both arms being present so rules do not depend on the spelling.
            if len(arms) == 1 and _two_valued(body, local):
                only = next(iter(arms))
                other = {"0": "1", "1": "0"}.get(only)
                ob = t["otherwise"]
                if other is not None and ob is not None and (body.blocks[ob]["term"] or {}).get("t") != "unreachable":
                    arms[other] = ob
            res.append((bi, arms, t["otherwise"]))
    return res


def _two_valued(body, local):
    ty = body.locals[local]["ty"].lstrip("&").replace("mut ", "")
    return ty == "bool" or ty.startswith(("std::option::Option<", "std::result::Result<", "std::ops::ControlFlow<", "std::task::Poll<"))


def _local_copies_back(body, l, depth=6):
    """set of locals that `l` is a plain copy/move/ref/unwrap-free alias of (backwards), including l."""
    seen = {l}
    work = [l]
    while work and depth > 0:
        depth -= 1
        nxt = []
        for x in work:
            for bi, si, dpl, src in body.defs.get(x, []):
                if dpl.get("p"):
                    continue
                kind, v = src
                if kind == "rv":
                    if v["k"] == "use":
                        p = op_place(v["op"])
                        if p is not None and not _has_field(p) and p["l"] not in seen:
                            seen.add(p["l"])
                            nxt.append(p["l"])
                    elif v["k"] == "ref":
                        p = v["pl"]
                        if not _has_field(p) and p["l"] not in seen:
                            seen.add(p["l"])
                            nxt.append(p["l"])
                    elif v["k"] == "cast":
                        p = op_place(v["op"])
                        if p is not None and not _has_field(p) and p["l"] not in seen:
                            seen.add(p["l"])
                            nxt.append(p["l"])
        work = nxt
    return seen


def _has_field(pl):
    return any(isinstance(e, dict) and ("f" in e) for e in pl.get("p", []))


def _discr_of(body, op, local, depth):
    p = op_place(op)
    if p is None:
        return False
    # direct bool switch on the local (or a copy)
    al = _local_copies_back(body, p["l"], depth)
    if local in al:
        return True
    for x in al:
        for bi, si, dpl, src in body.defs.get(x, []):
            kind, v = src
            if kind == "rv" and v["k"] == "discr":
                q = v["pl"]
                if _has_field(q):
                    continue
                if local in _local_copies_back(body, q["l"], depth):
                    return True
            if kind == "rv" and v["k"] == "un" and v["op"] == "Not":
                q = op_place(v["a"])
                if q is not None and local in _local_copies_back(body, q["l"], depth):
                    return True
    return False


def branch_targets(body, call, variant_values):
    """For a call whose result is matched on: returns {name: set(target blocks)} for named discriminant values,
    e.g. variant_values={'None':'0','Some':'1'}. Follows `?` (Try::branch) one step."""
    out = {k: set() for k in variant_values}
    if call.dest is None:
        return out
    sw = switch_on(body, call.dest["l"])
    for bi, arms, otherwise in sw:
        vals = set(variant_values.values())
        for name, v in variant_values.items():
            if v in arms:
                out[name].add(arms[v])
            else:
                # falls in otherwise iff every other listed value has an explicit arm or there are only 2 variants
                out[name].add(otherwise)
    return out


def const_case_edges(body, consts):
    """Edges of the CFG that are taken exactly when some scrutinee equals one of the integer constants `consts`:
    `switch x [K => T, ..]` arms, and the true/false arm of a bool switch on `x == K` / `x != K`. Independent of the source
    spelling (match arm, `if x == K`, `matches!`). Returns {K: [(src_bb, dst_bb)]}."""
    want = {str(k) for k in consts}
    out = {str(k): [] for k in consts}
    for bi, blk in enumerate(body.blocks):
        t = blk["term"]
        if not t or t["t"] != "switch" or bi not in body.reachable or blk.get("cleanup"):
            continue
        p = op_place(t["discr"])
        cmp_ = None
        if p is not None and not p.get("p"):
            for l in _local_copies_back(body, p["l"], 4):
                for bj, sj, dpl, src in body.defs.get(l, []):
                    kind, v = src
                    if kind == "rv" and v["k"] == "bin" and v["op"] in ("Eq", "Ne"):
                        for side in ("a", "b"):
                            c = op_const(v[side])
                            if c is not None and "int" in c and str(c["int"]) in want:
                                cmp_ = (v["op"], str(c["int"]))
        if cmp_ is not None:
            arms = {v: tb for v, tb in t["arms"]}
            false_t = arms.get("0")
            true_t = arms.get("1", t["otherwise"]) if "0" in arms or "1" in arms else None
            if false_t is None and "1" in arms:
                false_t = t["otherwise"]
            tgt = true_t if cmp_[0] == "Eq" else false_t
            if tgt is not None:
                out[cmp_[1]].append((bi, tgt))
            continue
        if p is not None and not p.get("p") and body.locals[p["l"]]["ty"] == "bool":
            continue
        others = {tb for v, tb in t["arms"] if v not in want} | {t["otherwise"]}
        for v, tb in t["arms"]:
            if v in want and tb not in others:
                out[v].append((bi, tb))
    return out


def reach_without_edges(body, start, removed):
    """blocks reachable from `start` when the CFG edges in `removed` (set of (src, dst)) are not taken"""
    removed = set(removed)
    seen = {start}
    work = [start]
    while work:
        n = work.pop()
        for s in body.succ[n]:
            if (n, s) in removed or s in seen or body.blocks[s].get("cleanup"):
                continue
            seen.add(s)
            work.append(s)
    return seen


def all_paths_pass(body, src_bb, through, targets=None):
    """True iff every real path from the *end* of src_bb to any block in `targets` (default: function exits)
    passes through a block in `through`."""
    targets = set(targets if targets is not None else body.exits)
    reach = body.reach_from(src_bb, avoid=set(through))
    return not (reach & targets)


def path_counts(body, start, weight, stop=None):
    """(min, max) total weight over acyclic real paths from block `start` to exits (or `stop` blocks).
    weight: dict bb -> int. Back edges (wrt DFS from start) are cut."""
    stop = set(stop or [])
    color = {}
    memo = {}

    def go(n):
        if n in memo:
            return memo[n]
        color[n] = 1
        w = weight.get(n, 0)
        succs = [] if n in stop else [s for s in body.succ[n] if color.get(s) != 1]
        # note: color==1 means on current DFS stack => back edge, cut
        best = None
        term = body.blocks[n]["term"]
        is_exit = (not body.succ[n]) or n in stop
        if is_exit:
            if n in stop:
                best = (w, w)
            elif not stop and term and term["t"] in ("return", "tailcall", "coroutine_drop"):
                best = (w, w)
            else:
                best = None  # unreachable/diverging, or (with `stop` given) an exit that is not a stop block: not counted
        else:
            lo = None
            hi = None
            for s in succs:
                r = go(s)
                if r is None:
                    continue
                lo = r[0] if lo is None else min(lo, r[0])
                hi = r[1] if hi is None else max(hi, r[1])
            if lo is not None:
                best = (w + lo, w + hi)
        color[n] = 2
        memo[n] = best
        return best

    import sys

    old = sys.getrecursionlimit()
    sys.setrecursionlimit(max(old, 10000))
    try:
        return go(start)
    finally:
        sys.setrecursionlimit(old)


def await_ready_block(body, call):
    """For `let r = call(..).await`: the block reached when the awaited future is Ready (None if the call is not awaited).
    Follows: call dest -> into_future -> (moves) -> &mut -> Pin::new_unchecked -> Future::poll -> switch Ready arm."""
    if call.dest is None:
        return None
    cur = {call.dest["l"]}
    # forward closure over moves / refs / transparent await plumbing
    changed = True
    polls = []
    guard = 0
    while changed and guard < 12:
        changed = False
        guard += 1
        for bi, blk in enumerate(body.blocks):
            if blk.get("cleanup"):
                continue
            for st in blk["st"]:
                if st["s"] != "assign" or st["pl"].get("p"):
                    continue
                rv = st["rv"]
                src = None
                if rv["k"] == "use":
                    src = op_place(rv["op"])
                elif rv["k"] == "ref":
                    src = rv["pl"]
                if src is not None and not _has_field(src) and src["l"] in cur and st["pl"]["l"] not in cur:
                    cur.add(st["pl"]["l"])
                    changed = True
            t = blk["term"]
            if t and t["t"] == "call":
                f = op_const(t["f"])
                nm = (f or {}).get("fn", "") if f else ""
                if f and re.search(r"IntoFuture::into_future$|Pin::<.*>::new_unchecked$|Pin::<.*>::new$|Future::poll$", nm):
                    a0 = op_place(t["args"][0]) if t["args"] else None
                    if a0 is not None and not _has_field(a0) and a0["l"] in cur:
                        if nm.endswith("Future::poll"):
                            if bi not in polls:
                                polls.append(bi)
                        elif t["dest"]["l"] not in cur:
                            cur.add(t["dest"]["l"])
                            changed = True
    for pb in polls:
        t = body.blocks[pb]["term"]
        sws = switch_on(body, t["dest"]["l"])
        for bi, arms, otherwise in sws:
            if "0" in arms:
                return arms["0"]
            return otherwise
    return None

"""C15 — wire types: code tables, serializer shape, reader/writer field tables, duplicate guards."""
import re

from .common import control, fkey, where, short, controlling_comparisons, arg_is_local, block_line, forward_taint, CORE, SERVER, TYPES
from ..facts import is_test_body
from ..facts import op_place, op_const, AnchorLost
from .. import flow
from ..interp import Interp, Enum, Sym, Unsupported, unit_variants

PID = "C15"
LEVEL = "other"
EXPLANATION = (
    "Static analysis of the types crate's hand-written serde code. Decided: R1 the decision tables extracted from "
    'ErrorCode::code (variant -> constant) and From<i32> for ErrorCode (constant -> variant) are mutual inverses on '
    'every unit variant, ServerError(c).code() = c and from(c) for any other c is ServerError(c); '
    'Serialize/Deserialize for ErrorCode go through these two functions; R2 in Serialize for Response every path to '
    'SerializeStruct::end serialises `id` exactly once, exactly one of `result`/`error`, and `jsonrpc` at most once '
    'and only on the Some arm; R3 the member names recognised by the response field visitor equal the names the '
    'serializer emits ({jsonrpc,result,error,id}); R4 each of the four member slots in visit_map is assigned only '
    'under a failed is_some() test (duplicate members rejected); R5 the final acceptance decision of visit_map, '
    'extracted as a table over (jsonrpc, result, error) in {absent,present}^3 with id present, accepts exactly the '
    'rows with exactly one of result/error and carries that member, and a missing id is rejected before it; R6 no '
    'string assembled with format! is ever taken as wire JSON (RawValue::from_string, parse into RawValue, connection '
    'sink) in types/core/server. R7 no &str/&[u8] deserialisation target in types/core (explicit calls and derive- '
    'generated member reads; fixture control); R8 into_owned of Response/ErrorObject is field-wise identity. NOT '
    'decided: value round trips of ids/payloads (serde_json, untagged enums).'
)
RULE_TEXT = "instances = table rows, serializer paths, field-name sets, guarded assignments; non-trivial = a table row or a path count"
TRUSTED = ["rustc MIR", "serde's SerializeStruct / MapAccess contracts"]
ASSUMPTIONS = ["serde_json emits what SerializeStruct is told to emit"]

EC = "jsonrpsee_types::error::ErrorCode"


def r1_code_tables(ctx):
    F, R = ctx.F, ctx.R
    code = F.one(r"^jsonrpsee_types::error::ErrorCode::code$")
    frm = F.one(r"^<jsonrpsee_types::error::ErrorCode as std::convert::From<i32>>::from$")
    R.fn(code)
    R.fn(frm)
    it = Interp(F)
    variants = unit_variants(F, EC)
    table = {}
    for vidx, vname, fields in variants:
        payload = [Sym("c")] if fields else []
        try:
            out = it.run(code, [flow_ref(Enum(EC, vidx, vname, payload))])
        except Unsupported as e:
            raise AnchorLost("ErrorCode::code is not a plain decision table any more (%s)" % e)
        table[vname] = out
    consts = {v for v in table.values() if isinstance(v, int)}
    # every unit variant maps to a distinct constant
    units = [vn for _, vn, f in variants if not f]
    R.check(len({table[v] for v in units}) == len(units), "C15.R1", "code:injective", "code() is injective on the %d unit variants" % len(units), "two error kinds share one code: %s" % {v: table[v] for v in units}, "%s:%d" % (code.file, code.lo))
    for vidx, vname, fields in variants:
        if fields:
            R.check(table[vname] == Sym("c"), "C15.R1", "code:%s" % vname, "%s(c).code() = c" % vname, "%s(c).code() is %r, not c" % (vname, table[vname]), "%s:%d" % (code.file, code.lo))
            continue
        c = table[vname]
        try:
            back = it.run(frm, [c])
        except Unsupported as e:
            raise AnchorLost("From<i32> for ErrorCode is not a plain decision table any more (%s)" % e)
        ok = isinstance(back, Enum) and back.vname == vname
        R.check(ok, "C15.R1", "roundtrip:%s" % vname, "%s -> %s -> %s" % (vname, c, back), "error kind %s maps to code %s, which maps back to %r: the kind does not survive a round trip" % (vname, c, back), "%s:%d" % (frm.file, frm.lo), {"code": c, "back": repr(back)})
    # any other integer -> ServerError(that integer)
    try:
        other = it.run(frm, [Sym("c")])
    except Unsupported as e:
        raise AnchorLost("From<i32> table (%s)" % e)
    ok = isinstance(other, Enum) and other.fields == [Sym("c")] and table.get(other.vname) == Sym("c")
    R.check(ok, "C15.R1", "from:other", "from(c) = %r for c outside the table, and its code() is c" % (other,), "from(c) for an unlisted integer is %r; code(from(c)) != c" % (other,), "%s:%d" % (frm.file, frm.lo))
    # the constants From<i32> switches on are exactly the constants code() produces
    sw = set()

    def _i32(v):
        n = int(v)
        return n - (1 << 32) if n >= 1 << 31 else n
    for b in frm.blocks:
        if b.get("cleanup"):
            continue
        t = b["term"]
        if t and t["t"] == "switch":
            p_ = op_place(t["discr"])
            # the branch of an `if code == K` is a bool switch: K is collected from the comparison below
            if not (p_ is not None and not p_.get("p") and frm.locals[p_["l"]]["ty"] == "bool"):
                for v, _ in t["arms"]:
                    sw.add(_i32(v))
        for st in b["st"]:
            if st["s"] == "assign" and st["rv"]["k"] == "bin" and st["rv"]["op"] in ("Eq", "Ne"):
                for side in ("a", "b"):
                    k = op_const(st["rv"][side])
                    if k is not None and "int" in k:
                        sw.add(_i32(k["int"]))
    R.check(sw == consts, "C15.R1", "tables-agree", "From<i32> lists exactly the %d codes code() produces" % len(consts), "From<i32> lists %s but code() produces %s" % (sorted(sw - consts) or "-", sorted(consts - sw) or "-"), "%s:%d" % (frm.file, frm.lo))
    R.floor("C15.R1", len(units), 7, "unit variants of ErrorCode")
    # serde impls go through the two tables
    ser = F.one(r"^<jsonrpsee_types::error::ErrorCode as .*Serialize>::serialize$")
    de = F.one(r"^<jsonrpsee_types::error::ErrorCode as .*Deserialize<'a>>::deserialize$")
    R.check(bool(ser.calls_to(r"ErrorCode::code$")), "C15.R1", "serialize-uses-code", "Serialize for ErrorCode emits code()", "Serialize for ErrorCode does not go through code()", "%s:%d" % (ser.file, ser.lo))
    import json as _json
    via_fn_item = bool(re.search(r'"fn": "(<jsonrpsee_types::error::ErrorCode as std::convert::From<i32>>::from|std::convert::From::from)"', _json.dumps([blk for x in F.nested(de) for blk in x.blocks])))
    R.check(bool(de.calls_to(r"ErrorCode as std::convert::From<i32>>::from$|^std::convert::From::from$")) or via_fn_item, "C15.R1", "deserialize-uses-from", "Deserialize for ErrorCode goes through From<i32>", "Deserialize for ErrorCode does not go through From<i32>", "%s:%d" % (de.file, de.lo))


def flow_ref(v):
    from ..interp import Ref

    return Ref([v])


def _ser_fields(body):
    out = []
    for c in body.calls_to(r"SerializeStruct::serialize_field$|SerializeMap::serialize_entry$"):
        k = op_const(c.args[1]) if len(c.args) > 1 else None
        out.append((c, k.get("str") if k else None))
    return out


def r2_serializer(ctx):
    F, R = ctx.F, ctx.R
    ser = F.one(r"^<jsonrpsee_types::response::Response<'_, T> as .*Serialize>::serialize$")
    R.fn(ser)
    fields = _ser_fields(ser)
    R.floor("C15.R2", len(fields), 4, "serialize_field sites in Serialize for Response")
    names = [n for _, n in fields]
    if None in names:
        R.bad("C15.R2", "ser:dynamic-key", "a member name in Serialize for Response is not a string literal", "%s:%d" % (ser.file, ser.lo))
    ends = ser.calls_to(r"SerializeStruct::end$")
    if not ends:
        raise AnchorLost("SerializeStruct::end in Serialize for Response")
    stop = {e.bb for e in ends}
    for group, lo, hi, label in ((("id",), 1, 1, "id"), (("result", "error"), 1, 1, "result|error"), (("jsonrpc",), 0, 1, "jsonrpc")):
        w = {}
        for c, n in fields:
            if n in group:
                w[c.bb] = w.get(c.bb, 0) + 1
        pc = flow.path_counts(ser, 0, w, stop=stop)
        ctx.R.paths_enumerated += 1
        ok = pc is not None and pc[0] >= lo and pc[1] <= hi
        R.check(ok, "C15.R2", "ser:count:%s" % label, "every path to end() serialises %s between %d and %d times (measured %s)" % (label, lo, hi, pc), "paths to end() serialise `%s` %s times, expected [%d,%d]" % (label, pc, lo, hi), "%s:%d" % (ser.file, ser.lo))
    others = sorted(set(n for n in names if n not in ("id", "result", "error", "jsonrpc")))
    R.check(not others, "C15.R2", "ser:no-extra-members", "no member other than jsonrpc/id/result/error is emitted", "Serialize for Response emits extra members %s" % others, "%s:%d" % (ser.file, ser.lo))
    # jsonrpc only on the Some arm of self.jsonrpc
    for c, n in fields:
        if n != "jsonrpc":
            continue
        dom_ok = False
        trl = ctx.tracer(follow_callers=False, follow_fields=False)
        for sb, blk in enumerate(ser.blocks):
            t = blk["term"]
            if t and t["t"] == "switch":
                p = op_place(t["discr"])
                if p is None:
                    continue
                for bi, si, dpl, src in ser.defs.get(p["l"], []):
                    if src[0] == "rv" and src[1]["k"] == "discr":
                        lv = trl.origins(ser, src[1]["pl"])
                        if any(l.kind == "field" and l.detail["fields"][-1][1] == "jsonrpc" for l in lv):
                            arms = {v: tb for v, tb in t["arms"]}
                            some_t = arms.get("1")
                            if some_t is not None and ser.dominates(some_t, c.bb):
                                dom_ok = True
        R.check(dom_ok, "C15.R2", "ser:jsonrpc-iff-some", "`jsonrpc` is emitted on the Some arm of self.jsonrpc", "`jsonrpc` is not emitted under a test of self.jsonrpc", where(c))
    # the payload arm decides result vs error
    for c, n in fields:
        if n in ("result", "error"):
            want_variant = {"result": "Success", "error": "Error"}[n]
            lv = ctx.tracer(follow_callers=False, follow_fields=False).origins(ser, c.args[2])
            # operand is a borrow of (self.payload as Variant).0
            ok = any(want_variant in " ".join(l.chain) for l in lv)
            R.check(ok, "C15.R2", "ser:%s-from-%s" % (n, want_variant), "`%s` carries the %s payload" % (n, want_variant), "`%s` does not carry the payload's %s variant" % (n, want_variant), where(c))


def r3_field_tables(ctx):
    F, R = ctx.F, ctx.R
    vs = F.one(r"response::Response<'de, T> as .*Deserialize<'de>>::deserialize::Field as .*FieldVisitor as .*>::visit_str$")
    R.fn(vs)
    rec = {}
    for c in vs.calls_to(r"PartialEq.*::eq$"):
        for a in c.args:
            k = op_const(a)
            if k and "str" in k:
                # which Field variant does the true branch build?
                sws = flow.switch_on(vs, c.dest["l"])
                variant = None
                for sb, arms, other in sws:
                    tt = other if "0" in arms else arms.get("1")
                    seen = set()
                    work = [tt]
                    while work and variant is None:
                        b = work.pop()
                        if b in seen:
                            continue
                        seen.add(b)
                        for st in vs.blocks[b]["st"]:
                            if st["s"] == "assign" and st["rv"]["k"] == "agg" and st["rv"].get("adt", "").endswith("::Field"):
                                variant = st["rv"]["variant"]
                        if variant is None and len(vs.succ[b]) == 1:
                            work.append(vs.succ[b][0])
                rec[k["str"]] = variant
    ser = F.one(r"^<jsonrpsee_types::response::Response<'_, T> as .*Serialize>::serialize$")
    emitted = {n for _, n in _ser_fields(ser)}
    R.check(set(rec) == emitted, "C15.R3", "reader-writer-names", "visitor recognises %s = names the serializer emits" % sorted(rec), "reader recognises %s but writer emits %s" % (sorted(rec), sorted(emitted)), "%s:%d" % (vs.file, vs.lo))
    exp = {"jsonrpc": "Jsonrpc", "result": "Result", "error": "Error", "id": "Id"}
    R.check(rec == exp, "C15.R3", "reader-name-to-slot", "member names map to their own slots %s" % rec, "member name -> slot table is %s, expected %s" % (rec, exp), "%s:%d" % (vs.file, vs.lo))


def _slots(F, vm):
    """{member name: Option slot local} in Response::visit_map, derived structurally: the slot of member M is the
    Option-typed local initialised to None that is assigned Some(..) in the arm of the `match key` for the Field variant
    that visit_str returns for the string M (local names are not used)."""
    fadt = None
    for path, adt in F.adts.items():
        if re.search(r"response::.*deserialize::Field$", path) and adt["kind"] == "Enum":
            fadt = adt
    if fadt is None:
        raise AnchorLost("enum Field of Response's Deserialize impl")
    vnames = [v["n"] for v in fadt["variants"]]
    # the switch on the discriminant of a Field-typed local
    arms = None
    for bi, blk in enumerate(vm.blocks):
        t = blk["term"]
        if not t or t["t"] != "switch" or bi not in vm.reachable:
            continue
        p = op_place(t["discr"])
        if p is None:
            continue
        for b2, s2, d2, src in vm.defs.get(p["l"], []):
            if src[0] == "rv" and src[1]["k"] == "discr" and vm.locals[src[1]["pl"]["l"]]["ty"].endswith("deserialize::Field"):
                arms = {vnames[int(v)]: tb for v, tb in t["arms"] if int(v) < len(vnames)}
                rest = [n for n in vnames if n not in arms]
                if len(rest) == 1:
                    arms[rest[0]] = t["otherwise"]
                head = bi
    if arms is None:
        raise AnchorLost("`match key` over Field in Response::visit_map")
    cands = {}
    for l, defs in vm.defs.items():
        if not vm.local_ty(l).startswith("std::option::Option<"):
            continue
        if not any(d[3][0] == "rv" and d[3][1]["k"] == "agg" and d[3][1].get("variant") == "None" and not d[2].get("p") for d in defs):
            continue
        somes = []
        for bi, si, dpl, src in defs:
            if dpl.get("p"):
                continue
            if src[0] == "rv" and src[1]["k"] == "agg" and src[1].get("variant") == "Some":
                somes.append(bi)
            if src[0] == "rv" and src[1]["k"] == "use":
                q = op_place(src[1]["op"])
                if q is not None and any(s2[0] == "rv" and s2[1]["k"] == "agg" and s2[1].get("variant") == "Some" for _, _, _, s2 in vm.defs.get(q["l"], [])):
                    somes.append(bi)
        if somes:
            cands[l] = somes
    slots = {}
    for vn, tb in arms.items():
        for l, somes in cands.items():
            if all(vm.dominates(tb, sb) for sb in somes) and tb != head:
                slots.setdefault(vn.lower(), []).append(l)
    return {k: v[0] for k, v in slots.items() if len(v) == 1}


def r4_duplicate_guards(ctx):
    F, R = ctx.F, ctx.R
    vm = F.one(r"response::Response<'de, T> as .*Deserialize<'de>>::deserialize::Visitor<T> as .*>::visit_map$")
    R.fn(vm)
    n = 0
    slots = _slots(F, vm)
    for name in ("jsonrpc", "result", "error", "id"):
        slot = slots.get(name)
        if slot is None:
            R.anchor_lost("C15.R4", "Option slot `%s` in Response::visit_map" % name)
            continue
        assigns = []
        for bi, si, dpl, src in vm.defs.get(slot, []):
            if dpl.get("p"):
                continue
            if src[0] == "rv" and src[1]["k"] == "use":
                p = op_place(src[1]["op"])
                if p is not None:
                    for b2, s2, d2, src2 in vm.defs.get(p["l"], []):
                        if src2[0] == "rv" and src2[1]["k"] == "agg" and src2[1].get("variant") == "Some":
                            assigns.append(bi)
            if src[0] == "rv" and src[1]["k"] == "agg" and src[1].get("variant") == "Some":
                assigns.append(bi)
        if not assigns:
            R.anchor_lost("C15.R4", "assignment `%s = Some(..)` in Response::visit_map" % name)
            continue
        checks = [c for c in vm.calls_to(r"Option::<.*>::is_some$") if arg_is_local(vm, c.args[0], slot)]
        for ab in assigns:
            n += 1
            ok = False
            for c in checks:
                for sb, arms, other in flow.switch_on(vm, c.dest["l"]):
                    ft = arms.get("0")
                    if ft is not None and vm.dominates(ft, ab):
                        ok = True
            R.check(ok, "C15.R4", "dup-guard:%s" % name, "`%s` is assigned only after is_some() was false" % name, "member `%s` is stored without a duplicate check: a second `%s` member silently overwrites the first" % (name, name), "%s:%d" % (vm.file, block_line(vm, ab)))
    R.floor("C15.R4", n, 4, "guarded member assignments in visit_map")


def r5_acceptance_table(ctx):
    """final decision of Response::visit_map over (jsonrpc, result, error) present/absent, id present"""
    F, R = ctx.F, ctx.R
    vm = F.one(r"response::Response<'de, T> as .*Deserialize<'de>>::deserialize::Visitor<T> as .*>::visit_map$")
    names = ("jsonrpc", "result", "error")
    slots = _slots(F, vm)
    start = None
    for bi, blk in enumerate(vm.blocks):
        for si, st in enumerate(blk["st"]):
            if st["s"] == "assign" and st["rv"]["k"] == "agg" and st["rv"]["ak"] == "tuple" and len(st["rv"]["ops"]) in (2, 3):
                ps = [op_place(o) for o in st["rv"]["ops"]]
                if all(p_ is not None for p_ in ps):
                    got = [flow._local_copies_back(vm, p_["l"], 6) for p_ in ps]
                    # the decision is taken on (jsonrpc, result, error) or, where jsonrpc plays no part in it, on (result, error)
                    want_names = names if len(ps) == 3 else names[1:]
                    if all(slots.get(n) in g for n, g in zip(want_names, got)):
                        start = (bi, si, [None] * (3 - len(ps)) + [p_["l"] for p_ in ps])
    if start is None:
        raise AnchorLost("the (jsonrpc, result, error) decision in Response::visit_map")
    OPT = "std::option::Option"
    handlers = [
        (re.compile(r"de::Error::(duplicate_field|missing_field|custom)$|::duplicate_field$|::missing_field$"), lambda it, n, a: Sym("err:" + n.split("::")[-1])),
        (re.compile(r"Extensions::new$"), lambda it, n, a: Sym("ext")),
    ]
    it = Interp(F, call_handlers=handlers)
    id_locals = [slots["id"]] if "id" in slots else []
    n = 0
    for j in (False, True):
        for r in (False, True):
            for e in (False, True):
                n += 1
                env = {}
                vals = [Enum(OPT, 1, "Some", [Sym("two")]) if j else Enum(OPT, 0, "None", []),
                        Enum(OPT, 1, "Some", [Sym("res")]) if r else Enum(OPT, 0, "None", []),
                        Enum(OPT, 1, "Some", [Sym("err")]) if e else Enum(OPT, 0, "None", [])]
                for l, v in zip(start[2], vals):
                    if l is not None:
                        env[l] = [v]
                for nm, v in zip(names, vals):
                    if nm in slots:
                        env.setdefault(slots[nm], [v])
                for l in id_locals:
                    env.setdefault(l, [Sym("id")])
                # values computed before the decision (the unwrapped id) are opaque
                for l, defs in vm.defs.items():
                    if l not in env and defs and all(d[0] != start[0] and vm.dominates(d[0], start[0]) for d in defs):
                        env[l] = [Sym("pre%d" % l)]
                try:
                    got = it.run_from(vm, start[0], start[1], env)
                except Unsupported as ex:
                    raise AnchorLost("Response::visit_map's final decision is not a plain table any more (%s)" % ex)
                accepted = isinstance(got, Enum) and got.vname == "Ok"
                want = (r != e)
                R.check(accepted == want, "C15.R5", "accept:jsonrpc=%d,result=%d,error=%d" % (j, r, e), "jsonrpc %s, result %s, error %s -> %s" % ("present" if j else "absent/null", r, e, "accepted" if want else "rejected"), "a response object with jsonrpc %s, result %s and error %s is %s (the parser must accept exactly the objects with exactly one of result/error)" % ("present" if j else "absent/null", "present" if r else "absent", "present" if e else "absent", "accepted" if accepted else "rejected"), "%s:%d" % (vm.file, block_line(vm, start[0])))
                if accepted and want:
                    resp = got.fields[0]
                    payload_ok = False
                    if hasattr(resp, "fields"):
                        for f in resp.fields:
                            if isinstance(f, Enum) and f.vname in ("Success", "Error"):
                                payload_ok = (f.vname == "Success") == r and f.fields and f.fields[0] == (Sym("res") if r else Sym("err"))
                    R.check(payload_ok, "C15.R5", "payload:jsonrpc=%d,result=%d,error=%d" % (j, r, e), "the accepted object carries its own %s" % ("result" if r else "error"), "the accepted object does not carry its own result/error member (%r)" % (resp,), "%s:%d" % (vm.file, block_line(vm, start[0])))
    R.floor("C15.R5", n, 8, "rows of the acceptance table")
    # a missing id is an error
    ok_id = False
    for c in vm.calls_to(r"Option::<.*>::ok_or_else$"):
        if slots.get("id") in flow._local_copies_back(vm, op_place(c.args[0])["l"], 6) and vm.dominates(c.bb, start[0]):
            ok_id = True
    R.check(ok_id, "C15.R5", "missing-id-is-error", "an object without id is rejected before the decision", "Response::visit_map no longer rejects an object without an id", "%s:%d" % (vm.file, vm.lo))


def r6_no_handmade_json(ctx):
    """wire JSON is produced by serde_json, never assembled with format!: no format!-built string reaches a place where it
    is taken as JSON (RawValue::from_string, a parse into Box<RawValue>, the connection sink)"""
    _handmade_scan(ctx.F, ctx.R, (CORE, SERVER, TYPES), 3)


def _handmade_scan(F, R, crates, floor):
    SINK = r"RawValue::from_string$|MethodSink::(send|try_send|send_timeout)$|^serde_json::(de::)?from_str$"
    n = 0
    for b in F.real_bodies():
        if b.crate not in crates or is_test_body(b):
            continue
        sinks = [c for c in b.calls_to(SINK) if not (c.callee or "").endswith("from_str") or (c.ga and "RawValue" in c.ga[-1])]
        if not sinks:
            continue
        fm = [x for x in b.calls_to(r"^std::fmt::format$|^alloc::fmt::format$|^std::string::String::push_str$") if (x.callee or "").endswith("format")]
        tainted = forward_taint(b, {x.dest["l"] for x in fm}) if fm else set()
        for c in sinks:
            n += 1
            argi = 1 if "MethodSink" in (c.name() or "") else 0
            p = op_place(c.args[argi]) if len(c.args) > argi else None
            bad = p is not None and p["l"] in tainted
            R.check(not bad, "C15.R6", "%s:%s#%d" % (fkey(b), c.name().split("::")[-1], sorted(x.bb for x in sinks).index(c.bb)), "JSON taken here was not assembled with format!", "%s takes a string assembled with format! as JSON (%s): ids / method names that need escaping produce invalid or different JSON" % (short(b.path), short(c.name())), where(c))
    R.floor("C15.R6", n, floor, "places where a string is taken as wire JSON")
    # text is declared to be JSON (RawValue::from_string) in a closed list of places, each of which assembles it from
    # serde_json output and fixed ASCII tokens only (checked by C08 / C20 / C02 rules); anywhere else a RawValue comes from
    # serde_json::value::to_raw_value. A new hand-assembled envelope (ids / names copied in unescaped) has no such cover.
    VETTED = (r"^jsonrpsee_core::params::params_builder::ParamsBuilder::build$", r"^jsonrpsee_core::server::method_response::MethodResponse::response$", r"^jsonrpsee_core::server::method_response::BatchResponseBuilder::finish$")
    m = 0
    for c in F.all_calls(r"RawValue::from_string$|RawValue::from_string_unchecked$|^std::mem::transmute$"):
        b = c.body
        if b.crate not in crates or is_test_body(b):
            continue
        if (c.name() or "").endswith("transmute") and not (c.ga and any("RawValue" in g for g in c.ga)):
            continue
        m += 1
        R.check(any(re.search(v, b.path) for v in VETTED), "C15.R6", "from_string-site:%s" % fkey(b), "RawValue::from_string is used by a vetted assembler", "%s declares a hand-assembled string to be JSON (RawValue::from_string): outside the vetted assemblers wire JSON is produced by serde_json, which escapes ids / method names - text copied in verbatim yields invalid JSON or a different id / name" % short(b.path), where(c))
    R.floor("C15.R6.sites", m, 3 if SERVER in crates else 0, "RawValue::from_string sites")


def control_handmade(ctx):
    control(ctx, "C15.R6", "format! -> RawValue::from_string", lambda r: _handmade_scan(ctx.F, r, ("verif_fixtures",), 1))


def _borrowed_str_scan(F, R, crate_pat, rule="C15.R7"):
    """a `&str` (or `&[u8]`) deserialised from JSON exists only when the string has no escape sequences: serde_json cannot
    borrow an escaped string and fails with 'expected a borrowed string'. Wire types must deserialise strings through a
    visitor's visit_str or into Cow/String."""
    n = 0
    for b in F.real_bodies():
        if not re.search(crate_pat, b.path) or is_test_body(b):
            continue
        for c in b.calls:
            nm = c.name() or ""
            if re.search(r"(MapAccess|SeqAccess)(<'\w+>)?>?::next_(value|element|key)$", c.callee or ""):
                # derive-generated (or hand-written) member reads: the member type is the last generic argument
                n += 1
                st = re.sub(r"^std::option::Option<(.*)>$", r"\1", (c.ga or [""])[-1])
            elif re.search(r"Deserialize(<'\w+>)?>?::deserialize$", nm) or re.search(r"Deserialize(<'\w+>)?>?::deserialize$", c.callee or ""):
                n += 1
                st = c.self_ty or ""
            else:
                continue
            if re.match(r"^&('\w+ )?(str|\[u8\])$", st):
                R.bad(rule, "%s:borrowed-%s" % (fkey(b), "str" if "str" in st else "bytes"), "%s deserialises a borrowed `%s`: a JSON string written with escapes (e.g. \"2\\u002e0\") is the same value but cannot be borrowed, so the message is rejected" % (short(b.path), st), where(c))
    return n


def r7_no_borrowed_str(ctx):
    F, R = ctx.F, ctx.R
    n = _borrowed_str_scan(F, R, r"^<?jsonrpsee_(types|core)::")
    R.ok("C15.R7", "no-borrowed-str", "%d Deserialize::deserialize calls and member reads (next_value/next_element/next_key) inspected; none targets &str / &[u8]" % n)
    R.floor("C15.R7", n, 40, "deserialisation sites in types/core")


def control_borrowed_str(ctx):
    control(ctx, "C15.R7", "<&str>::deserialize", lambda r: _borrowed_str_scan(ctx.F, r, r"^<?verif_fixtures::"))


def r8_into_owned_is_fieldwise(ctx):
    """`into_owned` changes lifetimes, not values (see common.into_owned_fieldwise)"""
    from .common import into_owned_fieldwise
    into_owned_fieldwise(ctx, "C15.R8", r"^jsonrpsee_types::(response::Response|error::ErrorObject)::<.*>::into_owned$", 2)


def r9_client_tries_response_first(ctx):
    """the client accepts as a response exactly what the Response parser accepts (unknown members ignored) only if Response
    is the *first* classification it tries - Notification ignores unknown members too, so an object `{id, result,
    method: ".."}` tried as a notification first is taken for one and the call never completes. Both in the single-object
    and in the array-element classification of handle_recv_message."""
    from . import c05
    F, R = ctx.F, ctx.R
    from .common import client_message_handlers, enclosing_loop_next
    fam = client_message_handlers(F)
    groups = {"single": [], "element": []}
    for hb in fam:
        R.fn(hb)
        for c in c05._classifier_calls(hb):
            groups["element" if enclosing_loop_next(hb, c.bb) is not None else "single"].append(c)
    for label, lst in groups.items():
        lst = sorted(lst, key=lambda c: (fam.index(c.body), len(c.body.dom[c.bb])))
        tys = [c05._norm_ty(c.ga[-1]) for c in lst]
        first_is_response = bool(tys) and "Response<" in tys[0] and "Notification" not in tys[0]
        # ... and unconditionally: every other attempt is made only after the Response attempt ran (no pre-filter that
        # skips it, e.g. sniffing the raw bytes for "method" - a result may contain that text)
        if first_is_response and len(lst) > 1:
            skipped = [c for c in lst[1:] if c.body is not lst[0].body or not c.body.dominates(lst[0].bb, c.bb)]
            R.check(not skipped, "C15.R9", "client-%s:response-attempt-unconditional" % label, "every %s message is first tried as a Response" % label, "in the client's %s classification the Response attempt can be skipped (a later attempt is reachable without it): a response whose payload happens to satisfy the pre-filter (e.g. contains the text \"method\") is never decoded as a response and the read task fails" % label, where(skipped[0]) if skipped else None)
        R.check(first_is_response, "C15.R9", "client-%s:response-first" % label, "the %s classification tries Response first" % label, "the client's %s classification tries %s before Response: a valid response that carries an extra `method` member is taken for a notification and its call never completes (the HTTP client, which parses Response directly, still accepts it)" % (label, [short(t) for t in tys[:3]]), where(lst[0]) if lst else None)


def r10_http_errors_keep_the_envelope(ctx):
    """the errors the HTTP transport answers on its own (internal_error, too_large, malformed) are JSON-RPC response
    objects: their body is serde_json::to_string of a Response::new(error payload, Id::Null), not the bare error object
    (`{"code":..,"message":..}` has no jsonrpc / id / error member and the library's own Response parser rejects it)"""
    F, R = ctx.F, ctx.R
    tr = ctx.tracer(follow_callers=False, follow_fields=False, inline_calls=False)
    for nm in ("internal_error", "too_large", "malformed"):
        b = F.one(r"^jsonrpsee_server::transport::http::response::%s$" % nm)
        R.fn(b)
        ft = b.calls_to(r"transport::http::response::from_template$")
        ok = False
        for c in ft:
            for l in tr.origins(b, c.args[1]):
                if l.kind == "call" and re.search(r"^serde_json::(ser::)?to_string$", l.detail["callee"] or ""):
                    for l2 in tr.origins(b, l.detail["args"][0]):
                        if l2.kind == "call" and re.search(r"Response::<.*>::new$", l2.detail["callee"] or ""):
                            ok = True
        R.check(ok, "C15.R10", "http-error:%s:envelope" % nm, "response::%s() answers a serialised Response object" % nm, "response::%s() no longer answers serde_json::to_string(&Response::new(error, Id::Null)): the body is not a JSON-RPC response object (no jsonrpc/id/error members)" % nm, "%s:%d" % (b.file, b.lo))


def r11_subscription_id_numbers_are_u64(ctx):
    """a numeric subscription id is any u64 on every path that decodes one: the derived decoder (u64) is what the client
    uses for the subscribe result and for notifications, and the Value conversion reads the number with as_u64 - a signed
    or floating accessor rejects or mangles ids >= 2^63 that the derived decoder accepts"""
    F, R = ctx.F, ctx.R
    b = F.one(r"^<jsonrpsee_types::params::SubscriptionId<'a> as std::convert::TryFrom<serde_json::Value>>::try_from$")
    R.fn(b)
    acc = sorted({(c.name() or "").split("::")[-1] for x in F.nested(b) for c in x.calls_to(r"serde_json::(value::|number::)?Number::as_\w+$")})
    R.check(acc == ["as_u64"], "C15.R11", "sub-id:value-conversion-unsigned", "TryFrom<Value> for SubscriptionId reads numbers with as_u64", "TryFrom<serde_json::Value> for SubscriptionId reads numbers with %s: ids above i64::MAX (valid u64 ids the derived decoder accepts) are rejected or changed" % acc, "%s:%d" % (b.file, b.lo))
    psr = F.one(r"^jsonrpsee_core::client::async_client::helpers::process_single_response$")
    R.fn(psr)
    dec = [c for c in psr.calls_to(r"^serde_json::(de::)?from_str$") if c.ga and "SubscriptionId" in c.ga[-1]]
    R.check(len(dec) == 1, "C15.R11", "sub-id:subscribe-result-uses-derived-decoder", "the subscribe result is decoded as SubscriptionId by the derived decoder (the one notifications use)", "process_single_response no longer decodes the subscribe result with serde_json::from_str::<SubscriptionId>: the id in the subscribe reply and the id in notifications go through different decoders", "%s:%d" % (psr.file, psr.lo))


CONTROLS = [control_handmade, control_borrowed_str]



def r12_derived_writers_mirror_their_readers(ctx):
    """the wire types whose Serialize is derived are read back by the derived Deserialize of the same declaration, and the
    two mirror each other only as long as the declaration has no one-sided attribute. Decided on the expanded code: a
    derived Serialize in jsonrpsee_types (a) serialises every member through the member type's own Serialize impl - no
    `serialize_with` wrapper (a number written as a string comes back as another variant), and (b) leaves a member out
    only under `Option::is_none` - the derived reader supplies None for a missing Option member and fails with `missing
    field` for any other (skip_serializing_if = "str::is_empty" on a required member makes the value unreadable)."""
    F, R = ctx.F, ctx.R
    n = 0
    ALLOWED = r"_serde::(ser::)?(Serializer|SerializeStruct|SerializeMap|SerializeSeq|SerializeTuple|SerializeStructVariant|SerializeTupleVariant|SerializeTupleStruct)::\w+$|_serde::(ser::impls::<impl .*)?Serialize.*::serialize$|Serialize>?::serialize$|Try>?::branch$|FromResidual.*::from_residual$|^std::option::Option::<.*>::is_none$|__private\w*::"
    for b in F.real_bodies():
        if not (re.search(r"^jsonrpsee_types::[\w:]+::_::<impl .*_serde::Serialize for jsonrpsee_types::", b.path) and b.path.endswith("::serialize")):
            continue
        n += 1
        R.fn(b)
        ty = re.search(r"Serialize for (jsonrpsee_types::[\w:]+)", b.path).group(1)
        wrappers = [p_ for p_ in F.bodies if p_.startswith(b.path + "::") and "__SerializeWith" in p_] + [p_ for p_ in F.bodies if "__SerializeWith" in p_ and b.path in p_]
        R.check(not wrappers, "C15.R12", "%s:no-serialize_with" % ty.split("::")[-1], "derived Serialize for %s writes every member through its own Serialize impl" % ty.split("::")[-1], "derived Serialize for %s routes a member through a `serialize_with` function: what is written is not what the derived Deserialize of the same type reads back (e.g. a number written as a string returns as the string variant), so the value does not round-trip" % ty, "%s:%d" % (b.file, b.lo))
        odd = [c for c in b.calls if not re.search(ALLOWED, c.name() or "") and not re.search(ALLOWED, c.callee or "")]
        R.check(not odd, "C15.R12", "%s:skip-only-on-none" % ty.split("::")[-1], "derived Serialize for %s omits a member only when it is None" % ty.split("::")[-1], "derived Serialize for %s consults %s: a member is left out / rewritten by a one-sided predicate, while the derived reader accepts a missing member only for Option fields - the serialised value cannot be parsed back (`missing field`)" % (ty, sorted({short(c.name()) for c in odd})), where(odd[0]) if odd else None)
    R.floor("C15.R12", n, 6, "derived Serialize impls of wire types")


def r13_request_decoder_is_plain(ctx):
    """`parsing the text back yields an equal value`: the Request / Notification decoders are the plain derived ones - a
    hook on a member (`params: []` normalised to absent, scalars refused) makes the parsed value differ from the one that
    was serialised (= C01.R8)"""
    from . import c01
    c01.r8_classifiers_are_plain(ctx)


def r14_null_id_is_an_id(ctx):
    """`a response with its id`: `"id": null` is a present id (Id::Null) - a call that carries it is answered with id null.
    No type of the library models the id of an incoming message as `Option<Id>`: serde reads JSON null into `None`
    before Id::Null can be produced, so such a call is taken for a notification and gets no (or an empty) reply."""
    F, R = ctx.F, ctx.R
    n = 0
    bad = []
    for name, a in F.adts.items():
        if not name.startswith("jsonrpsee_"):
            continue
        n += 1
        for v in a["variants"]:
            for f in v["fields"]:
                if re.search(r"^std::option::Option<(jsonrpsee_types::(params::)?)?Id<", f["ty"]):
                    bad.append((name, f["n"], f["ty"]))
    for name, fn_, ty in bad:
        R.bad("C15.R14", "%s.%s:option-id" % (name, fn_), "%s has a field `%s: %s`: decoding a message into it reads `\"id\": null` as `no id`, so a call with a null id is classified as a notification and is not answered with `id: null`" % (name, fn_, ty), None)
    if not bad:
        R.ok("C15.R14", "no-option-id", "no `Option<Id>` field in %d library types" % n)
    R.floor("C15.R14", n, 150, "library types inspected")
    # and the classification itself: single messages and batch entries are tried as Request, Notification, id recovery
    from . import c01, c02
    c01.r2_classify_once(ctx)
    c02.r2_classifier_agreement(ctx)


def r15_replies_are_decoded_from_their_text(ctx):
    """the client accepts as a response exactly what the Response parser accepts: (a) replies are decoded from their text -
    nothing on the client side parses a reply into a `serde_json::Value` and decodes the entries from there (a Value has
    already dropped duplicate members, re-rendered numbers and applies its own depth limit, so the strict parser's
    rejections and the payload round trip are lost); the only Value parse is the error formatter `unparse_error`;
    (b) no client code looks at a decoded Response's `jsonrpc` member (absent, null and "2.0" are all accepted by the
    parser and mean the same afterwards)."""
    F, R = ctx.F, ctx.R
    VAL = r"(^|<|, |&)(serde_json::Value|serde_json::value::Value|jsonrpsee_core::JsonValue|jsonrpsee_types::JsonValue)\b"
    n = 0
    for b in F.real_bodies():
        if is_test_body(b) or not re.search(r"^<?jsonrpsee_(http_client|core::client|client_transport|ws_client)", b.path):
            continue
        n += 1
        if re.search(r"async_client::unparse_error$", b.path):
            continue
        for c in b.calls:
            nm = c.name() or ""
            if (re.search(r"^serde_json::(de::)?(from_slice|from_str|from_reader|from_value)$|Deserialize<'\w+> for [^>]*>::deserialize$|Deserialize<'\w+>>::deserialize$", nm) and any(re.search(VAL, g) for g in (c.ga or []))):
                R.fn(b)
                R.bad("C15.R15", "%s:decodes-through-value" % fkey(b), "%s decodes a reply through serde_json::Value (%s): duplicate members, number spellings and nesting are normalised before the Response parser sees them, so it no longer rejects what it must reject and payloads do not round-trip" % (short(b.path), short(nm)), where(c))
        for bi, blk in enumerate(b.blocks):
            if blk.get("cleanup") or bi not in b.reachable:
                continue
            places = []
            for st in blk["st"]:
                if st["s"] == "assign":
                    rv = st["rv"]
                    for key in ("pl",):
                        if key in rv:
                            places.append((rv[key], st["sp"][0]))
                    for key in ("op", "a", "b"):
                        if key in rv and op_place(rv[key]) is not None:
                            places.append((op_place(rv[key]), st["sp"][0]))
            for pl, line in places:
                fs = [e for e in pl.get("p", []) if isinstance(e, dict) and "f" in e]
                if fs and fs[-1].get("n") == "jsonrpc" and re.search(r"(Response|ResponseSuccess)<", b.locals[pl["l"]]["ty"]):
                    R.fn(b)
                    R.bad("C15.R15", "%s:inspects-jsonrpc" % fkey(b), "%s looks at the `jsonrpc` member of a decoded response: a reply without the member (or with null) - which the parser accepts - is then treated differently from one that spells \"2.0\"" % short(b.path), "%s:%d" % (b.file, line))
    R.ok("C15.R15", "client-decodes-from-text", "%d client bodies scanned" % n)
    R.floor("C15.R15", n, 200, "client bodies scanned")


def rkey_unsubscribe_reads_the_id_as_written(ctx):
    """round trip of a subscription id on the library's own path: `accept` writes the id into the subscribe reply and
    stores it as the key; the unsubscribe handler must look up exactly the value it decodes (no normalisation)"""
    from .common import server_unsubscribe_key_is_the_decoded_id

    server_unsubscribe_key_is_the_decoded_id(ctx, "C15.KEY")


def rids_wire_ids_derive_both(ctx):
    """ids are serialised and parsed by mirror-image (derived) impls"""
    from .common import wire_ids_derive_both
    wire_ids_derive_both(ctx, "C15.IDS")


def r17_clients_accept_only_what_the_wire_types_accept(ctx):
    """what a client takes for a reply is what `Response`'s own decoder accepts: on the client side every serde_json decode
    of received bytes targets a wire type of jsonrpsee_types (or a list of raw values to be decoded as such), and no client
    code builds a `Response` by hand. A fallback decoder with a struct of its own (`legacy servers send both members`)
    accepts objects with both or neither of result/error, any `jsonrpc` value, duplicated members - on that entry point only."""
    F, R = ctx.F, ctx.R
    n = 0
    for b in F.real_bodies():
        if is_test_body(b) or not re.search(r"^<?jsonrpsee_(http_client::(rpc_service|client|transport)|core::client::async_client)", b.path):
            continue
        for c in b.calls_to(r"^serde_json::(de::)?from_(slice|str|reader)$"):
            if not c.ga:
                continue
            n += 1
            ty = c.ga[-1]
            ok = bool(re.match(r"^(jsonrpsee_types::|&?serde_json::value::RawValue$|std::vec::Vec<&|std::vec::Vec<jsonrpsee_types::|std::vec::Vec<std::boxed::Box<serde_json::value::RawValue|serde_json::Value$|serde_json::value::Value$|jsonrpsee_core::JsonValue$|[A-Z]\w*$)", ty))   # a bare generic parameter is the caller's result type
            R.check(ok, "C15.R17", "%s:decodes-a-wire-type:%s" % (fkey(b), ty[:50]), "the client decodes received bytes as a wire type", "%s decodes received bytes as `%s`, a type of its own: replies the wire types reject (both / neither of result and error, a wrong `jsonrpc`, duplicated members) are accepted on this path" % (short(b.path), ty[:80]), where(c))
        # (placeholders for unanswered batch entries are built elsewhere, by design; a single call's reply never is)
        fab = b.calls_to(r"jsonrpsee_types::(response::)?Response::<.*>::new$") if re.search(r"jsonrpsee_http_client::rpc_service", b.path) else []
        R.check(not fab, "C15.R17", "%s:no-hand-made-response" % fkey(b), "no response object is fabricated on the client side", "%s builds a Response by hand (Response::new): what the caller gets is not what the reply's own decoder produced" % short(b.path), where(fab[0]) if fab else None)
    R.floor("C15.R17", n, 6, "decodes of received bytes on the client side")


def r16_server_error_kind_has_one_source(ctx):
    """every code has one kind: `ErrorCode::ServerError(n)` is built by `From<i32> for ErrorCode` alone, on its fallback
    arm. Built by hand elsewhere it can carry a code that has a dedicated kind (-32007 is OversizedRequest): the bytes on
    the wire are the same, but the value is not the one that parsing those bytes back yields."""
    F, R = ctx.F, ctx.R
    n = 0
    for b in F.real_bodies():
        if not b.crate.startswith("jsonrpsee") or is_test_body(b):
            continue
        for blk in b.blocks:
            for st in blk["st"]:
                if st["s"] == "assign" and st["rv"]["k"] == "agg" and (st["rv"].get("adt") or "").endswith("error::ErrorCode") and st["rv"].get("variant") == "ServerError":
                    n += 1
                    R.fn(b)
                    ok = bool(re.search(r"ErrorCode as std::convert::From<i32>>::from$", b.path))
                    R.check(ok, "C15.R16", "%s:ServerError-built-by-From" % fkey(b), "ServerError(n) is built by From<i32>", "%s builds ErrorCode::ServerError(..) by hand: a code that has a kind of its own (e.g. -32007 OversizedRequest) then travels as a different value than the one its serialisation parses back to" % short(b.path), "%s:%d" % (b.file, st["sp"][0]))
    R.floor("C15.R16", n, 1, "constructions of ErrorCode::ServerError")


def rbatch_nothing_but_response_objects_is_emitted(ctx):
    """every message the server emits is a response object or an array of them: the `no reply` case of a batch is decided
    by the reply builder being empty and is sent as nothing, never as a bare `null` (= C02.R3, C02.R5)"""
    from . import c02
    c02.r3_append_discipline(ctx)
    c02.r5_append_writes_every_entry(ctx)


RULES = [r17_clients_accept_only_what_the_wire_types_accept, r16_server_error_kind_has_one_source, rbatch_nothing_but_response_objects_is_emitted, r1_code_tables, r2_serializer, r3_field_tables, r4_duplicate_guards, r5_acceptance_table, r6_no_handmade_json, r7_no_borrowed_str, r8_into_owned_is_fieldwise, r9_client_tries_response_first, r10_http_errors_keep_the_envelope, r11_subscription_id_numbers_are_u64, r12_derived_writers_mirror_their_readers, r13_request_decoder_is_plain, r14_null_id_is_an_id, r15_replies_are_decoded_from_their_text, rids_wire_ids_derive_both, rkey_unsubscribe_reads_the_id_as_written]

LEVEL_TEXT = (
    "Decision tables and structural facts extracted exactly from the type-checked serde code: the error-code tables are "
    "compared as finite maps (so a kind missing from one direction is found whatever value a test happens to sample), the "
    "response serializer's member counts are decided over all its paths, reader and writer member tables are compared, "
    "and every duplicate guard is located. This is what static analysis can say; value-level round trips are not claimed."
)
LEVEL_NOTE = "Trusted: rustc MIR; serde derive output and serde_json. Not decided: round-trip equality for arbitrary ids/payloads."
TECHNIQUE = "decision-table extraction (finite abstract evaluation of MIR switch structure) + path counting"

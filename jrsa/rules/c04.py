"""C04 — server subscription notifications: own id, after the accept response, stop at close (structural clauses)."""
import re

from .common import (fkey, where, short, arg_is_local, enclosing_loop_next, follow_value, block_line, terminal_field, awaited_value_local, CORE, SERVER)
from ..facts import op_place, op_const, AnchorLost, is_test_body
from .. import flow

PID = "C04"
LEVEL = "other"
EXPLANATION = (
    'Static analysis over MIR. Decided: R1 (typestate) the only construction of SubscriptionSink in the workspace is '
    'in PendingSubscriptionSink::accept, dominated by the completion (Ok arm) of the awaited '
    'MethodSink::send(response) and by the response being a success; SubscriptionSink is the only type whose methods '
    'build subscription notifications; R2 in send, send_timeout and try_send (siblings) the write to the connection '
    'is dominated by the false branch of is_closed(), and is_closed() consults both the connection and the '
    'unsubscribe state; R3 the sub_id / method operands of every sub_message_to_json / sub_err_to_json originate from '
    "the sink's own uniq_sub.sub_id / method (for the close notification: from the same uniq_sub and notif method "
    'captured when the pending sink was built); R4 in the task spawned by register_subscription every connection '
    'write is dominated by the Ok arm of try_join(sub_fut, accepted_rx), at most one write per path, and '
    'accepted_tx.send is dominated by rp.is_success(); register_subscription_raw sends none; R5 the unsubscribe '
    "callback removes exactly the key (conn_id parameter, parsed id); R6 the connection's receiver is consumed by a "
    "single writer task. R1 also requires that the internal 'subscribe answered' oneshot fires only after the accept "
    'response was handed to the connection; R6 also requires that the connection task joins the writer task that owns '
    "the queue's receiver. NOT decided: all interleavings; the is_closed/enqueue TOCTOU."
)
RULE_TEXT = "instances = SubscriptionSink constructions, sibling send methods, notification builders, close-task writes, table removals"
TRUSTED = ["rustc MIR", "tokio mpsc/oneshot", "futures try_join semantics"]
ASSUMPTIONS = ["user handlers only use the public sink API"]

ACC = r"^jsonrpsee_core::server::subscription::PendingSubscriptionSink::accept::\{closure#0\}$"
SINK = "jsonrpsee_core::server::subscription::SubscriptionSink"


def r1_typestate(ctx):
    F, R = ctx.F, ctx.R
    sites = []
    for b in F.real_bodies():
        if is_test_body(b):
            continue
        for bi, blk in enumerate(b.blocks):
            if blk.get("cleanup"):
                continue
            for st in blk["st"]:
                if st["s"] == "assign" and st["rv"]["k"] == "agg" and st["rv"].get("adt") == SINK:
                    sites.append((b, bi, st))
    R.floor("C04.R1", len(sites), 1, "SubscriptionSink constructions")
    acc = F.one(ACC)
    R.fn(acc)
    for b, bi, st in sites:
        is_derive_clone = b.path.endswith("::clone") and (b.impl_trait or "").endswith("Clone")
        if is_derive_clone:
            continue
        R.check(b.path == acc.path, "C04.R1", "ctor:%s" % fkey(b), "SubscriptionSink is built in PendingSubscriptionSink::accept", "a SubscriptionSink is built in %s: notifications could be sent without the accept response having been sent first" % b.path, "%s:%d" % (b.file, st["sp"][0]))
    sends = acc.calls_to(r"MethodSink::send$")
    R.check(len(sends) == 1, "C04.R1", "accept:one-response-send", "accept sends the response once", "accept has %d MethodSink::send sites" % len(sends), "%s:%d" % (acc.file, acc.lo))
    tr = ctx.tracer(follow_callers=False, follow_fields=False)
    for s in sends:
        from .common import awaited_outcome_arms
        ok_ts, _errs = awaited_outcome_arms(acc, s)
        ok_t = None
        dom = lambda x: any(acc.dominates(t, x) for t in ok_ts)
        for b, bi, st in sites:
            if b.path != acc.path:
                continue
            R.check(dom(bi), "C04.R1", "accept:sink-after-response-enqueued", "the sink exists only after the accept response was handed to the connection", "the SubscriptionSink is built before (or regardless of) the accept response being enqueued: a notification can overtake the response", "%s:%d" % (acc.file, st["sp"][0]))
        # the internal "subscribe call answered" signal fires only once the response is on the connection queue: the
        # close task treats that signal as "accepted" and may emit the closing notification
        ones = acc.calls_to(r"oneshot::Sender::<.*>::send$")
        R.check(bool(ones), "C04.R1", "accept:internal-answer-exists", "accept answers the subscribe call internally", "accept no longer answers the subscribe call through its oneshot", "%s:%d" % (acc.file, acc.lo))
        for o in ones:
            R.check(dom(o.bb), "C04.R1", "accept:internal-answer-after-enqueue", "the subscribe call is reported answered only after the response was handed to the connection", "accept reports the subscribe call as answered before the response is handed to the connection: if the connection queue is full and the handler abandons accept(), the close task sends a closing notification for a subscription whose accept response was never sent", where(o))
        # what is sent is the response
        lv = tr.origins(acc, s.args[1])
        R.check(any(l.kind == "call" and re.search(r"MethodResponse::", l.detail["callee"] or "") for l in lv), "C04.R1", "accept:sends-the-response", "what accept enqueues is the subscribe response", "accept enqueues %s" % [flow.leaf_str(l) for l in lv], where(s))
    suc = acc.calls_to(r"MethodResponse::is_success$")
    for b, bi, st in sites:
        if b.path != acc.path:
            continue
        ok = False
        for c in suc:
            for l in follow_value(acc, c.dest["l"]):
                for sb, arms, other in flow.switch_on(acc, l):
                    tt = other if "0" in arms else arms.get("1")
                    if tt is not None and acc.dominates(tt, bi):
                        ok = True
        R.check(ok, "C04.R1", "accept:sink-only-on-success", "the sink is built only for a successful response", "the sink is built although the subscribe response is an error", "%s:%d" % (acc.file, st["sp"][0]))
    # only SubscriptionSink methods (and the close task) build notifications
    allowed = re.compile(r"^jsonrpsee_core::server::subscription::SubscriptionSink::(send|send_timeout|try_send)(::\{closure#0\})?$|^jsonrpsee_core::server::rpc_module::RpcModule::register_subscription::\{closure#0\}::\{closure#0\}$")
    try:
        _task_path = fkey(_subscription_futures(F)[0])
    except AnchorLost:
        _task_path = None
    for c in F.all_calls(r"server::(subscription::|helpers::)?sub_message_to_json$|server::(subscription::|helpers::)?sub_err_to_json$"):
        if c.body.crate not in (CORE, SERVER):
            continue
        k = fkey(c.body)
        R.check(bool(allowed.match(k)) or (_task_path is not None and k == _task_path), "C04.R1", "notif-builder:%s" % k, "notifications are built by the sink / the close task", "a subscription notification is built in %s (outside the accepted sink and the close task)" % k, where(c))


def r2_closed_check_first(ctx):
    F, R = ctx.F, ctx.R
    n = 0
    for name, inner in (("send", r"MethodSink::send$"), ("send_timeout", r"MethodSink::send_timeout$"), ("try_send", r"MethodSink::try_send$")):
        cands = F.find(r"^jsonrpsee_core::server::subscription::SubscriptionSink::%s(::\{closure#0\})?$" % name)
        body = None
        for b in cands:
            if b.calls_to(inner):
                body = b
        if body is None:
            R.anchor_lost("C04.R2", "SubscriptionSink::%s writing through %s" % (name, inner))
            continue
        R.fn(body)
        n += 1
        chk = body.calls_to(r"SubscriptionSink::is_closed$")
        for w in body.calls_to(inner):
            ok = False
            for c in chk:
                for sb, arms, other in flow.switch_on(body, c.dest["l"]):
                    ft = arms.get("0")
                    if ft is not None and body.dominates(ft, w.bb):
                        ok = True
            R.check(ok, "C04.R2", "%s:closed-check-first" % name, "SubscriptionSink::%s writes only after is_closed() was false" % name, "SubscriptionSink::%s writes to the connection without checking is_closed(): after a successful unsubscribe the notification is still delivered" % name, where(w))
    R.floor("C04.R2", n, 3, "sibling send methods")
    ic = F.one(r"^jsonrpsee_core::server::subscription::SubscriptionSink::is_closed$")
    R.fn(ic)
    a = ic.calls_to(r"MethodSink::is_closed$")
    bq = ic.calls_to(r"SubscriptionSink::is_active_subscription$|IsUnsubscribed::is_unsubscribed$")
    R.check(bool(a) and bool(bq), "C04.R2", "is_closed:both-sources", "is_closed() = connection closed || unsubscribed", "is_closed() no longer consults both the connection and the unsubscribe state (conn=%d, unsub=%d)" % (len(a), len(bq)), "%s:%d" % (ic.file, ic.lo))
    # polarity: closed = connection closed || unsubscribed. Written through the helper `is_active_subscription` (= !unsubscribed,
    # negated again in is_closed) or directly: the number of negations between is_unsubscribed() and the result is even
    ias = F.find(r"^jsonrpsee_core::server::subscription::SubscriptionSink::is_active_subscription$")
    nots = lambda x: sum(1 for blk in x.blocks for st in blk["st"] if st["s"] == "assign" and st["rv"]["k"] == "un" and st["rv"]["op"] == "Not")
    total = nots(ic) + sum(nots(x) for x in ias if ic.calls_to(r"SubscriptionSink::is_active_subscription$"))
    reaches = bool(ic.calls_to(r"IsUnsubscribed::is_unsubscribed$")) or any(x.calls_to(r"IsUnsubscribed::is_unsubscribed$") for x in ias)
    R.check(reaches and total % 2 == 0, "C04.R2", "is_active:negated-unsubscribed", "closed follows unsubscribed (not its negation)", "is_closed() reports the negation of the unsubscribe state (%d negations between is_unsubscribed() and the result)" % total, "%s:%d" % (ic.file, ic.lo))


def r3_identity(ctx):
    F, R = ctx.F, ctx.R
    tr = ctx.tracer(follow_callers=False, follow_fields=False)
    n = 0
    for c in F.all_calls(r"sub_message_to_json$|sub_err_to_json$"):
        b = c.body
        if b.crate != CORE or is_test_body(b):
            continue
        n += 1
        R.fn(b)
        ls = tr.origins(b, c.args[1])
        lm = tr.origins(b, c.args[2])
        k = fkey(b) + ":" + c.name().split("::")[-1]
        if "SubscriptionSink::" in b.path:
            ok_s = bool(ls) and all(l.kind == "field" and [f[1] for f in l.detail["fields"]][-2:] == ["uniq_sub", "sub_id"] for l in ls)
            ok_m = bool(lm) and all(l.kind == "field" and l.detail["fields"][-1][1] == "method" for l in lm)
        else:
            # close task: captured sub_id = uniq_sub.sub_id.clone() and method = notif_method_name of the same registration
            ok_s = bool(ls) and all(l.kind == "agg" and l.detail.get("adt", "").endswith("SubscriptionKey") or "uniq_sub" in " ".join(l.chain) or (l.kind == "call" and re.search(r"IdProvider::next_id$", l.detail["callee"] or "")) for l in ls)
            ok_m = bool(lm) and all(l.kind == "param" and l.detail["idx"] == 3 and re.search(r"RpcModule::<Context>::register_subscription(_raw)?$", l.detail["fn"]) for l in lm)
        R.check(ok_s, "C04.R3", k + ":sub-id", "the notification carries the subscription's own id", "a notification is built with a subscription id that is not the sink's own: %s" % [flow.leaf_str(l) for l in ls], where(c))
        R.check(ok_m, "C04.R3", k + ":method", "the notification carries the subscription's own notification method", "a notification is built with a method name that is not the subscription's own: %s" % [flow.leaf_str(l) for l in lm], where(c))
    R.floor("C04.R3", n, 5, "notification builder sites")
    # the pending sink built by register_subscription gets the same uniq_sub / method
    for pat in (r"register_subscription::\{closure#0\}$", r"register_subscription_raw::\{closure#0\}$"):
        for b in F.find(r"^jsonrpsee_core::server::rpc_module::RpcModule::<Context>::" + pat):
            for bi, blk in enumerate(b.blocks):
                for st in blk["st"]:
                    if st["s"] == "assign" and st["rv"]["k"] == "agg" and st["rv"].get("adt", "").endswith("PendingSubscriptionSink"):
                        rv = st["rv"]
                        lm = tr.origins(b, rv["ops"][rv["fields"].index("method")])
                        okm = bool(lm) and all(l.kind == "param" and l.detail["idx"] == 3 and re.search(r"RpcModule::<Context>::register_subscription(_raw)?$", l.detail["fn"]) for l in lm)
                        R.check(okm, "C04.R3", fkey(b) + ":pending-method", "the pending sink gets the registration's notification method", "the pending sink's method is %s" % [flow.leaf_str(l) for l in lm], "%s:%d" % (b.file, st["sp"][0]))
                        li = tr.origins(b, rv["ops"][rv["fields"].index("uniq_sub")])
                        oki = any(l.kind == "agg" and l.detail.get("adt", "").endswith("SubscriptionKey") for l in li)
                        R.check(oki, "C04.R3", fkey(b) + ":pending-key", "the pending sink gets the freshly built (conn_id, new id) key", "the pending sink's key is %s" % [flow.leaf_str(l) for l in li], "%s:%d" % (b.file, st["sp"][0]))
                    if st["s"] == "assign" and st["rv"]["k"] == "agg" and st["rv"].get("adt", "").endswith("SubscriptionKey"):
                        rv = st["rv"]
                        lc = tr.origins(b, rv["ops"][rv["fields"].index("conn_id")])
                        okc = bool(lc) and all(l.kind == "field" and l.detail["fields"][-1][1] == "conn_id" and "SubscriptionState" in (l.detail["fields"][-1][0] or "") or (l.kind == "param" and "SubscriptionState" in (l.detail.get("ty") or "")) for l in lc)
                        R.check(okc, "C04.R3", fkey(b) + ":key-conn", "the key uses the calling connection's id", "the subscription key's conn_id is %s" % [flow.leaf_str(l) for l in lc], "%s:%d" % (b.file, st["sp"][0]))
                        lsid = tr.origins(b, rv["ops"][rv["fields"].index("sub_id")])
                        oks = any(l.kind == "call" and re.search(r"IdProvider::next_id$", l.detail["callee"] or "") for l in lsid)
                        R.check(oks, "C04.R3", fkey(b) + ":key-fresh-id", "the key uses a fresh id from the id provider", "the subscription id is %s" % [flow.leaf_str(l) for l in lsid], "%s:%d" % (b.file, st["sp"][0]))


def _subscription_futures(F):
    """(close task, response future) of the callback register_subscription registers: the two futures written inside it,
    told apart by what they do (the close task joins the handler with the acceptance signal and builds the closing
    notification; the response future signals the acceptance), not by their position in the source"""
    cb = F.one(r"^jsonrpsee_core::server::rpc_module::RpcModule::<Context>::register_subscription::\{closure#0\}$")
    kids = [x for x in F.children(cb) if x.kind == "Closure"]
    task = [x for x in kids if x.calls_to(r"^futures_util::future::try_join$|sub_message_to_json$|sub_err_to_json$")]
    rf = [x for x in kids if x not in task and x.calls_to(r"MethodResponse::is_success$|oneshot::Sender::<.*>::send$")]
    if len(task) != 1 or len(rf) != 1:
        raise AnchorLost("the close task / response future of the subscription callback (found %d / %d)" % (len(task), len(rf)))
    return task[0], rf[0]


def r4_close_gating(ctx):
    F, R = ctx.F, ctx.R
    tr = ctx.tracer(follow_callers=False, follow_fields=False)
    task, rf = _subscription_futures(F)
    R.fn(task)
    writes = task.calls_to(r"MethodSink::(send|try_send|send_timeout|send_error)$")
    R.floor("C04.R4", len(writes), 1, "close-notification writes in the subscription task")
    builders = {(c.name() or "").split("::")[-1] for c in task.calls_to(r"sub_message_to_json$|sub_err_to_json$")}
    R.check(builders == {"sub_message_to_json", "sub_err_to_json"}, "C04.R4", "task:both-closing-kinds", "a closing result and a closing error are both turned into a notification", "the close task builds %s only: one kind of closing value is silently dropped" % sorted(builders), "%s:%d" % (task.file, task.lo))
    lossy = [w for w in writes if not (w.name() or "").endswith("MethodSink::send")]
    R.check(not lossy, "C04.R4", "task:close-notification-waits-for-room", "the closing notification is sent with the waiting MethodSink::send", "the close task sends the closing notification with %s: when the connection's buffer is full at that moment the subscription's last item / error is silently dropped" % sorted({short(w.name()) for w in lossy}), where(lossy[0]) if lossy else None)
    tj = task.calls_to(r"^futures_util::future::try_join$")
    R.check(len(tj) == 1, "C04.R4", "task:try_join", "the task joins the handler future with the acceptance signal", "the close task no longer waits for try_join(handler, accepted): a rejected / never-accepted subscription can get a close notification", "%s:%d" % (task.file, task.lo))
    ok_t = None
    for j in tj:
        # second operand is the accepted receiver
        l2 = tr.origins(task, j.args[1])
        okr = any(l.kind == "param" or "accepted_rx" in " ".join(l.chain) for l in l2)
        R.check(okr, "C04.R4", "task:joins-accepted_rx", "the joined signal is accepted_rx", "try_join's second operand is %s" % [flow.leaf_str(l) for l in l2], where(j))
        vl, rblk = awaited_value_local(task, j)
        if vl is not None:
            for sb, arms, other in flow.switch_on(task, vl):
                ok_t = arms.get("0")
    for w in writes:
        R.check(ok_t is not None and task.dominates(ok_t, w.bb), "C04.R4", "task:write-after-accepted#%d" % sorted(x.bb for x in writes).index(w.bb), "the close notification is sent only after the subscription was accepted", "a close notification can be sent for a subscription that was rejected or never accepted", where(w))
    wmap = {}
    for w in writes:
        wmap[w.bb] = wmap.get(w.bb, 0) + 1
    pc = flow.path_counts(task, 0, wmap)
    R.paths_enumerated += 1
    R.check(pc is not None and pc[1] <= 1, "C04.R4", "task:at-most-one-close", "at most one close notification per path (%s)" % (pc,), "the close task can send %s notifications" % (pc,), "%s:%d" % (task.file, task.lo))
    # the response future: accepted_tx.send dominated by is_success
    R.fn(rf)
    at = rf.calls_to(r"oneshot::Sender::<.*>::send$")
    suc = rf.calls_to(r"MethodResponse::is_success$")
    R.check(len(at) == 1 and len(suc) == 1, "C04.R4", "response-future:shape", "accepted_tx.send guarded by is_success", "response future changed: %d sends, %d is_success" % (len(at), len(suc)), "%s:%d" % (rf.file, rf.lo))
    for a in at:
        ok = False
        for c in suc:
            for sb, arms, other in flow.switch_on(rf, c.dest["l"]):
                tt = other if "0" in arms else arms.get("1")
                if tt is not None and rf.dominates(tt, a.bb):
                    ok = True
        R.check(ok, "C04.R4", "response-future:accepted-only-on-success", "acceptance is signalled only for a successful subscribe response", "acceptance is signalled although the subscribe response is an error", where(a))
    # the sender signalled is the one whose receiver the task joins: both come from one oneshot::channel() in the parent
    par = F.parent_body(task)
    ch = [c for c in par.calls_to(r"oneshot::channel$")]
    R.check(len(ch) == 2, "C04.R4", "callback:two-channels", "one channel for the response, one for the acceptance", "%d oneshot channels in the subscription callback" % len(ch), "%s:%d" % (par.file, par.lo))
    # register_subscription_raw spawns/sends nothing
    raw = F.find(r"^jsonrpsee_core::server::rpc_module::RpcModule::<Context>::register_subscription_raw::\{closure#0\}")
    bad = [c for b in raw for c in b.calls_to(r"MethodSink::(send|try_send|send_timeout)$|sub_message_to_json$|sub_err_to_json$")]
    R.check(not bad, "C04.R4", "raw:no-close-notification", "register_subscription_raw sends no close notification", "register_subscription_raw sends notifications itself", where(bad[0]) if bad else None)


def r5_unsubscribe_key(ctx):
    F, R = ctx.F, ctx.R
    tr = ctx.tracer(follow_callers=False, follow_fields=False)
    cb = F.one(r"^jsonrpsee_core::server::rpc_module::RpcModule::<Context>::verify_and_register_unsubscribe::\{closure#0\}$")
    R.fn(cb)
    rem = cb.calls_to(r"HashMap::<.*>::remove$")
    R.check(len(rem) == 1, "C04.R5", "unsubscribe:one-removal", "unsubscribe removes one key", "unsubscribe has %d removals" % len(rem), "%s:%d" % (cb.file, cb.lo))
    for r in rem:
        lv = tr.origins(cb, r.args[1])
        for l in lv:
            if l.kind == "agg" and l.detail.get("adt", "").endswith("SubscriptionKey"):
                ops = dict(zip(l.detail["fields"], l.detail["ops"]))
                lc = tr.origins(cb, ops["conn_id"])
                ls = tr.origins(cb, ops["sub_id"])
                R.check(bool(lc) and all(x.kind == "param" and (x.detail.get("ty") or "").endswith("ConnectionId") for x in lc), "C04.R5", "unsubscribe:key-conn", "the key's connection is the caller's", "unsubscribe removes a key of connection %s" % [flow.leaf_str(x) for x in lc], where(r))
                R.check(any(x.kind == "call" and re.search(r"Params::<'.*>::one$", x.detail["callee"] or "") for x in ls), "C04.R5", "unsubscribe:key-sub-id", "the key's id is the one parsed from the params", "unsubscribe removes id %s" % [flow.leaf_str(x) for x in ls], where(r))
        R.check(any(l.kind == "agg" and l.detail.get("adt", "").endswith("SubscriptionKey") for l in lv), "C04.R5", "unsubscribe:key-built", "the key is (conn_id, sub_id)", "the removal key is %s" % [flow.leaf_str(l) for l in lv], where(r))


def r5b_unsubscribe_key_not_rebuilt(ctx):
    from .common import server_unsubscribe_key_is_the_decoded_id

    server_unsubscribe_key_is_the_decoded_id(ctx, "C04.R5")


def r12_unsubscribe_ends_the_subscription_before_it_answers(ctx):
    """a successful unsubscribe call closes the subscription *then and there*: the table entry it removes (the sender
    whose drop is what makes the sink report closed) dies inside the handler, before the `true` is even built. Nothing is
    spawned from the handler and the removed entry is not captured by a future / closure or handed to another function -
    an entry that is dropped later (after the reply was flushed, after a timer) leaves a window in which the call has
    succeeded but is_closed() is false and sends are still accepted and delivered"""
    F, R = ctx.F, ctx.R
    cb = F.one(r"^jsonrpsee_core::server::rpc_module::RpcModule::<Context>::verify_and_register_unsubscribe::\{closure#0\}$")
    R.fn(cb)
    bodies = F.nested(cb)
    sp = [c for x in bodies for c in x.calls_to(r"^tokio::(task::)?(spawn|spawn_local|spawn_blocking)$|Handle::spawn$|JoinSet::<.*>::spawn$")]
    R.check(not sp, "C04.R12", "unsubscribe:spawns-nothing", "the unsubscribe handler spawns nothing", "the unsubscribe handler spawns a task (%s): whatever ends the subscription there happens after the call was answered" % sorted({short(c.name()) for c in sp}), where(sp[0]) if sp else None)
    n = 0
    for r in cb.calls_to(r"HashMap::<.*>::(remove|remove_entry)$"):
        n += 1
        holders = follow_value(cb, r.dest["l"])
        kept = []
        for bi, blk in enumerate(cb.blocks):
            if bi not in cb.reachable or blk.get("cleanup"):
                continue
            for st in blk["st"]:
                if st["s"] == "assign" and st["rv"]["k"] == "agg" and st["rv"].get("ak") in ("closure", "coroutine", "coroutine_closure"):
                    if any(op_place(o) is not None and op_place(o)["l"] in holders for o in st["rv"]["ops"]):
                        kept.append("%s:%d" % (cb.file, st["sp"][0]))
        R.check(not kept, "C04.R12", "unsubscribe:removed-entry-dies-here", "the removed entry is dropped inside the handler", "the entry removed by the unsubscribe handler is captured by a future / closure (at %s) instead of being dropped: the subscription is closed only when that runs, after the call has already answered `true`" % kept, where(r))
    R.floor("C04.R12", n, 1, "removals in the unsubscribe handler")


def r13_writer_ends_when_its_connection_does(ctx):
    """(= C10.R3) the writer task watches the stop signal - also when the sender is merely dropped (the low-level
    connection future was dropped): its end closes the queue, which is what makes the sinks report closed"""
    from . import c10
    c10.r3_writer_stops_last(ctx)


def r6_single_writer(ctx):
    F, R = ctx.F, ctx.R
    # the per-connection receiver created next to the MethodSink is moved into exactly one place: send_task (via BackgroundTaskParams)
    st = F.one(r"^jsonrpsee_server::transport::ws::send_task::\{closure#0\}$")
    R.fn(st)
    consumers = []
    for b in F.real_bodies():
        if b.crate != SERVER or is_test_body(b):
            continue
        for c in b.calls_to(r"ReceiverStream::<.*>::new$|mpsc::.*Receiver::<.*>::(recv|poll_recv|try_recv)$"):
            ty = " ".join(c.ga) + (c.self_ty or "")
            if "RawValue" in ty:
                consumers.append(fkey(b))
    R.check(sorted(set(consumers)) == ["jsonrpsee_server::transport::ws::send_task::{closure#0}"], "C04.R6", "single-writer", "the connection queue has one consumer (ws::send_task)", "the connection queue is consumed in %s" % sorted(set(consumers)), "%s:%d" % (st.file, st.lo))
    spawns = [c for c in F.all_calls(r"ws::send_task$") if c.body.crate == SERVER]
    R.check(len(spawns) == 1, "C04.R6", "send_task:spawned-once", "send_task is started once per connection", "send_task is started at %d sites" % len(spawns), None)
    # the connection's end closes the queue: the connection task joins the writer (which owns the receiver) before it
    # finishes, so once the connection ended / the server reported stopped every sink reports closed
    g = F.one(r"^jsonrpsee_server::transport::ws::graceful_shutdown::\{closure#0\}$")
    R.fn(g)
    jh = [c for c in g.calls_to(r"IntoFuture::into_future$") if "JoinHandle" in (c.self_ty or "") + " ".join(c.ga)]
    R.check(bool(jh), "C04.R6", "writer-joined-at-connection-end", "the connection task waits for the writer task (owner of the queue's receiver) to end", "the connection task no longer joins the writer task: the connection can end (and the server report stopped) while the queue's receiver is still open, so sinks do not report closed and sends are still accepted", "%s:%d" % (g.file, g.lo))
    bt = F.one(r"^jsonrpsee_server::transport::ws::background_task::\{closure#0\}$")
    gs = bt.calls_to(r"ws::graceful_shutdown$")
    tr = ctx.tracer(follow_callers=False, follow_fields=False)
    okh = False
    for c in gs:
        for a in c.args:
            lv = list(tr.origins(bt, a))
            # the arguments may travel in a parameter struct
            for l in list(lv):
                if l.kind == "agg" and l.detail.get("ops"):
                    for o in l.detail["ops"]:
                        lv += tr.origins(F.bodies[l.where], o)
            for l in lv:
                if l.kind == "call" and re.search(r"tokio::(task::)?spawn$", l.detail["callee"] or ""):
                    okh = True
    R.check(okh, "C04.R6", "writer-handle-passed", "the handle joined is the one of the spawned send_task", "graceful_shutdown is not given the JoinHandle of the spawned writer task", where(gs[0]) if gs else None)


def r7_envelope_is_fresh(ctx):
    """the notification envelope is built for *this* subscription at every send: what sub_message_to_json /
    sub_err_to_json return is either the caller's complete message or a fresh serde_json::value::to_raw_value of a
    Notification whose method is the `method` parameter and whose payload carries the `sub_id` parameter - never a value
    that outlives the call (a cache shared by clones of the message would hand one subscription's envelope, with its id
    and method name, to another subscription)"""
    F, R = ctx.F, ctx.R
    tr = ctx.tracer(follow_callers=False, follow_fields=False, inline_calls=False)
    n = 0
    for fn_, payload in (("sub_message_to_json", "SubscriptionPayload"), ("sub_err_to_json", "SubscriptionPayloadError")):
        b = F.one(r"^jsonrpsee_core::server::subscription::%s$" % fn_)
        R.fn(b)
        n += 1
        lv = tr.origins(b, {"cp": {"l": 0}})
        bad = []
        fresh = False
        for l in lv:
            if l.kind == "call" and re.search(r"^serde_json::value::to_raw_value$", l.detail["callee"] or "") and l.where == b.path:
                fresh = True
            elif l.kind == "field" and l.detail["idx"] == 1:
                pass   # the Complete(msg) arm: the caller's own bytes
            else:
                bad.append(flow.leaf_str(l)[:80])
        R.check(fresh and not bad, "C04.R7", "%s:envelope-built-per-call" % fn_, "%s returns a freshly serialised envelope (or the caller's complete message)" % fn_, "%s returns %s: the envelope is not (only) serialised from this call's subscription id and method - a value shared between calls carries another subscription's id and method name" % (fn_, bad or "no fresh serialisation"), "%s:%d" % (b.file, b.lo))
        # the envelope's operands are this call's parameters
        aggs = [st for blk in b.blocks for st in blk["st"] if st["s"] == "assign" and st["rv"]["k"] == "agg" and st["rv"].get("adt", "").endswith(payload)]
        for st in aggs:
            op = st["rv"]["ops"][st["rv"]["fields"].index("subscription")]
            l2 = tr.origins(b, op)
            R.check(bool(l2) and all(x.kind == "param" and x.detail["idx"] == 2 for x in l2), "C04.R7", "%s:payload-carries-own-id" % fn_, "the payload's subscription member is the sub_id parameter", "%s puts %s into the payload's subscription member" % (fn_, [flow.leaf_str(x) for x in l2]), "%s:%d" % (b.file, st["sp"][0]))
        R.check(bool(aggs), "C04.R7", "%s:payload-built" % fn_, "the payload is built in %s" % fn_, "%s no longer builds a %s" % (fn_, payload), "%s:%d" % (b.file, b.lo))
        for c in b.calls_to(r"Notification::<.*>::new$"):
            l3 = tr.origins(b, c.args[0])
            R.check(bool(l3) and all(x.kind == "param" and x.detail["idx"] == 3 for x in l3), "C04.R7", "%s:method-is-own" % fn_, "the notification's method is the method parameter", "%s names the notification %s" % (fn_, [flow.leaf_str(x) for x in l3]), where(c))
    R.floor("C04.R7", n, 2, "notification envelope builders")


def r8_sibling_registrars(ctx):
    """register_subscription and register_subscription_raw give the sink the same names (C13.R6)"""
    from .common import sibling_param_agreement
    M = r"^jsonrpsee_core::server::rpc_module::RpcModule::<Context>::%s$"
    sibling_param_agreement(ctx, "C04.R8", (("register_subscription", M % "register_subscription"), ("register_subscription_raw", M % "register_subscription_raw")), 3)



def rflag_success_flag_matches_json(ctx):
    """is_success() agrees with what was serialised (error replacements are flagged Failed)"""
    from .common import response_flag_matches_json
    response_flag_matches_json(ctx, "C04.FLAG")


def r9_low_level_connection_is_driven_by_its_future(ctx):
    """`ws::connect` documents that the connection lives as long as the future it returns is polled: dropping that future
    is how an application closes a connection from the server side (and makes its sinks report closed). So in ws::connect
    the connection task (background_task) is awaited inside the returned future, never handed to tokio::spawn."""
    F, R = ctx.F, ctx.R
    bodies = []
    for b in F.find(r"^jsonrpsee_server::transport::ws::connect$"):
        bodies += F.nested(b)
    calls = [(x, c) for x in bodies for c in x.calls_to(r"transport::ws::background_task$")]
    if not calls:
        raise AnchorLost("background_task call in ws::connect")
    for x, c in calls:
        R.fn(x)
        holders = follow_value(x, c.dest["l"])
        spawned = [s for s in x.calls_to(r"^tokio::(task::)?spawn$|Handle::spawn$|JoinSet::<.*>::spawn$") if s.args and op_place(s.args[-1]) is not None and op_place(s.args[-1])["l"] in holders]
        awaited = [a for a in x.calls_to(r"IntoFuture::into_future$") if op_place(a.args[0]) is not None and op_place(a.args[0])["l"] in holders]
        R.check(bool(awaited) and not spawned, "C04.R9", "ws::connect:connection-awaited-inline", "the connection task is awaited inside the future returned by ws::connect", "ws::connect hands the connection task to %s instead of awaiting it inside the returned future: dropping that future no longer ends the connection, so after a server-side disconnect the sink never reports closed and notifications keep being delivered" % (sorted({short(s.name()) for s in spawned}) or "something else"), where(c))


def r10_lossy_sends_are_the_api_only(ctx):
    """`MethodSink::try_send` (drops the message when the connection queue is full) is reachable only through the public
    SubscriptionSink::try_send, where the caller asked for exactly that; the library's own sends (responses, closing
    notifications, rejections) use the waiting send"""
    F, R = ctx.F, ctx.R
    n = 0
    for c in F.all_calls(r"server::(helpers::)?MethodSink::try_send$"):
        if c.body.crate not in (CORE, SERVER) or is_test_body(c.body):
            continue
        n += 1
        R.check(bool(re.search(r"^jsonrpsee_core::server::subscription::SubscriptionSink::try_send$", c.body.path)), "C04.R10", "try_send-caller:%s" % fkey(c.body), "MethodSink::try_send is used by SubscriptionSink::try_send", "%s sends on the connection queue with try_send: when the queue is full the message (a notification the handler produced, a closing value, a rejection) is silently dropped" % short(c.body.path), where(c))
    R.floor("C04.R10", n, 1, "callers of MethodSink::try_send")
    # ... and inside the sink itself the non-waiting channel operations live in MethodSink::try_send only: send / send_error
    # / send_timeout wait for room (a `try_send` whose `Full` is mapped to Ok drops replies under back-pressure)
    m = 0
    for b in F.real_bodies():
        if b.crate != CORE or is_test_body(b) or not re.search(r"^jsonrpsee_core::server::helpers::MethodSink::", b.path):
            continue
        m += 1
        for c in b.calls_to(r"mpsc::(bounded::)?Sender::<.*>::(try_send|try_reserve\w*)$"):
            R.check(bool(re.search(r"MethodSink::try_send$", b.path)), "C04.R10", "sink-nonwaiting:%s" % fkey(b), "the non-waiting channel send is MethodSink::try_send's", "%s puts its message on the connection queue with a non-waiting %s: when the queue is full the message (an error reply, a response) is dropped although the caller was told it was sent" % (short(b.path), (c.name() or "").split("::")[-1]), where(c))
    R.floor("C04.R10.sink", m, 6, "MethodSink bodies")



def r11_returned_messages_are_complete(ctx):
    """a message the connection queue hands back (queue full / timed out / closed) already carries its envelope
    (subscription id + method): everywhere in the connection-sink layer (server::helpers, server::error) such a message is
    wrapped with SubscriptionMessage::from_complete_message - never with the `From<Box<RawValue>>` conversion, which marks
    it as bare payload so that a handler that re-sends it gets it wrapped a second time"""
    F, R = ctx.F, ctx.R
    n = 0
    for b in F.real_bodies():
        if b.crate != CORE or is_test_body(b) or not re.search(r"jsonrpsee_core::server::(helpers|error)::|for jsonrpsee_core::server::(error|helpers)::", b.path):
            continue
        n += 1
        for c in b.calls:
            nm = c.name() or ""
            into_msg = re.search(r"SubscriptionMessage as std::convert::From<std::boxed::Box<serde_json::value::RawValue>>>::from$", nm) or (re.search(r"Into>?::into$", c.callee or "") and c.dest and "SubscriptionMessage" in b.locals[c.dest["l"]]["ty"] and c.args and op_place(c.args[0]) is not None and "RawValue" in b.locals[op_place(c.args[0])["l"]]["ty"])
            if into_msg:
                # only messages that came back from the queue matter (has_capacity builds a fresh `null` placeholder)
                lv = ctx.tracer(follow_callers=False, follow_fields=False).origins(b, c.args[0])
                from_queue = any((l.kind == "call" and re.search(r"mpsc::.*Sender::<.*>::(send|try_send|send_timeout|reserve\w*)$|Future::poll$|IntoFuture::into_future$", l.detail["callee"] or "")) or l.kind in ("param", "field", "resume") for l in lv)
                if not from_queue:
                    continue
                R.bad("C04.R11", "%s:bare-conversion" % fkey(b), "%s turns a message returned by the connection queue into a SubscriptionMessage with the bare-payload conversion: the message already carries its id/method envelope, a handler that re-sends it has it enveloped twice (the notification's result is a whole notification)" % short(b.path), where(c))
    R.ok("C04.R11", "returned-messages-complete", "no bare-payload conversion of returned messages in %d sink-layer bodies" % n)
    R.floor("C04.R11", n, 8, "bodies of the connection-sink layer")


def rgen_generated_subscriptions(ctx):
    """the names the #[rpc] macro gives a subscription's notifications (namespace, override) are the declared ones
    (= C17.W1 over the generated corpus)"""
    from . import c17
    return c17.w_rules(ctx)


def rstop_server_stop_is_reported_after_the_drain(ctx):
    """`closed by the server stopping`: ServerHandle::stopped() resolves when every StopHandle is gone, so a connection keeps
    its handle until its pending calls are answered and its writer has ended - only then do sinks report closed (= C10.R1)"""
    from . import c10
    c10.r1_who_keeps_stopped_pending(ctx)



def rjson_notifications_are_serialised_by_serde(ctx):
    """`every notification carries that subscription's own id and notification method name`: the envelope is serialised by
    serde_json from the typed SubscriptionResponse (which escapes the id and the name) - no string assembled by hand is
    declared to be JSON outside the vetted assemblers (= C15.R6)"""
    from . import c15
    c15.r6_no_handmade_json(ctx)


LIB_RULES = [rjson_notifications_are_serialised_by_serde, rstop_server_stop_is_reported_after_the_drain, r1_typestate, r2_closed_check_first, r3_identity, r4_close_gating, r5_unsubscribe_key, r5b_unsubscribe_key_not_rebuilt, r12_unsubscribe_ends_the_subscription_before_it_answers, r13_writer_ends_when_its_connection_does, r6_single_writer, r7_envelope_is_fresh, r8_sibling_registrars, r9_low_level_connection_is_driven_by_its_future, r10_lossy_sends_are_the_api_only, rflag_success_flag_matches_json, r11_returned_messages_are_complete]
CONFIGS_QUICK = ["libs-all", "corpus"]
CONFIGS_THOROUGH = ["libs-all", "facade-full", "corpus"]


def _only(cfgs, rule):
    def run(ctx):
        if ctx.config in cfgs:
            return rule(ctx)
    run.__name__ = rule.__name__
    return run


RULES = [_only(("libs-all", "facade-full"), r) for r in LIB_RULES] + [_only(("corpus",), rgen_generated_subscriptions)]

LEVEL_TEXT = (
    "Structural necessary conditions of the subscription notification contract decided from the type-checked program: "
    "the typestate that makes a notification before the accept response impossible (single construction site, dominated by "
    "the enqueued response), closed-check-first in all three sibling send methods, identity of the id/method operands of "
    "every notification builder, gating and at-most-once of the close notification, the unsubscribe key, single consumer."
)
LEVEL_NOTE = "Trusted: rustc MIR; tokio channels; futures try_join. Not decided: interleavings, the is_closed/enqueue TOCTOU (allowed by the statement)."
TECHNIQUE = "typestate via construction-site dominance + sibling cross-check + MIR origin tracing + path counting"

WITNESSES = {"C04PendingCannotSend": ("E0599", "no notification method on a pending sink"), "C04SinkNotConstructible": ("E0451", "SubscriptionSink has private fields")}

"""C11 — connections never exceed max_connections; slots are reused (structural clauses)."""
import re

from .common import (control, fkey, where, short, arg_is_local, follow_value, block_line, terminal_field, awaited_value_local, classify_config_leaves, forget_scan, drop_sites, SERVER, CORE)
from ..facts import op_place, op_const, AnchorLost, is_test_body
from .. import flow

PID = "C11"
LEVEL = "other"
EXPLANATION = (
    'Static analysis over MIR of the server crate. Decided: R1 in TowerServiceNoHttp::call every construction of an '
    'RpcService, every spawn and every future that serves the request is dominated by the Some arm of '
    'ConnectionGuard::try_acquire; the None arm returns too_many_requests() (HTTP 429) and reaches nothing else; R2 '
    'the ConnectionState (owner of the permit) is held until the work is done: in every future that owns one and '
    "awaits the request's work (http::call_with_service, ws::graceful_shutdown) each drop site of the state that can "
    "follow the start of the work is dominated by the work's completion, and no drop site precedes the work on a path "
    'that reaches it (siblings: tower service HTTP arm, call_with_service_builder, ws::background_task); R3 no '
    'forget-like or add_permits call in server/core; R4 ConnectionGuard::new receives ServerConfig.max_connections in '
    'start_inner and to_service_builder and sizes its semaphore with exactly that number; a slot is an owned permit '
    'acquired without blocking. R4 also requires that a max_connections setter of a type owning a ConnectionGuard '
    'rebuilds that guard; R5 Receive::Stopped is produced only on the select arm where the stop future completed (a '
    'server-side close such as missed pings must end the connection task at once); CFG max_connections reaches '
    'ServerConfig verbatim. NOT decided: the instant-by-instant count (tokio semaphore), aborted-task timing.'
)
RULE_TEXT = "instances = serving constructs vs. the acquire arm, drop sites of ConnectionState vs. completion of the work, forbidden-call scan, limit provenance"
TRUSTED = ["rustc MIR", "tokio Semaphore / OwnedSemaphorePermit RAII", "hyper drops a cancelled response future"]
ASSUMPTIONS = []

TCALL = r"^<jsonrpsee_server::server::TowerServiceNoHttp<RpcMiddleware> as tower::Service<hyper::Request<Body>>>::call$"


def _serving(F, body):
    """does this (closure) body, transitively through nested closures, serve the request?"""
    for b in F.nested(body):
        if b.calls_to(r"http::call_with_service$|ws::background_task$|server::handle_rpc_call$|hyper::upgrade::on$"):
            return True
    return False


def r1_gate(ctx):
    F, R = ctx.F, ctx.R
    b = F.one(TCALL)
    R.fn(b)
    acq = b.calls_to(r"ConnectionGuard::try_acquire$")
    R.check(len(acq) == 1, "C11.R1", "one-acquire", "one try_acquire site per request", "%d try_acquire sites" % len(acq), "%s:%d" % (b.file, b.lo))
    if not acq:
        return
    a = acq[0]
    some_t = none_t = None
    for sb, arms, other in flow.switch_on(b, a.dest["l"]):
        some_t = arms.get("1")
        none_t = other if "1" in arms and "0" not in arms else arms.get("0")
    if some_t is None or none_t is None:
        raise AnchorLost("match on try_acquire() in TowerServiceNoHttp::call")
    n = 0
    for c in b.calls_to(r"rpc::RpcService::new$|^tokio::spawn$|^tokio::task::spawn$|ConnectionState::new$|soketto::handshake::http::Server::receive_request$"):
        n += 1
        R.check(b.dominates(some_t, c.bb), "C11.R1", "after-acquire:%s#%d" % (c.name().split("::")[-1], sorted(x.bb for x in b.calls_to(re.escape(c.name()) + "$")).index(c.bb)), "%s happens only with a connection slot" % short(c.name()), "%s is reachable without a connection slot: a connection beyond max_connections is served" % short(c.name()), where(c))
    for bi, blk in enumerate(b.blocks):
        if blk.get("cleanup") or bi not in b.reachable:
            continue
        for st in blk["st"]:
            if st["s"] == "assign" and st["rv"]["k"] == "agg" and st["rv"]["ak"] in ("coroutine", "closure"):
                cb = F.bodies.get(st["rv"]["def"])
                if cb is not None and _serving(F, cb):
                    n += 1
                    R.check(b.dominates(some_t, bi), "C11.R1", "after-acquire:future:%s" % fkey(cb).split("::")[-1], "the serving future is built only with a connection slot", "a future that serves the request is built without a connection slot", "%s:%d" % (b.file, st["sp"][0]))
    R.floor("C11.R1", n, 6, "serving constructs in TowerServiceNoHttp::call")
    # ... and that is the only admission point: nothing else in the server takes a slot or builds a ConnectionState (a
    # slot given back after the handshake and taken again once the upgrade completed leaves a window in which an admitted
    # connection holds no slot: another one is admitted in its place, and one of the two is later dropped without a 429)
    others = [c for c in F.all_calls(r"ConnectionGuard::try_acquire$|ConnectionState::new$", crates=(SERVER,)) if c.body.path != b.path]
    R.check(not others, "C11.R1", "single-admission-point", "slots are taken in TowerServiceNoHttp::call only", "a connection slot is taken / a ConnectionState is built outside the admission point (%s): a connection is served for a while without holding the slot it was admitted with" % sorted({short(c.body.path) for c in others}), where(others[0]) if others else None)
    early = [c for c in b.calls_to(r"^std::mem::drop$|^core::mem::drop$") if c.args and op_place(c.args[0]) is not None and b.locals[op_place(c.args[0])["l"]]["ty"] in ("jsonrpsee_server::server::ConnectionState", "tokio::sync::OwnedSemaphorePermit")]
    R.check(not early, "C11.R1", "slot-not-given-back-at-admission", "the admission point hands the slot on, it does not release it", "TowerServiceNoHttp::call drops the ConnectionState / permit it has just acquired: what it starts afterwards runs without a connection slot", where(early[0]) if early else None)
    # None arm: 429 only
    reach = {x for x in (b.reach_from(none_t) | {none_t}) if b.dominates(none_t, x)}
    futs = []
    for bi in reach:
        for st in b.blocks[bi]["st"]:
            if st["s"] == "assign" and st["rv"]["k"] == "agg" and st["rv"]["ak"] in ("coroutine", "closure"):
                futs.append(F.bodies.get(st["rv"]["def"]))
    ok429 = any(f is not None and f.calls_to(r"response::too_many_requests$") for f in futs)
    R.check(ok429, "C11.R1", "refused:429", "a refused connection is answered with too_many_requests()", "the refused arm does not answer too_many_requests()", "%s:%d" % (b.file, block_line(b, none_t)))
    bad = [f for f in futs if f is not None and _serving(F, f)]
    R.check(not bad, "C11.R1", "refused:serves-nothing", "the refused arm serves nothing", "the refused arm builds a serving future", "%s:%d" % (b.file, block_line(b, none_t)))
    tm = F.one(r"^jsonrpsee_server::transport::http::response::too_many_requests$")
    ok = any(op_const(x) and op_const(x).get("name", "").endswith("TOO_MANY_REQUESTS") for c in tm.calls for x in c.args)
    R.check(ok, "C11.R1", "refused:status", "too_many_requests() is HTTP 429", "too_many_requests() does not use StatusCode::TOO_MANY_REQUESTS", "%s:%d" % (tm.file, tm.lo))
    # the permit goes into the ConnectionState
    tr = ctx.tracer(follow_callers=False, follow_fields=False)
    for c in b.calls_to(r"ConnectionState::new$"):
        lv = tr.origins(b, c.args[2])
        R.check(any(l.kind == "call" and l.detail["bb"] == a.bb for l in lv), "C11.R1", "state-owns-permit", "the ConnectionState owns the acquired permit", "ConnectionState::new does not receive the acquired permit", where(c))


def r2_hold_until_done(ctx):
    F, R = ctx.F, ctx.R
    n = 0
    WORK = r"http::call_with_service$|ws::graceful_shutdown$"
    for b in F.real_bodies():
        if b.crate != SERVER or is_test_body(b):
            continue
        if not any("jsonrpsee_server::server::ConnectionState" == l["ty"] for l in b.locals):
            continue
        works = b.calls_to(WORK)
        if not works:
            continue
        R.fn(b)
        sites = drop_sites(b, "jsonrpsee_server::server::ConnectionState")
        if not sites:
            R.bad("C11.R2", "%s:no-drop-site" % fkey(b), "%s owns a ConnectionState and awaits the work but the state is never dropped here" % short(b.path), "%s:%d" % (b.file, b.lo))
            continue
        for w in works:
            n += 1
            vl, ready = awaited_value_local(b, w)
            if ready is None:
                ready = flow.await_ready_block(b, w)
            if ready is None:
                R.anchor_lost("C11.R2", "awaited %s in %s" % (short(w.name()), b.path))
                continue
            for bb, kind, loc in sites:
                if bb == w.bb:
                    continue
                if b.can_reach(w.bb, bb):
                    R.check(b.dominates(ready, bb), "C11.R2", "%s:held-until-%s-done:%s" % (fkey(b), w.name().split("::")[-1], kind), "the connection slot is held until %s completed" % w.name().split("::")[-1], "the ConnectionState (connection slot) can be released (%s) while %s is still running: more than max_connections connections are served at once" % (kind, w.name().split("::")[-1]), loc)
                elif b.can_reach(bb, w.bb):
                    R.bad("C11.R2", "%s:dropped-before-%s:%s" % (fkey(b), w.name().split("::")[-1], kind), "the ConnectionState is released (%s) before %s starts" % (kind, w.name().split("::")[-1]), loc)
    R.floor("C11.R2", n, 3, "futures that own a ConnectionState and await the request's work")
    # the work runs inside the future that owns the slot: it is never detached onto another task
    for b in F.real_bodies():
        if b.crate != SERVER or is_test_body(b):
            continue
        for w in b.calls_to(WORK):
            holders = follow_value(b, w.dest["l"])
            sp = [c for c in b.calls_to(r"^tokio::spawn$|^tokio::task::spawn$|spawn_blocking$|^tokio::task::spawn_local$") if any(arg_is_local(b, c.args[0], h) for h in holders)]
            R.check(not sp, "C11.R2", "%s:%s-not-detached" % (fkey(b), w.name().split("::")[-1]), "%s is awaited by the future that owns the connection slot" % w.name().split("::")[-1], "%s is spawned onto a detached task in %s: when the request future is dropped (client abort) the slot is released while the handler keeps running" % (w.name().split("::")[-1], short(b.path)), where(w))
    # nobody but the ConnectionState holds the connection permit: no clone of the permit (or of the whole state) is made
    # in the server crate (a clone captured by a call task keeps the slot after the connection ended)
    _permit_clone_scan(F, R, (SERVER,))
    # background_task receives the state inside its params and nothing moves it elsewhere
    bt = F.one(r"^jsonrpsee_server::transport::ws::background_task::\{closure#0\}$")
    moved = [c for c in bt.calls if c.name() != "std::mem::drop" and any(op_place(a) is not None and not op_place(a).get("p") and bt.locals[op_place(a)["l"]]["ty"] == "jsonrpsee_server::server::ConnectionState" and "mv" in a for a in c.args)]
    R.check(not moved, "C11.R2", "background_task:state-not-moved-away", "background_task keeps the ConnectionState itself", "background_task moves the ConnectionState into %s" % [short(c.name()) for c in moved], "%s:%d" % (bt.file, bt.lo))


def _permit_clone_scan(F, R, crates):
    clones = []
    for b in F.real_bodies():
        if b.crate not in crates or is_test_body(b):
            continue
        derived = b.path.endswith("::clone") and (b.impl_trait or "").endswith("Clone")
        for c in b.calls:
            if (c.callee or "").endswith("Clone::clone") and not c.exp:
                st_ = c.self_ty or ""
                if ("OwnedSemaphorePermit" in st_ or st_ == "jsonrpsee_server::server::ConnectionState") and not derived:
                    clones.append(c)
    R.check(not clones, "C11.R2", "permit-not-cloned", "the connection permit / ConnectionState is never cloned inside the server", "the connection permit (or the ConnectionState that owns it) is cloned in %s: whoever holds the clone keeps the connection slot after the connection finished" % [fkey(c.body) for c in clones], where(clones[0]) if clones else None)


def r3_no_forget(ctx):
    forget_scan(ctx.F, ctx.R, "C11.R3", (SERVER, CORE))


def r4_limit_provenance(ctx):
    F, R = ctx.F, ctx.R
    tr = ctx.tracer()
    sites = [c for c in F.all_calls(r"future::ConnectionGuard::new$|server::ConnectionGuard::new$|ConnectionGuard::new$") if c.body.crate == SERVER]
    R.floor("C11.R4", len(sites), 3, "ConnectionGuard::new sites")
    for c in sites:
        R.fn(c.body)
        key = fkey(c.body) + ":limit"
        leaves = tr.origins(c.body, c.args[0])
        if fkey(c.body).endswith("TowerServiceBuilder::max_connections"):
            ok = bool(leaves) and all(l.kind in ("param",) for l in leaves)
            R.check(ok, "C11.R4", key, "the setter passes its own parameter", "TowerServiceBuilder::max_connections passes %s" % [flow.leaf_str(l) for l in leaves], where(c))
            continue
        good, bad, sk = classify_config_leaves(leaves, "max_connections", ("jsonrpsee_server",))
        if bad or not good:
            R.bad("C11.R4", key, "connection limit: %s" % ("; ".join(w for _, w in bad) or "no origin in max_connections"), where(c))
        else:
            R.ok("C11.R4", key, "the connection limit is ServerConfig.max_connections", where(c))
    # every public way of setting the connection limit reaches the guard that enforces it: a `max_connections` setter of
    # a type that owns a ConnectionGuard must rebuild that guard (the guard, not ServerConfig.max_connections, is what
    # TowerServiceNoHttp::call consults)
    for b in F.real_bodies():
        if b.crate != SERVER or is_test_body(b) or not b.path.endswith("::max_connections") or b.kind != "AssocFn":
            continue
        adt = F.adt((b.impl_self or "").split("<")[0])
        if adt is None or not any("ConnectionGuard" in (f_.get("ty") or "") for f_ in adt["variants"][0]["fields"]):
            continue
        R.fn(b)
        has = [c for c in sites if c.body.path == b.path]
        R.check(bool(has), "C11.R4", "%s:rebuilds-guard" % fkey(b), "%s rebuilds the ConnectionGuard it owns" % short(b.path), "%s owns the ConnectionGuard that enforces the limit but does not rebuild it: the limit set here is ignored and the guard created earlier (default 100) keeps deciding" % short(b.path), "%s:%d" % (b.file, b.lo))
    nb = F.one(r"^jsonrpsee_server::future::ConnectionGuard::new$")
    trl = ctx.tracer(follow_callers=False, follow_fields=False)
    sem = nb.calls_to(r"Semaphore::new$")
    R.check(len(sem) == 1, "C11.R4", "new:semaphore", "one semaphore", "%d Semaphore::new sites" % len(sem), "%s:%d" % (nb.file, nb.lo))
    for s in sem:
        lv = trl.origins(nb, s.args[0])
        ok = bool(lv) and all(l.kind == "param" and l.detail["idx"] == 1 for l in lv)
        R.check(ok, "C11.R4", "new:semaphore-size", "the semaphore has exactly `limit` permits", "the semaphore is sized by %s" % [flow.leaf_str(l) for l in lv], where(s))
    ta = F.one(r"^jsonrpsee_server::future::ConnectionGuard::try_acquire$")
    R.check(bool(ta.calls_to(r"Semaphore::try_acquire_owned$")), "C11.R4", "try_acquire:owned-nonblocking", "a slot is an owned permit acquired without waiting", "ConnectionGuard::try_acquire no longer uses Semaphore::try_acquire_owned", "%s:%d" % (ta.file, ta.lo))
    # the guard used by process_connection / the tower service is the one created from the config (not a fresh one per connection)
    per_conn = [c for c in sites if re.search(r"process_connection|TowerServiceNoHttp", c.body.path)]
    R.check(not per_conn, "C11.R4", "guard-not-per-connection", "the guard is shared by all connections", "a ConnectionGuard is created per connection in %s" % [fkey(c.body) for c in per_conn], None)



def r5_ws_close_reasons(ctx):
    """a connection the server gives up on (peer gone, read error, missed pings) is reported as *closed*, never as 'server
    stopped': only Receive::ConnectionClosed / Err make the connection task finish at once and free its slot, whereas
    Receive::Stopped makes it wait for every in-flight call. So Receive::Stopped is produced only on the arm of the
    select where the stop future itself completed."""
    F, R = ctx.F, ctx.R
    tr = ctx.tracer(follow_callers=False, follow_fields=False)
    b = F.one(r"^jsonrpsee_server::transport::ws::try_recv::\{closure#0\}$")
    R.fn(b)
    stops = [(bi, st) for bi, blk in enumerate(b.blocks) if bi in b.reachable and not blk.get("cleanup") for st in blk["st"]
             if st["s"] == "assign" and st["rv"]["k"] == "agg" and st["rv"].get("adt", "").endswith("ws::Receive") and st["rv"].get("variant") == "Stopped"]
    R.floor("C11.R5", len(stops), 1, "Receive::Stopped constructions in try_recv")
    # the outer select: the one whose second future is the stop future (try_recv's `stopped` argument, an upvar of the coroutine)
    right_t = set()
    for c in b.calls_to(r"future::select$"):
        ty = b.locals[op_place(c.args[1])["l"]]["ty"] if op_place(c.args[1]) is not None else ""
        # the stop future's type is the coroutine's generic S; the inner select's second argument is a stream `Next<..>`
        if "Next<" in ty or "Select<" in ty:
            continue
        vl, rblk = awaited_value_local(b, c)
        if vl is None:
            # select(..) is awaited through IntoFuture: find the await of its result
            for c2 in b.calls_to(r"IntoFuture::into_future$"):
                if arg_is_local(b, c2.args[0], c.dest["l"]):
                    vl, rblk = awaited_value_local(b, c2)
        if vl is None:
            continue
        for sb, arms, other in flow.switch_on(b, vl):
            t = arms.get("1") or (other if "0" in arms else None)
            if t is not None:
                right_t.add(t)
    if not right_t:
        raise AnchorLost("the arm of select(.., stopped) on which the stop future completed, in ws::try_recv")
    for bi, st in stops:
        R.check(any(b.dominates(t, bi) for t in right_t), "C11.R5", "try_recv:stopped-only-when-stop-future-completed", "Receive::Stopped is produced only when the stop future completed", "ws::try_recv reports `Stopped` on an arm where the server was not stopped (e.g. the missed-pings close): the connection task then waits for all in-flight calls before it ends, so a connection the server itself closed keeps its slot and new clients get 429", "%s:%d" % (b.file, st["sp"][0]))


HYPER_VETTED = {"new", "http2", "keep_alive_interval", "keep_alive_timeout", "serve_connection_with_upgrades", "graceful_shutdown", "serve_connection", "into_owned"}


def r6_vetted_transport_options(ctx):
    """a finished HTTP connection frees its slot because hyper drops the service future when the peer goes away; that
    behaviour belongs to hyper's connection options. The options the server sets on hyper's connection builder are a
    vetted, closed list (HTTP/2 keep-alive only): an option that changes when hyper notices a vanished peer
    (`http1().half_close(true)`: EOF is no longer watched while a request is in flight) makes an aborted request keep its
    slot for as long as its handler runs."""
    F, R = ctx.F, ctx.R
    n = 0
    for c in F.all_calls(r"^hyper_util::server::conn::auto::|^hyper::server::conn::"):
        if c.body.crate != SERVER or is_test_body(c.body):
            continue
        n += 1
        opt = (c.name() or "").split("::")[-1]
        R.check(opt in HYPER_VETTED, "C11.R6", "hyper-option:%s:%s" % (fkey(c.body), opt), "hyper connection option `%s` is on the vetted list" % opt, "%s sets the hyper connection option `%s`, which is not on the vetted list %s: options that change how hyper detects a closed peer or keeps a connection open decide when a connection's slot is freed" % (short(c.body.path), opt, sorted(HYPER_VETTED)), where(c))
    R.floor("C11.R6", n, 8, "hyper connection-builder calls in the server")


def rcfg_config_verbatim(ctx):
    """the configured `max_connections` reaches the ServerConfig unchanged (setter stores its argument, build()/Clone copy it)"""
    from .common import config_field_integrity
    config_field_integrity(ctx, "C11.CFG", "max_connections")



def rstatus_http_status_table(ctx):
    """the HTTP refusals relevant here carry their own status codes"""
    from .common import http_status_table
    http_status_table(ctx, "C11.STATUS", ('too_many_requests',))



def rloop_event_loops_keep_polling(ctx):
    """the loops that admit connections and release slots suspend only at vetted points"""
    from .common import event_loops_suspend_only_where_vetted
    event_loops_suspend_only_where_vetted(ctx, "C11.LOOP")
    from .common import teardown_waits_only_for_vetted_things
    teardown_waits_only_for_vetted_things(ctx, "C11.TEARDOWN")


def rspawn_vetted_spawn_sites(ctx):
    """work is detached only at the vetted sites"""
    from .common import vetted_spawns
    vetted_spawns(ctx, "C11.SPAWN")


RULES = [r1_gate, r2_hold_until_done, r3_no_forget, r4_limit_provenance, r5_ws_close_reasons, r6_vetted_transport_options, rcfg_config_verbatim, rstatus_http_status_table, rspawn_vetted_spawn_sites, rloop_event_loops_keep_polling]

LEVEL_TEXT = (
    "Structural necessary conditions of the connection cap decided from the type-checked program: the acquire arm "
    "dominates everything that serves, the refused arm is 429 and serves nothing, the permit owner is dropped only after "
    "the work completed in every sibling future (dominance over every drop site including scope-end drops), no "
    "forget-like call exists, and the limit's provenance and semaphore size are identity. The count itself is tokio's."
)
LEVEL_NOTE = "Trusted: rustc MIR; tokio Semaphore RAII; hyper drops cancelled futures. Not decided: the count at every instant."
TECHNIQUE = "dominance (acquire-before-serve, release-after-completion over all drop sites) + forbidden-call scan + provenance tracing"


def control_forget(ctx):
    control(ctx, "C11.R3", "mem::forget / add_permits / permit.forget", lambda r: forget_scan(ctx.F, r, "C11.R3", ("verif_fixtures",), floor=1))


def control_permit_clone(ctx):
    control(ctx, "C11.R2", "Arc<OwnedSemaphorePermit>::clone", lambda r: _permit_clone_scan(ctx.F, r, ("verif_fixtures",)))


CONTROLS = [control_forget, control_permit_clone]

WITNESSES = {"C11StateNeedsPermit": ("E0061", "ConnectionState::new requires an owned permit")}

"""C03 — client: each call completes with exactly the response bearing its own id (structural clauses)."""
import re

from .common import (fkey, where, short, arg_is_local, enclosing_loop_next, follow_value, block_line, terminal_field, awaited_value_local, CORE)
from ..facts import op_place, op_const, AnchorLost, is_test_body
from .. import flow
from . import c12

PID = "C03"
LEVEL = "other"
EXPLANATION = (
    'Static analysis over MIR of the async client. Decided: R1 the id recorded for a pending call / subscription / '
    'batch and the serialised text put on the wire originate from the same Request/Batch value (RequestMessage.id <- '
    "request.id, raw <- to_string(&request); SubscriptionMessage ids <- the request's IsSubscription extension, which "
    "Client::subscribe fills from the same next_request_id() results as Request.id; BatchMessage.ids <- the batch's "
    "IsBatch.id_range); R2 in process_single_response every RequestManager key originates from the response's own "
    'id(); R3 in the send task the transport send of a request/subscribe/batch is dominated by the Ok arm of the '
    'corresponding insert_pending_* (so a response can never arrive for an id that is not yet pending) and the '
    'refused arm sends nothing; R4 every completion (oneshot send in the response path) takes its sender from '
    'complete_pending_*(..), which remove the entry (remove_entry), so a second response with the same id finds '
    'nothing; R5 request ids are issued by one atomic fetch_add; R6 (= C12.R2, async client) a batch reply element is '
    'stored at the slot of its own id, and (= C12.R1) whatever the batch hands back went through those slots (no path around the placeholder loop). R4 also requires that complete_pending_* select the pending entry by exact key '
    "(no scan of the table); R7 no ordering operation on Id values anywhere in the client crates (Id's derived Ord is "
    "lexicographic for string ids; fixture control); ARR inside the loop over an array message's elements "
    'handle_recv_message is left only with an error. NOT decided: the interleaving space itself; correctness of tokio '
    'channels.'
)
RULE_TEXT = "instances = message constructions, manager key operands, transport sends, oneshot completions"
TRUSTED = ["rustc MIR", "tokio oneshot/mpsc", "std HashMap Entry API"]
ASSUMPTIONS = ["middleware layered over the client service is outside the analysed program"]

SVC_CALL = r"^<jsonrpsee_core::client::async_client::rpc_service::RpcService as jsonrpsee_core::middleware::RpcServiceT>::call::\{closure#0\}$"
SVC_BATCH = r"^<jsonrpsee_core::client::async_client::rpc_service::RpcService as jsonrpsee_core::middleware::RpcServiceT>::batch::\{closure#0\}$"
HFM = r"^jsonrpsee_core::client::async_client::handle_frontend_messages::\{closure#0\}$"
PSR = r"^jsonrpsee_core::client::async_client::helpers::process_single_response$"


def _aggs(body, suffix):
    out = []
    for bi, blk in enumerate(body.blocks):
        if blk.get("cleanup"):
            continue
        for st in blk["st"]:
            if st["s"] == "assign" and st["rv"]["k"] == "agg" and st["rv"]["ak"] == "adt" and st["rv"]["adt"].endswith(suffix):
                out.append((bi, st))
    return out


def _field_op(st, name):
    rv = st["rv"]
    return rv["ops"][rv["fields"].index(name)]


def r1_id_and_wire_agree(ctx):
    F, R = ctx.F, ctx.R
    tr = ctx.tracer(follow_callers=False, follow_fields=False)
    b = F.one(SVC_CALL)
    R.fn(b)
    n = 0
    for bi, st in _aggs(b, "::RequestMessage"):
        n += 1
        lid = tr.origins(b, _field_op(st, "id"))
        ok = bool(lid) and all(l.kind == "field" and l.detail["fields"][-1][1] == "id" and "Request" in (l.detail["fields"][-1][0] or "") for l in lid)
        R.check(ok, "C03.R1", "call:pending-id-is-request-id", "the id recorded as pending is the request's own id", "the pending id is %s, not the id serialised in the request" % [flow.leaf_str(l) for l in lid], "%s:%d" % (b.file, st["sp"][0]))
        lraw = tr.origins(b, _field_op(st, "raw"))
        okr = False
        for l in lraw:
            if l.kind == "call" and re.search(r"^serde_json::(ser::)?to_string$", l.detail["callee"] or ""):
                la = tr.origins(b, l.detail["args"][0])
                if la and all(x.kind == "param" and "Request<" in (x.detail.get("ty") or "") for x in la):
                    okr = True
        R.check(okr, "C03.R1", "call:wire-is-same-request", "the text sent is the serialisation of that same request", "the text sent is not serde_json::to_string(&request): %s" % [flow.leaf_str(l) for l in lraw], "%s:%d" % (b.file, st["sp"][0]))
    for bi, st in _aggs(b, "::SubscriptionMessage"):
        n += 1
        for fld, getter in (("subscribe_id", "sub_req_id"), ("unsubscribe_id", "unsub_req_id")):
            lv = tr.origins(b, _field_op(st, fld))
            ok = any(l.kind == "call" and re.search(r"IsSubscription::%s$" % getter, l.detail["callee"] or "") for l in lv)
            if not ok:
                ok = any(l.kind == "field" and l.detail["fields"][-1][1] == getter for l in lv)
            if not ok:
                # the getter was traced through: the value is field `<getter>` of the IsSubscription found in the extensions
                ok = any(l.kind == "call" and re.search(r"Extensions::get$", l.detail["callee"] or "") and ("IsSubscription::" + getter) in " ".join(l.chain) for l in lv)
            R.check(ok, "C03.R1", "subscribe:%s" % fld, "%s comes from the request's IsSubscription extension" % fld, "%s is %s" % (fld, [flow.leaf_str(l) for l in lv]), "%s:%d" % (b.file, st["sp"][0]))
        lraw = tr.origins(b, _field_op(st, "raw"))
        R.check(any(l.kind == "call" and re.search(r"to_string$", l.detail["callee"] or "") for l in lraw), "C03.R1", "subscribe:wire", "the subscribe text is the serialised request", "the subscribe text is %s" % [flow.leaf_str(l) for l in lraw], "%s:%d" % (b.file, st["sp"][0]))
    bb = F.one(SVC_BATCH)
    R.fn(bb)
    for bi, st in _aggs(bb, "::BatchMessage"):
        n += 1
        lv = tr.origins(bb, _field_op(st, "ids"))
        ok = any("IsBatch" in " ".join(l.chain) or (l.kind == "call" and re.search(r"Option::<.*>::(map|expect)$|Extensions::get$", l.detail["callee"] or "")) for l in lv)
        gets = [c for c in bb.calls_to(r"Extensions::get$") if c.ga and "IsBatch" in c.ga[-1]]
        R.check(ok and bool(gets), "C03.R1", "batch:ids-from-IsBatch", "the pending batch is keyed by the batch's own IsBatch.id_range", "BatchMessage.ids is %s" % [flow.leaf_str(l) for l in lv], "%s:%d" % (bb.file, st["sp"][0]))
        lraw = tr.origins(bb, _field_op(st, "raw"))
        R.check(any(l.kind == "call" and re.search(r"to_string$", l.detail["callee"] or "") for l in lraw), "C03.R1", "batch:wire", "the batch text is the serialised batch", "the batch text is %s" % [flow.leaf_str(l) for l in lraw], "%s:%d" % (bb.file, st["sp"][0]))
    R.floor("C03.R1", n, 3, "FrontToBack message constructions in the client service")
    # Client::subscribe: extension ids and Request.id from next_request_id()
    sub = F.one(r"^<jsonrpsee_core::client::async_client::Client<L> as jsonrpsee_core::client::SubscriptionClientT>::subscribe::\{closure#0\}$")
    R.fn(sub)
    nid = sub.calls_to(r"RequestIdManager::next_request_id$")
    R.check(len(nid) == 2, "C03.R1", "subscribe:two-fresh-ids", "subscribe takes two fresh ids (subscribe + reserved unsubscribe)", "subscribe takes %d ids from the allocator" % len(nid), "%s:%d" % (sub.file, sub.lo))
    reqs = _aggs(sub, "::Request")
    isub = _aggs(sub, "::IsSubscription")
    for bi, st in reqs:
        lv = tr.origins(sub, _field_op(st, "id"))
        ok = any(l.kind == "call" and re.search(r"next_request_id$", l.detail["callee"] or "") for l in lv)
        R.check(ok, "C03.R1", "subscribe:request-id-fresh", "the subscribe request's id is a fresh allocator id", "the subscribe request's id is %s" % [flow.leaf_str(l) for l in lv], "%s:%d" % (sub.file, st["sp"][0]))
    ext = sub.calls_to(r"IsSubscription::new$")
    for c in ext:
        l0 = tr.origins(sub, c.args[0])
        l1 = tr.origins(sub, c.args[1])
        bb0 = {l.detail["bb"] for l in l0 if l.kind == "call" and re.search(r"next_request_id$", l.detail["callee"] or "")}
        bb1 = {l.detail["bb"] for l in l1 if l.kind == "call" and re.search(r"next_request_id$", l.detail["callee"] or "")}
        R.check(bool(bb0) and bool(bb1) and not (bb0 & bb1), "C03.R1", "subscribe:extension-ids", "IsSubscription carries the two distinct fresh ids", "IsSubscription ids do not come from two distinct allocator steps", where(c))
        # the request id is the first of them
        for bi, st in reqs:
            lv = tr.origins(sub, _field_op(st, "id"))
            rb = {l.detail["bb"] for l in lv if l.kind == "call" and re.search(r"next_request_id$", l.detail["callee"] or "")}
            R.check(rb == bb0, "C03.R1", "subscribe:request-id-equals-sub_req_id", "Request.id and IsSubscription.sub_req_id are the same allocator result", "the subscribe request's id and the recorded subscribe id come from different allocator steps", "%s:%d" % (sub.file, st["sp"][0]))


def r2_key_discipline(ctx):
    F, R = ctx.F, ctx.R
    tr = ctx.tracer(follow_callers=False, follow_fields=False)
    b = F.one(PSR)
    R.fn(b)
    n = 0
    for c in b.calls_to(r"RequestManager::(request_status|complete_pending_call|complete_pending_subscription|insert_subscription)$"):
        n += 1
        lv = tr.origins(b, c.args[1])
        ok = bool(lv)
        for l in lv:
            if l.kind == "call" and re.search(r"RawResponse::<'.*>::id$|::id$", l.detail["callee"] or ""):
                la = tr.origins(b, l.detail["args"][0])
                ok = ok and all(x.kind == "param" and x.detail["idx"] == 2 for x in la)
            elif l.kind == "field" and l.detail["fields"][-1][1] == "id" and l.detail["idx"] == 2 and l.detail["fn"].endswith("process_single_response"):
                pass  # response.id() traced through: the `id` field of the response parameter
            elif c.name().endswith("complete_pending_call") and l.kind == "call" and re.search(r"RequestManager::complete_pending_subscription$", l.detail["callee"] or ""):
                pass  # releasing the unsubscribe id that the pending subscription (found under the response's id) had reserved
            else:
                ok = False
        R.check(ok, "C03.R2", "%s#%d:key" % (c.name().split("::")[-1], sorted(x.bb for x in b.calls_to(r"RequestManager::")).index(c.bb)), "%s is keyed by the response's own id" % c.name().split("::")[-1], "%s is keyed by %s, not by the id the response carries" % (c.name().split("::")[-1], [flow.leaf_str(l) for l in lv]), where(c))
    R.floor("C03.R2", n, 4, "manager lookups in process_single_response")


def r3_insert_before_send(ctx):
    F, R = ctx.F, ctx.R
    tr = ctx.tracer(follow_callers=False, follow_fields=False)
    b = F.one(HFM)
    R.fn(b)
    sends = [c for c in b.calls if re.search(r"TransportSenderT::send$", c.callee or "")]
    R.floor("C03.R3", len(sends), 4, "transport sends in handle_frontend_messages")
    need = {"RequestMessage": r"RequestManager::insert_pending_call$", "SubscriptionMessage": r"RequestManager::insert_pending_subscription$", "BatchMessage": r"RequestManager::insert_pending_batch$"}
    seen = set()
    for s in sends:
        lv = tr.origins(b, s.args[1])
        owner = None
        for l in lv:
            if l.kind == "field" and l.detail["fields"][-1][1] == "raw":
                owner = (l.detail["fields"][-1][0] or "").split("::")[-1]
        if owner not in need:
            continue
        seen.add(owner)
        ins = b.calls_to(need[owner])
        ok = False
        for i in ins:
            for sb, arms, other in flow.switch_on(b, i.dest["l"]):
                ok_t = other if "1" in arms and "0" not in arms else arms.get("0")
                if ok_t is not None and b.dominates(ok_t, s.bb):
                    ok = True
                err_t = arms.get("1")
                if err_t is not None:
                    reach = b.reach_from(err_t, avoid=[ok_t] if ok_t is not None else []) | {err_t}
                    R.check(s.bb not in reach or b.dominates(ok_t, s.bb), "C03.R3", "%s:refused-sends-nothing" % owner, "a refused (duplicate id) %s sends nothing" % owner, "a refused %s still reaches the transport send" % owner, where(s))
        R.check(ok, "C03.R3", "%s:insert-before-send" % owner, "%s is recorded as pending before it is put on the wire" % owner, "%s is sent before (or without) being recorded as pending: a fast reply finds nothing pending and the client shuts down" % owner, where(s))
    R.check(seen == set(need), "C03.R3", "arms-covered", "request, subscribe and batch arms were all analysed", "could not find the transport send of %s" % sorted(set(need) - seen), "%s:%d" % (b.file, b.lo))
    # keys of the inserts are the message's own ids
    for owner, pat in need.items():
        for i in b.calls_to(pat):
            lv = tr.origins(b, i.args[1])
            ok = bool(lv) and all(l.kind == "field" and (l.detail["fields"][-1][0] or "").endswith(owner) for l in lv)
            R.check(ok, "C03.R3", "%s:insert-key" % owner, "the pending entry is keyed by the message's own id", "the pending entry of %s is keyed by %s" % (owner, [flow.leaf_str(l) for l in lv]), where(i))


def r4_completion_consumes(ctx):
    F, R = ctx.F, ctx.R
    tr = ctx.tracer(follow_callers=False, follow_fields=False)
    # the manager's accessors are the unit of reasoning here: do not look through them, however small they are
    tr_stop = ctx.tracer(follow_callers=False, follow_fields=False, stop_at_call=r"RequestManager::complete_pending_(call|subscription|batch)$")
    n = 0
    for pat in (PSR, r"^jsonrpsee_core::client::async_client::helpers::process_batch_response$"):
        b = F.one(pat)
        R.fn(b)
        for c in b.calls_to(r"oneshot::Sender::<.*>::send$"):
            n += 1
            lv = tr_stop.origins(b, c.args[0])
            ok = bool(lv) and all(l.kind == "call" and re.search(r"RequestManager::complete_pending_(call|subscription|batch)$", l.detail["callee"] or "") for l in lv)
            R.check(ok, "C03.R4", "%s:sender-from-complete#%d" % (short(b.path).split("::")[-1], sorted(x.bb for x in b.calls_to(r"oneshot::Sender::<.*>::send$")).index(c.bb)), "the completed sender was taken out of the manager by complete_pending_*", "a call is completed with a sender that was not removed from the manager (%s): the same id could be completed twice" % [flow.leaf_str(l) for l in lv], where(c))
    R.floor("C03.R4", n, 5, "oneshot completions in the response path")
    for name in ("complete_pending_call", "complete_pending_subscription", "complete_pending_batch"):
        m = F.one(r"^jsonrpsee_core::client::async_client::manager::RequestManager::%s$" % name)
        R.fn(m)
        rem = m.calls_to(r"OccupiedEntry::<.*>::remove_entry$|OccupiedEntry::<.*>::remove$|HashMap::<.*>::remove$|HashMap::<.*>::remove_entry$")
        getm = m.calls_to(r"OccupiedEntry::<.*>::(get_mut|into_mut)$|HashMap::<.*>::get_mut$")
        R.check(bool(rem) and not getm, "C03.R4", "%s:removes-entry" % name, "%s removes the entry it returns" % name, "%s hands out the pending state without removing the entry" % name, "%s:%d" % (m.file, m.lo))
        # the pending entry is selected by exact key only: no scan over the table picks "a matching" entry
        scans = m.calls_to(r"HashMap::<.*>::(keys|iter|iter_mut|values|values_mut|retain|drain|extract_if|into_keys|into_values)$|IntoIterator>::into_iter$")
        R.check(not scans, "C03.R4", "%s:exact-key-only" % name, "%s selects the pending entry by exact key (no scan of the table)" % name, "%s selects the pending entry by scanning the table (%s): a reply whose id (range) merely resembles a pending one completes it, so a call can complete with another id's response" % (name, sorted({short(x.name()) for x in scans})), "%s:%d" % (m.file, m.lo))
        # key = the parameter
        ent = m.calls_to(r"HashMap::<.*>::(entry|remove|remove_entry|get|get_mut|contains_key|get_key_value)$")
        R.check(bool(ent), "C03.R4", "%s:keyed-lookup" % name, "%s performs a keyed lookup" % name, "%s performs no keyed lookup of the pending table" % name, "%s:%d" % (m.file, m.lo))
        for e in ent:
            lv = tr.origins(m, e.args[1])
            ok = bool(lv) and all(l.kind == "param" and l.detail["idx"] == 2 for l in lv)
            R.check(ok, "C03.R4", "%s:entry-key" % name, "%s looks up exactly the id it was given" % name, "%s looks up %s" % (name, [flow.leaf_str(l) for l in lv]), where(e))


def r5_allocator(ctx):
    F, R = ctx.F, ctx.R
    nn = F.one(r"^jsonrpsee_core::client::CurrentId::next_n$")
    R.fn(nn)
    fa = nn.calls_to(r"atomic::Atomic.*::fetch_add$")
    ld = nn.calls_to(r"atomic::Atomic.*::(load|store|swap)$")
    R.check(len(fa) == 1 and not ld, "C03.R5", "ids-by-single-rmw", "request ids are issued by one atomic fetch_add", "ids are no longer issued by a single atomic read-modify-write (fetch_add=%d, load/store=%d): two concurrent calls can get the same id" % (len(fa), len(ld)), "%s:%d" % (nn.file, nn.lo))
    nx = F.one(r"^jsonrpsee_core::client::CurrentId::next$")
    R.check(bool(nx.calls_to(r"CurrentId::next_n$")), "C03.R5", "next-uses-next_n", "next() is next_n(1)", "CurrentId::next no longer goes through next_n", "%s:%d" % (nx.file, nx.lo))


ORDERING = (r"Iterator::(min|max|min_by|max_by|min_by_key|max_by_key|is_sorted|cmp|partial_cmp|lt|le|gt|ge)$|"
            r"Ord>?::(cmp|min|max|clamp)$|PartialOrd(<.*>)?>?::(partial_cmp|lt|le|gt|ge)$|"
            r"slice::<impl \[T\]>::(sort|sort_unstable|sort_by|sort_unstable_by|sort_by_key|sort_unstable_by_key|binary_search)$|"
            r"BTree(Map|Set)::<.*>::(insert|new)$")
ID_TY = re.compile(r"jsonrpsee_types::(params::)?Id<")


def _id_ordering_scan(F, R, crate_pat):
    """request ids are matched, never ordered: Id derives Ord, which is numeric for Id::Number and lexicographic for
    Id::Str, so any range/first/last computed by ordering Id values is wrong for string ids"""
    n = 0
    for b in F.real_bodies():
        if not re.search(crate_pat, b.path) or is_test_body(b):
            continue
        # the derived impls themselves
        if re.search(r"jsonrpsee_types::(params::)?Id<.*> as std::cmp::(Partial)?Ord", b.path):
            continue
        for c in b.calls:
            nm = (c.name() or "") + " " + (c.callee or "")
            if not re.search(ORDERING, c.name() or "") and not re.search(ORDERING, c.callee or ""):
                continue
            tys = [b.locals[c.dest["l"]]["ty"]] if c.dest else []
            for a in c.args:
                p = op_place(a)
                if p is not None and not p.get("p"):
                    tys.append(b.locals[p["l"]]["ty"])
            tys += list(c.ga or [])
            n += 1
            if any(ID_TY.search(t or "") and "RequestId" not in (t or "") for t in tys):
                R.bad("C03.R7", "%s:orders-Id:%s" % (fkey(b), (c.name() or "").split("::")[-1]), "%s orders request ids with Id's derived Ord (%s): numeric for Id::Number but lexicographic for Id::Str (\"10\" < \"8\"), so with string ids the wrong pending entry/range is selected" % (short(b.path), short(c.name() or "")), where(c))
    return n


def r7_ids_not_ordered(ctx):
    F, R = ctx.F, ctx.R
    n = _id_ordering_scan(F, R, r"^<?jsonrpsee_core::client::|^<?jsonrpsee_http_client::|^<?jsonrpsee_client_transport::|^<?jsonrpsee_wasm_client::|^<?jsonrpsee_ws_client::")
    R.ok("C03.R7", "no-Id-ordering", "no ordering operation on Id values in the client crates (%d ordering calls inspected)" % n)


def control_id_ordering(ctx):
    from .common import control
    control(ctx, "C03.R7", "min()/max()/< over jsonrpsee_types::Id", lambda r: _id_ordering_scan(ctx.F, r, r"^verif_fixtures::"))


CONTROLS = [control_id_ordering]


def r6_batch_slots(ctx):
    c12.r2_slot_index(ctx)
    # and the front end hands the slots out one entry per call (no slot skipped: later answers would move to earlier calls)
    c12.r8_frontend_keeps_positions(ctx, "C03.R6b")
    # and whatever the batch hands back went through those slots: a path around the placeholder loop (a "fast path" that
    # orders the replies instead of placing them) gives a call another call's response when an id is repeated or missing
    c12.r1_sized_by_request(ctx)



def r8_http_client_id_check(ctx):
    """the HTTP client (one call per HTTP exchange) hands a result back only when the response's id equals the id it put
    on the wire: the Ok(..) of HttpClient::request is control-dependent on `response.id == request id`, both operands
    being what they should be (the parsed response's id member; the id allocated for this call)"""
    F, R = ctx.F, ctx.R
    tr = ctx.tracer(follow_callers=False, follow_fields=False)
    b = F.one(r"^<jsonrpsee_http_client::client::HttpClient<S> as jsonrpsee_core::client::ClientT>::request::\{closure#0\}$")
    R.fn(b)
    eqs = [c for c in b.calls_to(r"PartialEq>?::(eq|ne)$") if "jsonrpsee_types::Id<" in (c.self_ty or "") or "params::Id<" in (c.self_ty or "")]
    oks = [(bi, st) for bi, blk in enumerate(b.blocks) if bi in b.reachable and not blk.get("cleanup") for st in blk["st"]
           if st["s"] == "assign" and st["pl"]["l"] == 0 and not st["pl"].get("p") and st["rv"]["k"] == "agg" and st["rv"].get("variant") == "Ok"]
    R.check(len(eqs) == 1 and bool(oks), "C03.R8", "http:id-compared", "HttpClient::request compares the response id with the request id", "HttpClient::request has %d id comparisons and %d Ok(..) results: a response bearing another id would be handed to the caller" % (len(eqs), len(oks)), "%s:%d" % (b.file, b.lo))
    for c in eqs:
        is_ne = (c.name() or "").endswith("::ne")
        good_t = None
        for sb, arms, other in flow.switch_on(b, c.dest["l"]):
            # the bool that is tested must be this comparison's result and nothing else (no `||` / per-kind leniency
            # merged into it)
            lv_d = tr.origins(b, b.blocks[sb]["term"]["discr"])
            pure = bool(lv_d) and all(l.kind == "call" and l.detail["bb"] == c.bb and l.where == b.path for l in lv_d)
            R.check(pure, "C03.R8", "http:id-test-is-plain-equality", "the tested condition is exactly `response id == request id`", "the condition HttpClient::request tests is not just `response id == request id` (it also comes from %s): a response whose id is not the one sent (another kind, another spelling) completes the call" % sorted({flow.leaf_str(l)[:60] for l in lv_d if not (l.kind == "call" and l.detail["bb"] == c.bb)}), where(c))
            good_t = arms.get("0") if is_ne else arms.get("1")
        for bi, st in oks:
            R.check(good_t is not None and b.dominates(good_t, bi), "C03.R8", "http:ok-only-when-ids-equal", "Ok(result) is returned only on the ids-equal branch", "HttpClient::request returns Ok(result) without the response id having been found equal to the request id", "%s:%d" % (b.file, st["sp"][0]))
        sides = []
        for a in c.args[:2]:
            lv = tr.origins(b, a)
            sides.append("rp" if any(l.kind == "call" and re.search(r"ResponseSuccess<.*>::try_from$|TryFrom.*::try_from$|run_future_until_timeout$|RpcServiceT::call$", l.detail["callee"] or "") for l in lv) else ("req" if any(l.kind == "call" and re.search(r"RequestIdManager::next_request_id$", l.detail["callee"] or "") for l in lv) else "?"))
        R.check(sorted(sides) == ["req", "rp"], "C03.R8", "http:compares-the-right-ids", "the comparison is between the parsed response's id and the id allocated for this call", "the id comparison in HttpClient::request is between %s" % sides, where(c))


def r9_gone_caller_is_not_a_connection_error(ctx):
    """a response whose caller has gone away (timeout, dropped future) is discarded quietly: in process_single_response /
    process_batch_response the outcome of handing the response to the caller's oneshot never leads to an Err return - an
    Err from these functions makes the read task stop and fails *every other* pending call with this one's id error"""
    F, R = ctx.F, ctx.R
    n = 0
    for pat in (PSR, r"^jsonrpsee_core::client::async_client::helpers::process_batch_response$"):
        b = F.one(pat)
        R.fn(b)
        errs = [bi for bi, blk in enumerate(b.blocks) if bi in b.reachable and not blk.get("cleanup") for st in blk["st"]
                if st["s"] == "assign" and st["rv"]["k"] == "agg" and (st["rv"].get("adt") or "").endswith("InvalidRequestId")]
        for c in b.calls_to(r"oneshot::Sender::<.*>::send$"):
            n += 1
            bad = False
            for sb, arms, other in flow.switch_on(b, c.dest["l"]):
                et = arms.get("1")
                if et is not None and any(b.dominates(et, e) for e in errs):
                    bad = True
            # ... nor is the outcome of the hand-over converted and propagated (`send(..).map_err(..)?`, `return send(..)...`)
            from .common import forward_taint
            t = forward_taint(b, {c.dest["l"]}) if c.dest is not None else set()
            if 0 in t:
                bad = True
            for br in b.calls_to(r"Try.*::branch$"):
                q = op_place(br.args[0])
                if q is not None and q["l"] in t:
                    bad = True
            R.check(not bad, "C03.R9", "%s:send#%d" % (short(b.path).split("::")[-1], sorted(x.bb for x in b.calls_to(r"oneshot::Sender::<.*>::send$")).index(c.bb)), "a caller that went away does not turn into an InvalidRequestId error", "%s returns an InvalidRequestId error when the caller's oneshot is closed: a late reply to an abandoned call stops the read task, and every other pending call completes with that error instead of its own response" % short(b.path), where(c))
    R.floor("C03.R9", n, 5, "oneshot completions in the response path")



def r10_call_is_polled_before_its_timeout(ctx):
    """`each call completes with the response bearing its id` also when the front end is slow to poll: if the response is
    already in the call's channel when the deadline passes, the call still gets it - in the async client's
    run_future_until_timeout the race between the call and the timer polls the call first (`future::select(call, timer)`;
    select polls its first argument first). A timer-first race (a biased select! with the timer branch on top) returns
    RequestTimeout and drops a response that was received and routed in time."""
    F, R = ctx.F, ctx.R
    tr = ctx.tracer(follow_callers=False, follow_fields=False, inline_calls=False)
    b = F.one(r"^jsonrpsee_core::client::async_client::Client::<L>::run_future_until_timeout::\{closure#0\}$")
    R.fn(b)
    sels = b.calls_to(r"^futures_util::future::select$")
    ok = False
    for c in sels:
        a0 = tr.origins(b, c.args[0])
        a1 = tr.origins(b, c.args[1])
        first_is_call = bool(a0) and all(l.kind in ("param", "field", "resume", "unknown") for l in a0) and not any(l.kind == "call" and re.search(r"Delay::new$|time::sleep$|Sleep", l.detail.get("callee") or "") for l in a0)
        second_is_timer = any(l.kind == "call" and re.search(r"Delay::new$|time::sleep$", l.detail.get("callee") or "") for l in a1)
        if first_is_call and second_is_timer:
            ok = True
    others = [c for x in F.nested(b) for c in x.calls_to(r"^std::future::poll_fn$|tokio::time::timeout$|future::select_all$|future::select_ok$")]
    R.check(ok and not others, "C03.R10", "timeout-race:call-first", "the call is polled before its timeout", "run_future_until_timeout does not race `future::select(call, timer)` with the call first (%s): when the response has already arrived but the caller is polled only after the deadline, the timer wins and the response bearing the call's id is dropped" % (sorted({short(c.name()) for c in others}) or "no such select found"), "%s:%d" % (b.file, b.lo))


def rarr_every_element(ctx):
    """an array message is processed element by element to the end"""
    from .common import array_elements_all_processed
    array_elements_all_processed(ctx.F, ctx.R, "C03.ARR")



def rcancel_receive_is_cancel_safe(ctx):
    """the read task never drops a half-received message"""
    from .common import read_task_receive_is_cancel_safe
    read_task_receive_is_cancel_safe(ctx, "C03.CANCEL")



def _borrowed(modname, fname):
    def run(ctx):
        import importlib
        mod = importlib.import_module("jrsa.rules." + modname)
        return getattr(mod, fname)(ctx)
    run.__name__ = "%s_%s" % (modname, fname)
    return run


# "its value or error object is exactly what that response carried": the client-side Response parser (C15 R3-R5, R8)
BORROWED = [_borrowed("c15", n) for n in ("r3_field_tables", "r4_duplicate_guards", "r5_acceptance_table", "r8_into_owned_is_fieldwise", "r9_client_tries_response_first")]
# a subscribe call's outcome is what its response carried: an id the server hands out again after the earlier subscription
# ended must be usable - RequestManager::unsubscribe removes the id's reverse-index entry (else the later subscribe call,
# answered `result: <id>`, fails with InvalidSubscriptionId) (= C05.R4)
BORROWED += [_borrowed("c05", "r4_single_unsubscribe")]



def rkeys_manager_keys_not_derived(ctx):
    """ids are matched exactly"""
    from .common import manager_keys_not_derived
    manager_keys_not_derived(ctx, "C03.KEYS")



def ratomic_ids_reserved_atomically(ctx):
    """two calls in flight never share a request id (ids are reserved with one atomic fetch_add)"""
    from .common import request_ids_reserved_atomically
    request_ids_reserved_atomically(ctx, "C03.ATOMIC")



def rids_wire_ids_derive_both(ctx):
    """ids are read exactly as written: the derived, hook-free serde impls of Id / SubscriptionId"""
    from .common import wire_ids_derive_both
    wire_ids_derive_both(ctx, "C03.IDS")



def rsel_shutdown_is_a_select_branch(ctx):
    """the background tasks notice the other task's end while they wait"""
    from .common import shutdown_is_a_select_branch
    shutdown_is_a_select_branch(ctx, "C03.SEL")



def rloop_client_tasks_keep_polling(ctx):
    """the client's background loops suspend only at vetted points"""
    from .common import client_loops_suspend_only_where_vetted
    client_loops_suspend_only_where_vetted(ctx, "C03.LOOP")


RULES = [rloop_client_tasks_keep_polling, r10_call_is_polled_before_its_timeout, rsel_shutdown_is_a_select_branch, rids_wire_ids_derive_both, ratomic_ids_reserved_atomically, r1_id_and_wire_agree, r2_key_discipline, r3_insert_before_send, r4_completion_consumes, r5_allocator, r6_batch_slots, r7_ids_not_ordered, r8_http_client_id_check, r9_gone_caller_is_not_a_connection_error, rarr_every_element, rcancel_receive_is_cancel_safe, rkeys_manager_keys_not_derived] + BORROWED

LEVEL_TEXT = (
    "Structural necessary conditions of response demultiplexing decided from the type-checked program: the recorded id "
    "and the wire text come from one value, every manager key comes from the response's own id, a request is pending "
    "before it can be answered (dominance of insert over send), completion removes the entry, ids come from one atomic "
    "RMW. Each failing clause has a concrete schedule or reply on which a call gets the wrong/no/second response."
)
LEVEL_NOTE = "Trusted: rustc MIR; tokio channels; HashMap Entry API. Not decided: the schedules themselves."
TECHNIQUE = "MIR origin tracing + dominance (insert-before-send) + who-removes-what on the Entry API"

"""C19 — HTTP: only JSON POSTs reach RPC; body chunking never changes the answer (structural clauses)."""
import re

from .common import (fkey, where, short, arg_is_local, follow_value, block_line, awaited_value_local, read_body_loop_exits, forward_taint, tainted_switches, SERVER, CORE)
from ..facts import op_place, op_const, AnchorLost, is_test_body
from .. import flow

PID = "C19"
LEVEL = "other"
EXPLANATION = (
    'Static analysis over MIR. Decided: R1 in http::call_with_service reading the body and dispatching are dominated '
    'by the POST arm of the method match (exactly that one arm) and by content_type_is_json being true; a POST with '
    'another content type answers unsupported_content_type() (415), any other method method_not_allowed() (405), and '
    'neither reaches the body or a handler; R2 (taint) in read_body the bytes of the *current frame* (Buf::chunk) '
    'flow only into the accumulator: no branch condition depends on them except through the accumulated data, so how '
    'the body is split into chunks cannot change a decision; R3 every alternative of is_json is compared with '
    'eq_ignore_ascii_case and is a literal application/json[-rpc] spelling; R4 the Content-Length value is used only '
    'for the early refusal and the capacity hint: it never controls the read loop and never replaces the size limit; '
    'R5 the read loop is left only at end of stream or towards an error. R4 also requires that in every caller the '
    'limit handed to read_body is not data-dependent on request headers or size hints; R6 the GET-proxy middleware '
    'mutates the request only on the path that also writes the JSON body (no mutation reaches a pass-through call of '
    "the inner service); R11 in read_body bytes are taken out of the accumulated body (clear / drain / truncate) only on "
    "paths on which the single-vs-batch decision has been recorded, so the 128-byte sniffing window is a window over "
    "everything received and does not restart at a chunk boundary; R3 also requires that what is compared is the whole "
    "content-type value, not a piece cut from it. NOT decided: hyper's framing; the accepted content-type list itself."
)
RULE_TEXT = "instances = gate dominance, taint of per-frame bytes into branch conditions, content-type comparison sites, uses of Content-Length, loop exits"
TRUSTED = ["rustc MIR", "hyper / http-body framing", "http::Method representation (POST is variant 2 of http::method::Inner)"]
ASSUMPTIONS = []

CWS = r"^jsonrpsee_server::transport::http::call_with_service::\{closure#0\}$"
RB = r"^jsonrpsee_core::http_helpers::read_body::\{closure#0\}$"


def _work_sites(F, b, pat, depth=2):
    """calls in `b` that are - or, through a helper of transport::http that `b` calls, lead to - a call matching `pat`"""
    out = list(b.calls_to(pat))
    if depth <= 0:
        return out
    for c in b.calls:
        nm = c.name() or ""
        if not nm.startswith("jsonrpsee_server::transport::http::") or re.search(pat, nm) or re.search(r"\{closure#\d+\}$", nm):
            continue
        for tgt in (F.bodies.get(nm), F.bodies.get(nm + "::{closure#0}")):
            if tgt is not None and tgt is not b and _work_sites(F, tgt, pat, depth - 1):
                out.append(c)
                break
    return out


def r1_gate(ctx):
    F, R = ctx.F, ctx.R
    b = F.one(CWS)
    R.fn(b)
    m = b.calls_to(r"hyper::Request::<.*>::method$|http::Request::<.*>::method$")
    cj = b.calls_to(r"transport::http::content_type_is_json$") or b.calls_to(r"transport::http::is_json$")   # the small helper may be written out in place
    rb = _work_sites(F, b, r"http_helpers::read_body$")
    hr = _work_sites(F, b, r"server::handle_rpc_call$")
    R.check(len(m) == 1 and len(cj) == 1 and len(rb) == 1 and len(hr) == 1, "C19.R1", "shape", "method match, content-type test, one body read, one dispatch", "call_with_service changed: method=%d is_json=%d read_body=%d dispatch=%d" % (len(m), len(cj), len(rb), len(hr)), "%s:%d" % (b.file, b.lo))
    if not (m and cj and rb and hr):
        return
    # the switch on the method's discriminant
    post_t = None
    arms_seen = None
    tr = ctx.tracer(follow_callers=False, follow_fields=False)
    for bi, blk in enumerate(b.blocks):
        t = blk["term"]
        if t and t["t"] == "switch" and bi in b.reachable:
            p = op_place(t["discr"])
            if p is None:
                continue
            for bj, sj, dpl, src in b.defs.get(p["l"], []):
                if src[0] == "rv" and src[1]["k"] == "discr":
                    lv = tr.origins(b, src[1]["pl"])
                    if any(l.kind == "call" and l.detail["bb"] == m[0].bb for l in lv):
                        arms_seen = sorted(v for v, _ in t["arms"])
                        if arms_seen == ["2"]:
                            post_t = dict(t["arms"])["2"]
    if post_t is None and arms_seen is None:
        # `if *request.method() != Method::POST { 405 }` / `== Method::POST` spelling: a comparison with the POST constant
        for c in b.calls_to(r"cmp::PartialEq(<.*>)?>?::(ne|eq)$"):
            sides = [tr.origins(b, a) for a in c.args[:2]]
            from_m = any(l.kind == "call" and l.detail["bb"] == m[0].bb for lv in sides for l in lv)
            post_c = any(l.kind == "const" and (l.detail.get("name") or "").endswith("Method::POST") for lv in sides for l in lv)
            other_c = any(l.kind == "const" and re.search(r"Method::[A-Z]+$", l.detail.get("name") or "") and not (l.detail.get("name") or "").endswith("Method::POST") for lv in sides for l in lv)
            if from_m and post_c and not other_c:
                is_ne = (c.name() or "").endswith("::ne")
                for sb, arms, other in flow.switch_on(b, c.dest["l"]):
                    t_true = other if "0" in arms else arms.get("1")
                    post_t = arms.get("0") if is_ne else t_true
                    arms_seen = ["2"]
    R.check(arms_seen == ["2"], "C19.R1", "method-match-is-post-only", "exactly the POST arm leads on", "the method match accepts discriminants %s of http::Method (POST is 2): another method reaches the RPC layer" % arms_seen, where(m[0]))
    true_t = false_t = None
    for sb, arms, other in flow.switch_on(b, cj[0].dest["l"]):
        false_t = arms.get("0")
        true_t = other if "0" in arms else arms.get("1")
    for c, label in ((rb[0], "read_body"), (hr[0], "handle_rpc_call")):
        R.check(post_t is not None and b.dominates(post_t, c.bb), "C19.R1", "%s:needs-post" % label, "%s only for POST" % label, "%s is reachable for a method other than POST" % label, where(c))
        R.check(true_t is not None and b.dominates(true_t, c.bb), "C19.R1", "%s:needs-json" % label, "%s only for a JSON content type" % label, "%s is reachable without a JSON content type" % label, where(c))
    R.check(post_t is not None and b.dominates(post_t, cj[0].bb), "C19.R1", "json-test-on-post-arm", "the content type is tested on the POST arm", "the content-type test is not on the POST arm", where(cj[0]))
    u = b.calls_to(r"response::unsupported_content_type$")
    na = b.calls_to(r"response::method_not_allowed$")
    R.check(len(u) == 1 and false_t is not None and b.dominates(false_t, u[0].bb), "C19.R1", "post-non-json->415", "POST with another content type -> unsupported_content_type()", "the non-JSON POST exit does not answer unsupported_content_type()", where(cj[0]))
    R.check(len(na) == 1 and (post_t is None or not b.dominates(post_t, na[0].bb)), "C19.R1", "other-method->405", "any other method -> method_not_allowed()", "the other-method exit does not answer method_not_allowed()", where(m[0]))
    for c in u + na:
        R.check(not b.can_reach(c.bb, rb[0].bb) and not b.can_reach(c.bb, hr[0].bb), "C19.R1", "%s:reaches-nothing" % c.name().split("::")[-1], "the refusal reaches neither the body nor a handler", "after %s the body/dispatch is still reachable" % c.name().split("::")[-1], where(c))
    for nm, code in (("unsupported_content_type", "UNSUPPORTED_MEDIA_TYPE"), ("method_not_allowed", "METHOD_NOT_ALLOWED")):
        rbd = F.one(r"^jsonrpsee_server::transport::http::response::%s$" % nm)
        ok = any(op_const(x) and op_const(x).get("name", "").endswith(code) for c in rbd.calls for x in c.args)
        R.check(ok, "C19.R1", "%s:status" % nm, "%s() uses StatusCode::%s" % (nm, code), "%s() does not use StatusCode::%s" % (nm, code), "%s:%d" % (rbd.file, rbd.lo))
    # content_type_is_json looks at the Content-Type header
    cts = F.find(r"^jsonrpsee_server::transport::http::content_type_is_json$")
    ct = cts[0] if len(cts) == 1 else b
    ok = False
    for c in ct.calls:
        for a in c.args:
            for l in tr.origins(ct, a):
                if l.kind == "const" and l.detail.get("name", "").endswith("header::CONTENT_TYPE"):
                    ok = True
    R.check(ok and bool(ct.calls_to(r"transport::http::is_json$")), "C19.R1", "is_json-on-content-type-header", "the test is is_json(Content-Type header)", "content_type_is_json does not test the CONTENT_TYPE header with is_json", "%s:%d" % (ct.file, ct.lo))


def r2_chunk_independence(ctx):
    F, R = ctx.F, ctx.R
    b = F.one(RB)
    R.fn(b)
    chunks = b.calls_to(r"bytes::Buf::chunk$|Bytes as bytes::Buf>::chunk$|Frame::<.*>::into_data$")
    R.floor("C19.R2", len(chunks), 1, "reads of the current frame's bytes in read_body")
    seeds = {c.dest["l"] for c in chunks}
    # the frame's payload is also at hand before `chunk()` is called on it (`frame.data_ref()`): a test on that is a test
    # on the current frame's bytes just the same
    for c in b.calls_to(r"Frame::<.*>::(data_ref|data_mut)$"):
        holders = follow_value(b, c.dest["l"]) if c.dest else set()
        for blk in b.blocks:
            for st in blk["st"]:
                if st["s"] == "assign" and st["rv"]["k"] == "use" and not st["pl"].get("p"):
                    q = op_place(st["rv"]["op"])
                    if q is not None and q["l"] in holders and any(isinstance(e, dict) and e.get("d") == "Some" for e in q.get("p", [])):
                        seeds.add(st["pl"]["l"])   # the payload, not the Option (whether a frame carries data at all is its kind)
    tainted = forward_taint(b, seeds, sanitizers=(r"Vec::<.*>::extend_from_slice$", r"Vec::<.*>::extend$"))
    sw = tainted_switches(b, tainted)
    R.extra["C19.R2.tainted_locals"] = len(tainted)
    R.check(not sw, "C19.R2", "no-decision-on-frame-bytes", "no branch in read_body depends on the bytes of the current frame (only on the accumulated data)", "a decision in read_body depends on the bytes of the current frame rather than on the accumulated body (at %s): an empty or whitespace-only first chunk, or a different split, changes the answer" % ["%s:%d" % (b.file, block_line(b, x)) for x in sw], "%s:%d" % (b.file, block_line(b, sw[0]) if sw else b.lo))
    # the frame bytes do reach the accumulator, unchanged
    ext = b.calls_to(r"Vec::<.*>::extend_from_slice$")
    tr = ctx.tracer(follow_callers=False, follow_fields=False)
    okx = False
    for c in ext:
        lv = tr.origins(b, c.args[1])
        if any(l.kind == "call" and re.search(r"Buf::chunk$|Buf>::chunk$", l.detail["callee"] or "") for l in lv) and not any(l.kind == "call" and re.search(r"Index.*::index$", l.detail["callee"] or "") for l in lv):
            okx = True
    R.check(okx, "C19.R2", "frame-bytes-accumulated-whole", "every frame is appended to the accumulator as a whole", "frames are not appended whole to the accumulator", "%s:%d" % (b.file, b.lo))
    # the sniffing decision reads the accumulator
    finds = b.calls_to(r"Iterator::find$")
    for f in finds:
        lv = tr.origins(b, f.args[0])
        # receiver chain: take(enumerate(iter(x)))  -> x must be the accumulator local
        ok = False
        for l in lv:
            if l.kind == "call":
                cur = l
                depth = 0
                while cur is not None and depth < 6:
                    depth += 1
                    nxt = None
                    wb = F.bodies[cur.where]
                    for x in tr.origins(wb, cur.detail["args"][0]) if cur.detail["args"] else []:
                        if x.kind == "call" and re.search(r"Vec::<.*>::with_capacity$|Vec::<.*>::new$", x.detail["callee"] or ""):
                            ok = True
                        elif x.kind == "call":
                            nxt = x
                    cur = nxt
        R.check(ok, "C19.R2", "sniff-reads-accumulator", "the first-non-whitespace sniff reads the accumulated data", "the sniff does not read the accumulated data", where(f))


def r3_is_json(ctx):
    F, R = ctx.F, ctx.R
    cl = [b for b in F.find(r"^jsonrpsee_server::transport::http::is_json::\{closure#\d+\}$") if b.calls_to(r"eq_ignore_ascii_case$|PartialEq.*::eq$")]
    if len(cl) != 1:
        raise AnchorLost("the comparison closure of is_json (found %d)" % len(cl))
    b = cl[0]
    R.fn(b)
    cmp_ok = b.calls_to(r"str>::eq_ignore_ascii_case$|impl str>::eq_ignore_ascii_case$")
    cmp_bad = [c for c in b.calls if re.search(r"PartialEq.*::eq$|::starts_with$|::contains$|::eq$", c.name() or "") and not re.search(r"eq_ignore_ascii_case$", c.name() or "")]
    table = None
    if len(cmp_ok) == 1:
        # `TABLE.iter().any(|alt| content.eq_ignore_ascii_case(alt))`: the alternatives are the strings of a named constant
        import json as _json
        fnb = F.parent_body(b)
        names = set()
        for x in ([fnb] if fnb is not None else []) + [b]:
            for m_ in re.finditer(r'"name": "(jsonrpsee_server::[\w:]+)"', _json.dumps(x.blocks)):
                names.add(m_.group(1))
        for nm in sorted(names):
            cb = F.bodies.get(nm)
            if cb is not None and (cb.kind.startswith("Const") or cb.kind.startswith("Static")):
                strs = re.findall(r'"str": "((?:[^"\\]|\\.)*)"', _json.dumps(cb.blocks))
                if strs:
                    table = strs
    if table is not None:
        R.floor("C19.R3", len(table), 6, "content-type alternatives")
    else:
        R.floor("C19.R3", len(cmp_ok), 6, "content-type alternatives")
    R.check(not cmp_bad, "C19.R3", "all-case-insensitive", "every alternative is compared case-insensitively", "an alternative of is_json is compared with %s: an accepted spelling in another letter case is refused" % [short(c.name()) for c in cmp_bad], where(cmp_bad[0]) if cmp_bad else None)
    lits = []
    trl = ctx.tracer(follow_callers=False, follow_fields=False)
    for c in cmp_ok:
        got = None
        for l in trl.origins(b, c.args[1]):
            if l.kind == "const" and "str" in l.detail:
                got = l.detail["str"]
        lits.append(got)
    if table is not None:
        lits = list(table)
    R.check(all(l is not None and re.fullmatch(r"application/json(-rpc)?(; ?charset=utf-8)?", l) for l in lits), "C19.R3", "literals", "alternatives: %s" % lits, "is_json compares with %s" % lits, "%s:%d" % (b.file, b.lo))
    # what is compared is the header value itself, not a piece of it (a media-type prefix cut at `;`, a trimmed copy ...):
    # `application/json; charset=utf-16` is not an accepted spelling although its media type is
    trs = ctx.tracer(follow_callers=False, follow_fields=False, inline_calls=False, stop_at_call=r".")
    cut = []
    for c in cmp_ok:
        for l in trs.origins(b, c.args[0]):
            if l.kind == "call" and not re.search(r"HeaderValue::to_str$|Deref.*::deref$|AsRef.*::as_ref$|Borrow.*::borrow$|String::as_str$", l.detail.get("callee") or ""):
                cut.append((c, short(l.detail.get("callee") or "?")))
    R.check(not cut, "C19.R3", "whole-value-compared", "each alternative is compared with the whole content-type value", "is_json compares only a derived part of the content-type value (%s): a value with the right media type and any other parameters (`application/json; charset=utf-16`, `application/json;`) is accepted instead of answered 415" % sorted({x for _, x in cut}), where(cut[0][0]) if cut else "%s:%d" % (b.file, b.lo))
    R.check(len(set(lits)) == len(lits), "C19.R3", "no-duplicate-alternative", "no alternative is listed twice", "duplicate alternatives in is_json: %s" % lits, "%s:%d" % (b.file, b.lo))


def r4_content_length_use(ctx):
    F, R = ctx.F, ctx.R
    b = F.one(RB)
    cl = b.calls_to(r"http_helpers::read_header_content_length$")
    R.check(len(cl) == 1, "C19.R4", "one-read", "Content-Length is read once", "%d reads of Content-Length" % len(cl), "%s:%d" % (b.file, b.lo))
    if not cl:
        return
    # the capacity hint (Vec::with_capacity) is an allowed use and does not make the buffer's *content* depend on the header
    tainted = forward_taint(b, {cl[0].dest["l"]}, sanitizers=(r"Vec::<.*>::with_capacity$",))
    frames = b.calls_to(r"^http_body_util::BodyExt::frame$")
    if not frames:
        raise AnchorLost("BodyExt::frame in read_body")
    fc = frames[0]
    loop = {x for x in b.reachable if b.can_reach(fc.bb, x) and b.can_reach(x, fc.bb)}
    sw = [x for x in tainted_switches(b, tainted) if x in loop]
    R.check(not sw, "C19.R4", "not-in-loop-control", "Content-Length never controls the read loop", "the read loop branches on the Content-Length value (at %s): a missing or wrong header changes how much of the body is read" % ["%s:%d" % (b.file, block_line(b, x)) for x in sw], "%s:%d" % (b.file, block_line(b, sw[0]) if sw else b.lo))
    for c in b.calls_to(r"Limited::<.*>::new$"):
        p = op_place(c.args[1])
        R.check(not (p is not None and p["l"] in tainted), "C19.R4", "not-the-size-limit", "the size limit is not derived from Content-Length", "the body limit is derived from the Content-Length header", where(c))
    # ... nor in any caller: what bounds the read is the configured limit alone, never something announced by the peer
    n = 0
    for c in F.all_calls(r"^jsonrpsee_core::http_helpers::read_body$"):
        cb = c.body
        if is_test_body(cb):
            continue
        n += 1
        hdr = cb.calls_to(r"http_helpers::read_header_(value|content_length|values)$|HeaderMap::<.*>::(get|get_all)$|Body::size_hint$|SizeHint::(lower|upper|exact)$")
        t2 = forward_taint(cb, {h.dest["l"] for h in hdr if h.dest}) if hdr else set()
        p = op_place(c.args[2])
        R.check(not (p is not None and p["l"] in t2), "C19.R4", "%s:limit-not-from-headers" % fkey(cb), "the limit handed to read_body does not depend on request headers", "%s derives the limit it hands to read_body from a request header / size hint: a body that disagrees with its Content-Length (chunked, rewritten by a middleware) is then answered differently from the same bytes without the header" % short(cb.path), where(c))
    R.floor("C19.R4.callers", n, 1, "callers of read_body")


def r6_proxy_rewrites_only_what_it_proxies(ctx):
    """the GET-proxy middleware may give a request the JSON content type only together with the JSON body it writes: no
    header mutation can flow into the pass-through call of the inner service, otherwise a non-JSON / non-POST request
    to a proxied path slips through the 415/405 gate behind it"""
    F, R = ctx.F, ctx.R
    b = F.one(r"^<jsonrpsee_server::middleware::http::proxy_get_request::ProxyGetRequest<S> as tower::Service<hyper::Request<B>>>::call$")
    R.fn(b)
    inner = [c for c in b.calls if c.callee == "tower::Service::call"]
    rewr = b.calls_to(r"jsonrpsee_types::(request::)?Request::<'.*>::borrowed$|^serde_json::to_vec$")
    R.check(len(inner) >= 2 and bool(rewr), "C19.R6", "proxy:shape", "a rewriting path and a pass-through path", "ProxyGetRequest::call changed: %d inner calls, %d body constructions" % (len(inner), len(rewr)), "%s:%d" % (b.file, b.lo))
    passthrough = [c for c in inner if not any(b.dominates(r_.bb, c.bb) for r_ in rewr)]
    R.check(bool(passthrough), "C19.R6", "proxy:pass-through-exists", "requests that are not proxied are passed on", "no pass-through path left", "%s:%d" % (b.file, b.lo))
    # the rewriting path is for GET only: it is dominated by the GET arm of a test of the request's own method (a POST -
    # e.g. a batch - sent to a proxied path keeps its body and takes the normal route)
    tr = ctx.tracer(follow_callers=False, follow_fields=False, inline_calls=False)
    get_arms = set()
    for bi, blk in enumerate(b.blocks):
        t = blk["term"]
        if not t or t["t"] != "switch" or bi not in b.reachable:
            continue
        p = op_place(t["discr"])
        if p is None:
            continue
        for l in flow._local_copies_back(b, p["l"], 4):
            for bj, sj, dpl, src in b.defs.get(l, []):
                if src[0] == "rv" and src[1]["k"] == "discr":
                    lv = tr.origins(b, src[1]["pl"])
                    if any(x.kind == "call" and re.search(r"Request::<.*>::method$", x.detail.get("callee") or "") for x in lv):
                        arms = {v: tb for v, tb in t["arms"]}
                        if sorted(arms) == ["1"]:   # http::method::Inner::Get
                            get_arms.add(arms["1"])
    for c in b.calls_to(r"PartialEq.*::(eq|ne)$"):
        ks = [op_const(a) for a in c.args]
        lvs = [tr.origins(b, a) for a in c.args]
        if any(k and str(k.get("name", "")).endswith("Method::GET") for k in ks) or any(l.kind == "const" and str(l.detail.get("name", "")).endswith("Method::GET") for lv in lvs for l in lv):
            if any(x.kind == "call" and re.search(r"Request::<.*>::method$", x.detail.get("callee") or "") for lv in lvs for x in lv):
                for sb, arms, other in flow.switch_on(b, c.dest["l"]):
                    tgt = arms.get("0") if (c.name() or "").endswith("ne") else arms.get("1")
                    if tgt is not None:
                        get_arms.add(tgt)
    for r_ in rewr:
        R.check(any(b.dominates(g, r_.bb) for g in get_arms), "C19.R6", "proxy:rewrites-get-only", "the request is rewritten only when its method is GET", "ProxyGetRequest::call rewrites the request (%s) without having tested that its method is GET: a POST to a proxied path - a call, a batch - has its body replaced by the proxied call, none of its entries is executed" % short(r_.name() or ""), where(r_))
    muts = b.calls_to(r"HeaderMap::<.*>::(insert|append|remove|clear|entry|try_insert|try_append)$|Request::<.*>::(method_mut|uri_mut)$")
    R.floor("C19.R6", len(muts), 2, "request mutations in ProxyGetRequest::call")
    for m in muts:
        bad = [c for c in passthrough if b.can_reach(m.bb, c.bb)]
        R.check(not bad, "C19.R6", "proxy:%s@%d-only-when-proxying" % ((m.name() or "").split("::")[-1], sorted(x.bb for x in muts).index(m.bb)), "the request is modified only on the path that also writes the JSON body", "ProxyGetRequest::call modifies the request (%s) on a path that passes it on unproxied: e.g. a POST with a non-JSON content type to a proxied path is given `application/json` and gets past the 415 gate" % short(m.name() or ""), where(m))


def r7_gate_is_the_only_gate(ctx):
    """(a) the 405/415/JSON decision is taken in one place: the refusal responses are built only by call_with_service (a
    second, earlier content-type test in a wrapper answers 415 to a GET that must get 405, or skips the gate); (b) the
    decision `this request is a WebSocket upgrade, not an RPC POST` is soketto's is_upgrade_request (checks the
    `websocket` token): a home-grown predicate that is looser diverts JSON POSTs carrying some other Upgrade offer (h2c)
    away from the RPC layer, so their answer depends on headers, not on the body."""
    F, R = ctx.F, ctx.R
    n = 0
    for c in F.all_calls(r"transport::http::response::(unsupported_content_type|method_not_allowed)$"):
        if c.body.crate != SERVER or is_test_body(c.body):
            continue
        n += 1
        R.check(bool(re.search(CWS, c.body.path)), "C19.R7", "refusal-site:%s:%s" % (fkey(c.body), (c.name() or "").split("::")[-1]), "%s is answered by call_with_service's method/content-type match" % (c.name() or "").split("::")[-1], "%s answers %s outside call_with_service's method/content-type match: the order `method first (405), then content type (415)` no longer holds for this entry point" % (short(c.body.path), (c.name() or "").split("::")[-1]), where(c))
    R.floor("C19.R7", n, 2, "405/415 refusal sites")
    # the 413 is an answer of the same gate, *after* method and content type were accepted: it is built only where the body
    # is read (a `fail fast` size test in front of the gate answers 413 to requests that must get 405 / 415)
    from .c07 import http_reader
    hr_ = http_reader(F)
    for c in F.all_calls(r"transport::http::response::too_large$"):
        if c.body.crate != SERVER or is_test_body(c.body):
            continue
        R.check(c.body.path == hr_.path or bool(re.search(CWS, c.body.path)), "C19.R7", "refusal-site:%s:too_large" % fkey(c.body), "413 is answered where the accepted request's body is read", "%s answers 413 outside the function that reads the body of an accepted POST: a request with another method or content type that announces a large Content-Length gets 413 instead of 405 / 415" % short(c.body.path), where(c))
    m = 0
    for c in F.all_calls(r"is_upgrade_request$"):
        if c.body.crate != SERVER or is_test_body(c.body):
            continue
        m += 1
        R.check(bool(re.match(r"^soketto::handshake::http::is_upgrade_request$", c.name() or "")), "C19.R7", "upgrade-predicate:%s" % fkey(c.body), "the WebSocket-upgrade test is soketto's is_upgrade_request", "%s decides `WebSocket upgrade` with %s instead of soketto's is_upgrade_request (Connection: upgrade AND Upgrade: websocket): a POST that carries another upgrade offer is taken away from the RPC layer" % (short(c.body.path), short(c.name() or "")), where(c))
    R.floor("C19.R7.upgrade", m, 1, "upgrade tests in the server")


def r8_body_reaches_read_body_untouched(ctx):
    """between the socket and read_body nothing looks at, cuts or replaces the request body: (a) the HttpBody wrapper's
    Body impl is pure delegation (poll_frame returns the inner poll_frame's result as it is - an `empty data frame = end`
    shortcut truncates bodies that contain an empty chunk); (b) no server/core code consults size_hint() / is_end_stream()
    to decide about a request body (`lower() == 0` is also what a chunked body without Content-Length reports);
    (c) the hyper->tower adaptor wraps the incoming body unconditionally."""
    F, R = ctx.F, ctx.R
    tr = ctx.tracer(follow_callers=False, follow_fields=False, inline_calls=False)
    pf = F.one(r"^<jsonrpsee_core::http_helpers::Body as http_body::Body>::poll_frame$")
    R.fn(pf)
    inner = pf.calls_to(r"Body>?::poll_frame$")
    lv = tr.origins(pf, {"cp": {"l": 0}})
    direct = len(inner) == 1 and bool(lv) and all(l.kind == "call" and re.search(r"poll_frame$", l.detail["callee"] or "") for l in lv)
    peeks = pf.calls_to(r"Frame::<.*>::(into_data|data_ref|data_mut|is_data|is_trailers|into_trailers|map_data)$|Buf::(has_remaining|remaining)$")
    R.check(direct and not peeks, "C19.R8", "http-body:poll_frame-delegates", "HttpBody::poll_frame hands the inner body's frames on unchanged", "the HttpBody wrapper's poll_frame inspects or rewrites frames (%s): a body is cut at an empty chunk / changed depending on how it was split" % (sorted({short(c.name()) for c in peeks}) or [flow.leaf_str(l)[:60] for l in lv]), "%s:%d" % (pf.file, pf.lo))
    n = 0
    bad = []
    for b in F.real_bodies():
        if b.crate not in (SERVER, CORE) or is_test_body(b):
            continue
        if re.search(r" as http_body::Body>::(size_hint|is_end_stream|poll_frame)$", b.path):
            continue
        n += 1
        for c in b.calls_to(r"Body>?::(size_hint|is_end_stream)$|SizeHint::(lower|upper|exact)$"):
            bad.append((b, c))
    for b, c in bad:
        R.bad("C19.R8", "%s:consults-%s" % (fkey(b), (c.name() or "").split("::")[-1]), "%s consults %s of a request body: the hint is 0 / unknown for a body sent without Content-Length, so the same bytes are treated differently depending on the framing" % (short(b.path), (c.name() or "").split("::")[-1]), where(c))
    if not bad:
        R.ok("C19.R8", "no-size-hint-decisions", "no size_hint()/is_end_stream() decision in %d server/core bodies" % n)
    ad = F.find(r"^<jsonrpsee_server::utils::TowerToHyperService<S> as hyper::service::Service<hyper::Request<hyper::body::Incoming>>>::call$")
    if not ad:
        raise AnchorLost("TowerToHyperService::call")
    for b in ad:
        R.fn(b)
        fam = [b] + [x for x in F.real_bodies() if x.path.startswith(b.path + "::{closure")]
        wraps = 0
        branches = []
        for x in fam:
            wraps += len(x.calls_to(r"http_helpers::Body::new$"))
            for bi, blk in enumerate(x.blocks):
                if blk.get("cleanup") or bi not in x.reachable:
                    continue
                t = blk.get("term")
                if t and t["t"] == "switch":
                    branches.append("%s:%d" % (x.file, t["sp"][0]))
                for st in blk["st"]:
                    if st["s"] == "assign" and re.search(r"http_helpers::Body::new", str(st["rv"])):
                        wraps += 1
                if t and t["t"] == "call":
                    for a in t["args"]:
                        k = op_const(a)
                        if k and re.search(r"http_helpers::Body::new$", k.get("fn", "") or ""):
                            wraps += 1
        R.check(wraps >= 1 and not branches, "C19.R8", "adaptor:wraps-body-unconditionally", "the hyper->tower adaptor wraps the incoming body with HttpBody::new on its only path", "TowerToHyperService::call no longer wraps the incoming body unconditionally with HttpBody::new (%s): it decides per request what body the service gets" % ("branches at %s" % branches if branches else "HttpBody::new is not used"), "%s:%d" % (b.file, b.lo))


def r5_loop_exits(ctx):
    read_body_loop_exits(ctx.F, ctx.R, "C19.R5", ctx.tracer(follow_callers=False, follow_fields=False))



def rstatus_http_status_table(ctx):
    """the HTTP refusals relevant here carry their own status codes"""
    from .common import http_status_table
    http_status_table(ctx, "C19.STATUS", ('method_not_allowed', 'unsupported_content_type', 'from_method_response'))


def r9_size_accounting_is_not_on_the_trimmed_buffer(ctx):
    """read_body drains leading whitespace from its buffer once the first `{` / `[` has been seen, so the buffer's length
    is not the number of bytes received - how far it falls short depends on where the chunk boundaries are. Size accounting
    therefore belongs to the Limited wrapper alone: the only ordering comparison against the limit parameter in read_body
    is the up-front Content-Length test (other operand = the body_size parameter); and (= C07.R4) every frame is read
    through that wrapper."""
    F, R = ctx.F, ctx.R
    tr = ctx.tracer(follow_callers=False, follow_fields=False, inline_calls=False)
    n = 0
    for b in F.nested(F.one(r"^jsonrpsee_core::http_helpers::read_body$")):
        R.fn(b)
        for bi, blk in enumerate(b.blocks):
            if bi not in b.reachable or blk.get("cleanup"):
                continue
            for st in blk["st"]:
                if st["s"] != "assign" or st["rv"]["k"] != "bin" or st["rv"]["op"] not in ("Lt", "Le", "Gt", "Ge"):
                    continue
                sides = [tr.origins(b, o) for o in (st["rv"]["a"], st["rv"]["b"])]
                def is_limit(lv):
                    return any((l.kind == "param" and l.detail.get("name") == "max_body_size") or (l.kind in ("upvar", "field") and "max_body_size" in flow.leaf_str(l)) or "max_body_size" in " ".join(l.chain) for l in lv)
                lim = [is_limit(lv) for lv in sides]
                if lim[0] == lim[1]:
                    continue
                n += 1
                other = sides[1] if lim[0] else sides[0]
                shrunk = []
                for l in other:
                    if l.kind == "call" and re.search(r"Vec::<.*>::len$|VecDeque::<.*>::len$|BytesMut::len$|String::len$", l.detail.get("callee") or "") and l.where == b.path:
                        q = op_place(l.detail["args"][0]) if l.detail.get("args") else None
                        base = flow._local_copies_back(b, q["l"], 6) if q is not None else set()
                        for c in b.calls_to(r"Vec::<.*>::(drain|truncate|remove|split_off|retain|clear|swap_remove)$|VecDeque::<.*>::(drain|truncate|pop_front|clear)$|BytesMut::(advance|split_to|truncate|clear)$|Buf::advance$|String::(drain|truncate|remove|clear)$"):
                            cq = op_place(c.args[0]) if c.args else None
                            if cq is not None and flow._local_copies_back(b, cq["l"], 6) & base:
                                shrunk.append((l, c))
                R.check(not shrunk, "C19.R9", "read_body:limit-compared-with:%s" % "-".join(sorted({l.kind if l.kind != "call" else "call:" + (l.detail.get("callee") or "").split("::")[-1] for l in other}))[:60], "the limit is not compared with the length of a buffer that is trimmed while it is filled", "read_body compares the size limit with the length of a buffer that it also shrinks (%s): the buffer is trimmed of leading whitespace while it is filled, so its length depends on where the chunk boundaries fall - the same bytes are accepted in one split and answered 413 in another (and differently again with a Content-Length)" % sorted({short(c.name()) + " at " + where(c) for _, c in shrunk}), "%s:%d" % (b.file, st["sp"][0]))
    R.floor("C19.R9", n, 1, "comparisons against the size limit in read_body")
    from . import c07
    c07.r4_limit_before_read(ctx)


def r10_the_announced_size_is_gated_like_the_read_size(ctx):
    """with or without Content-Length the same body gets the same answer: the up-front test on the announced size refuses
    exactly what the Limited wrapper refuses while reading - more than the limit (`size > limit` / `size <= limit`). A
    `<` there answers 413 to a body of exactly the limit when its length is announced and 200 when it is sent chunked
    (= C07.R6)"""
    from . import c07
    c07.r6_size_gates(ctx)


SHRINK_RX = r"Vec::<.*>::(drain|truncate|remove|split_off|retain|clear|swap_remove)$|VecDeque::<.*>::(drain|truncate|pop_front|clear)$|BytesMut::(advance|split_to|truncate|clear)$|Buf::advance$"


def r11_accumulator_shrinks_only_after_the_sniff_decided(ctx):
    """The sniffing window (first 128 bytes of the *accumulated* body) is a window over everything received so far only
    as long as nothing is taken out of the accumulator while the sniff is still undecided. A shrink of the accumulator
    (clear / drain / truncate ...) on a path where single-vs-batch has not been settled restarts the window at a chunk
    boundary: the same bytes are answered Malformed in one split and accepted in another. Rule: every path from the
    sniff (Iterator::find over the accumulator) to a shrinking call on the accumulator passes through a block that
    records the decision (assignment of Some(<const>))."""
    F, R = ctx.F, ctx.R
    b = F.one(RB)
    R.fn(b)
    finds = b.calls_to(r"Iterator::find$")
    ext = b.calls_to(r"Vec::<.*>::extend_from_slice$")
    if len(finds) != 1 or not ext:
        R.anchor_lost("C19.R11", "the single sniff (Iterator::find) and the accumulator append in read_body (found %d / %d)" % (len(finds), len(ext)))
        return
    acc = set()
    for c in ext:
        q = op_place(c.args[0]) if c.args else None
        if q is not None:
            acc |= flow._local_copies_back(b, q["l"], 6)
    # the decision variable: a local initialised to None and later set to Some(..) (`let mut is_single = None`);
    # a block recording the decision is one that assigns Some(..) to it (or, failing that, Some(<const>) to any local)
    decided, decided_const, none_locals = set(), set(), set()
    live = [(bi, blk) for bi, blk in enumerate(b.blocks) if bi in b.reachable and not blk.get("cleanup")]
    for bi, blk in live:
        for st in blk["st"]:
            if st["s"] == "assign" and st["rv"]["k"] == "agg" and st["rv"].get("variant") == "None" and not st["pl"].get("p") and st["pl"]["l"] != 0:
                none_locals.add(st["pl"]["l"])
    moved_into_none_local = set()   # `_tmp = Some(x); is_single = move _tmp`
    for bi, blk in live:
        for st in blk["st"]:
            if st["s"] == "assign" and st["rv"]["k"] == "use" and not st["pl"].get("p") and st["pl"]["l"] in none_locals:
                q = op_place(st["rv"]["op"])
                if q is not None and not q.get("p"):
                    moved_into_none_local.add(q["l"])
    for bi, blk in live:
        for st in blk["st"]:
            if st["s"] == "assign" and st["rv"]["k"] == "agg" and st["rv"].get("variant") == "Some" and not st["pl"].get("p") and st["pl"]["l"] != 0:
                if st["pl"]["l"] in none_locals or st["pl"]["l"] in moved_into_none_local:
                    decided.add(bi)
                ops = st["rv"].get("ops") or st["rv"].get("fields") or []
                if ops and all(op_const(o) is not None for o in ops):
                    decided_const.add(bi)
    decided = decided or decided_const
    if not decided:
        R.anchor_lost("C19.R11", "the blocks of read_body that record the single/batch decision (Some(<const>))")
        return
    n = 0
    for c in b.calls_to(SHRINK_RX):
        if c.bb not in b.reachable or b.blocks[c.bb].get("cleanup"):
            continue
        q = op_place(c.args[0]) if c.args else None
        if q is None or not (flow._local_copies_back(b, q["l"], 6) & acc):
            continue
        n += 1
        ok = flow.all_paths_pass(b, finds[0].bb, decided, targets={c.bb})
        R.check(ok, "C19.R11", "read_body:shrink-after-decision:%s#%d" % (short(c.name()).split("::")[-1], n), "the accumulator is shrunk only once the sniff has decided single/batch", "read_body takes bytes out of the accumulated body (%s) on a path where the first non-whitespace byte has not been seen yet: the 128-byte sniffing window restarts at a chunk boundary, so the same body is refused (Malformed) in one split and accepted in another" % short(c.name()), where(c))
    R.extra["C19.R11.shrink_sites"] = n
    if n == 0:
        R.check(True, "C19.R11", "read_body:accumulator-never-shrunk", "the accumulator is never shrunk", "", "%s:%d" % (b.file, b.lo))


RULES = [r11_accumulator_shrinks_only_after_the_sniff_decided, r10_the_announced_size_is_gated_like_the_read_size, r9_size_accounting_is_not_on_the_trimmed_buffer, r1_gate, r2_chunk_independence, r3_is_json, r4_content_length_use, r5_loop_exits, r6_proxy_rewrites_only_what_it_proxies, r7_gate_is_the_only_gate, r8_body_reaches_read_body_untouched, rstatus_http_status_table]

LEVEL_TEXT = (
    "Structural necessary conditions decided from the type-checked program: the method/content-type gate by dominance on "
    "every path, chunk independence as a taint property (per-frame bytes may only flow into the accumulator, never into a "
    "branch condition), the comparison discipline of every accepted content-type spelling, the allowed uses of "
    "Content-Length, and the loop's exits. Tests sample a few splits; the taint rule covers every split."
)
LEVEL_NOTE = "Trusted: rustc MIR; hyper/http-body framing; http::Method's representation. Not decided: the accepted content-type list itself."
TECHNIQUE = "dominance (gate) + forward taint from per-frame bytes to branch conditions + sibling comparison discipline"

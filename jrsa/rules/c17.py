"""C17 — generated APIs: client stub and server registration agree (translation validation over a corpus of #[rpc] programs)."""
import json
import os
import re

from .common import (fkey, where, short, arg_is_local, follow_value, block_line)
from ..facts import op_place, op_const, AnchorLost, is_test_body
from .. import flow

PID = "C17"
LEVEL = "translation_validation"
CONFIGS_QUICK = ["corpus", "pmcore", "libs-all"]
CONFIGS_THOROUGH = ["corpus", "pmcore", "repo-programs", "libs-all"]
EXPLANATION = (
    "Translation validation of the #[rpc] macro over a corpus: the macro's output is analysed after expansion, as MIR of "
    "the expanding crates (never executed). Corpus = a generated family (/verif/corpus/gen.py: 6 traits x 8 declarations "
    "spanning {0..4 params, 0..2 trailing Option, param_kind array/map, no namespace / namespace / namespace+separator, "
    "aliases, sync/async/blocking, subscriptions with params, notification-name override, explicit unsubscribe name, sync "
    "subscription, #[argument(rename)]}) plus the repository's own #[rpc] programs (tests/proc-macro-core in the quick tier; "
    "integration tests and examples in the thorough tier). For every declaration analysed: W1 the RPC name literal the client "
    "stub passes to request/notification/subscribe equals the literal the server registers for the trait method of the same "
    "Rust name (subscribe and unsubscribe names likewise), and for the generated family equals the name computed from the "
    "declaration (namespace and separator applied); W2 the client inserts its parameters in declaration order and the "
    "server passes the k-th decoded value as the k-th argument of the trait method; W3 optional_next is used exactly for "
    "parameters whose type is Option<_>; W4 under by-name encoding the client's key for parameter i is a string the "
    "server's generated field visitor maps to field i; W5 every alias targets a name registered in the same into_rpc and "
    "the registration function matches the declaration (blocking / async / sync / subscription kinds). "
    "NOT decided: equality of argument values across serde; declarations outside the corpus."
)
RULE_TEXT = "programs = #[rpc] declarations analysed; disagreements checked = wiring obligations (W1-W5) over them; a case is non-trivial when it has at least one parameter or an alias"
TRUSTED = ["rustc macro expansion + MIR", "serde derive for the generated ParamsObject"]
ASSUMPTIONS = ["declarations outside the corpus are not covered"]

REG = r"RpcModule::<Context>::(register_method|register_async_method|register_blocking_method|register_subscription|register_subscription_raw)$"


def _const_str(tr, body, op):
    out = set()
    for l in tr.origins(body, op):
        if l.kind == "const" and "str" in l.detail:
            out.add(l.detail["str"])
    return out


def collect(F, tr):
    """-> {trait: {"client": {rust: info}, "server": {rust: info}, "aliases": [(alias, target)], "registered": set}}"""
    traits = {}
    for b in F.real_bodies():
        m = re.match(r"^([\w:]+?)::(\w+)Client::(\w+)$", b.path)
        if m and b.kind == "AssocFn":
            t = traits.setdefault((m.group(1), m.group(2)), {"client": {}, "server": {}, "aliases": [], "registered": {}})
            info = {"body": b, "inserts": [], "call": None}
            for c in sorted(b.calls, key=lambda c: len(b.dom.get(c.bb, ()))):
                nm = c.name() or ""
                if re.search(r"params::ArrayParams::insert$", nm):
                    info["inserts"].append({"key": None, "val": c.args[1], "site": c})
                elif re.search(r"params::ObjectParams::insert$", nm):
                    info["inserts"].append({"key": _const_str(tr, b, c.args[1]), "val": c.args[2], "site": c})
                elif re.search(r"client::ClientT::(request|notification)$|client::SubscriptionClientT::subscribe$", c.callee or ""):
                    info["call"] = c
            t["client"][m.group(3)] = info
        m = re.match(r"^([\w:]+?)::(\w+)Server::into_rpc$", b.path)
        if m:
            t = traits.setdefault((m.group(1), m.group(2)), {"client": {}, "server": {}, "aliases": [], "registered": {}})
            t["into_rpc"] = b
            for c in b.calls:
                nm = c.name() or ""
                r = re.search(REG, nm)
                if r:
                    names = [_const_str(tr, b, a) for a in c.args[1:-1]]
                    clos = None
                    for l in tr.origins(b, c.args[-1]):
                        if l.kind == "closure":
                            clos = F.bodies.get(l.detail["def"])
                    info = {"kind": r.group(1), "names": names, "closure": clos, "site": c}
                    # which trait method does the closure call?
                    target = None
                    if clos is not None:
                        for x in F.nested(clos):
                            for cc in x.calls:
                                mm = re.match(r"^%s::%sServer::(\w+)$" % (re.escape(m.group(1)), re.escape(m.group(2))), cc.callee or "")
                                if mm:
                                    target = (mm.group(1), x, cc)
                    info["target"] = target
                    if target is not None:
                        t["server"][target[0]] = info
                    for n in names[:1]:
                        for s in n:
                            t["registered"][s] = r.group(1)
                    if r.group(1).startswith("register_subscription") and len(names) >= 3:
                        for s in names[2]:
                            t["registered"][s] = "unsubscribe"
                elif re.search(r"RpcModule::<Context>::register_alias$", nm):
                    t["aliases"].append((_const_str(tr, b, c.args[1]), _const_str(tr, b, c.args[2]), c))
    return traits


def _decode_sites(F, tr, body):
    """decode calls of a server closure in dominance order: list of (call, 'next'|'optional_next')"""
    out = []
    for c in body.calls:
        nm = c.name() or ""
        r = re.search(r"ParamsSequence::<'a>::(next|optional_next)$", nm)
        if r and not re.search(r"next_inner", nm):
            out.append((c, r.group(1)))
    out.sort(key=lambda x: len(body.dom.get(x[0].bb, ())))
    return out


def _field_visitor(F, clos):
    """string -> field index accepted by the ParamsObject generated in closure `clos` (or nested)"""
    res = {}
    pref = clos.path
    for b in F.real_bodies():
        if (pref + "::") in b.path and re.search(r"ParamsObject<.*>>::deserialize::__FieldVisitor as .*>::visit_str$", b.path):
            for c in b.calls_to(r"PartialEq.*::eq$"):
                lit = None
                for a in c.args:
                    k = op_const(a)
                    if k and "str" in k:
                        lit = k["str"]
                if lit is None:
                    continue
                for sb, arms, other in flow.switch_on(b, c.dest["l"]):
                    tt = other if "0" in arms else arms.get("1")
                    seen, work = set(), [tt]
                    while work:
                        x = work.pop()
                        if x in seen or x is None:
                            continue
                        seen.add(x)
                        hit = False
                        for st in b.blocks[x]["st"]:
                            if st["s"] == "assign" and st["rv"]["k"] == "agg" and st["rv"].get("adt", "").endswith("__Field"):
                                mm = re.match(r"__field(\d+)$", st["rv"]["variant"])
                                if mm:
                                    res[lit] = int(mm.group(1))
                                hit = True
                        if not hit and len(b.succ[x]) == 1:
                            work.append(b.succ[x][0])
    return res


def _expected_name(t, rpc):
    if t["namespace"]:
        return t["namespace"] + (t["separator"] or "_") + rpc
    return rpc


def client_encodes_every_argument(ctx, rule):
    """every generated client stub puts every argument into its params builder on every path to the call (positional: a
    skipped `None` shifts the later values; by-name: the object no longer has the same key/value pairs that were passed)"""
    F, R = ctx.F, ctx.R
    tr = ctx.tracer(follow_callers=False, follow_fields=False)
    traits = collect(F, tr)
    n = 0
    for (crate, tname), t in sorted(traits.items()):
        for rust, ci in sorted(t["client"].items()):
            if ci["call"] is None:
                continue
            cb = ci["body"]
            n += 1
            R.fn(cb)
            wi = {}
            for ins in ci["inserts"]:
                wi[ins["site"].bb] = wi.get(ins["site"].bb, 0) + 1
            pc = flow.path_counts(cb, 0, wi, stop={ci["call"].bb})
            R.paths_enumerated += 1
            want = cb.argc - 1
            R.check(pc == (want, want), rule, "%s::%s::%s:encodes-all" % (crate, tname, rust), "every path to the call encodes all %d arguments" % want, "the generated client stub %s::%s encodes %s of its %d arguments depending on the path: an argument that is `None` is left out of the params (by-name: the key/value pair is missing on the wire; positional: later values shift)" % (tname, rust, pc, want), "%s:%d" % (cb.file, cb.lo))
    return n


def client_kind_matches_declaration(ctx, rule):
    """a declaration with `param_kind = map` is encoded by name (ObjectParams::insert under the declared key, renames
    included), any other positionally (ArrayParams::insert) - for methods and for subscriptions alike. Corpus only (the
    declared kind comes from the corpus spec)."""
    F, R = ctx.F, ctx.R
    if ctx.config != "corpus":
        return 0
    from .. import extract
    sp = os.path.join(extract.CACHE, "corpus", "spec.json")
    if not os.path.exists(sp):
        raise AnchorLost("corpus spec.json at %s" % sp)
    spec = {t["name"]: t for t in json.load(open(sp))}
    tr = ctx.tracer(follow_callers=False, follow_fields=False)
    n = 0
    for (crate, tname), t in sorted(collect(F, tr).items()):
        sp_t = spec.get(tname)
        if sp_t is None:
            continue
        for rust, ci in sorted(t["client"].items()):
            d = next((m for m in sp_t["methods"] + sp_t["subs"] if m["rust"] == rust), None)
            if d is None or not d["params"]:
                continue
            n += 1
            want_map = sp_t["kind"] == "map"
            for j, ins in enumerate(ci["inserts"]):
                got_map = ins["key"] is not None
                key = "%s::%s::%s:declared-param-kind#%d" % (crate, tname, rust, j)
                if got_map != want_map:
                    R.bad(rule, key, "%s::%s is declared with param_kind = %s but its client stub encodes parameter %d %s: the call no longer carries %s" % (tname, rust, sp_t["kind"], j, "by name" if got_map else "positionally", "the declared key/value pairs (the renamed keys are lost)" if want_map else "the positional values"), where(ins["site"]))
                elif want_map and j < len(d["params"]):
                    want_key = d["params"][j].get("rename") or d["params"][j]["name"]
                    R.check(ins["key"] == {want_key}, rule, key, "parameter %d travels under its declared key `%s`" % (j, want_key), "parameter %d of %s::%s is declared with key `%s` but the client sends %s" % (j, tname, rust, want_key, sorted(ins["key"])), where(ins["site"]))
                else:
                    R.ok(rule, key, "parameter %d is encoded positionally as declared" % j, where(ins["site"]))
    return n


def subscription_decode_failures_are_rejected(ctx, rule):
    """a generated subscription closure answers a parameter that fails to decode by rejecting the pending subscription with
    that error, and the rejection is driven to completion (its future is handed to tokio::spawn or awaited): the failure
    arm of every parameter read reaches such a reject. A rejection that is polled once and dropped (or never issued) is
    replaced by the fallback `internal error` when the connection's queue is momentarily full."""
    F, R = ctx.F, ctx.R
    n = 0
    for b in F.real_bodies():
        if "::into_rpc::{closure#" not in b.path:
            continue
        if not any(re.search(r"PendingSubscriptionSink", l["ty"]) for l in b.locals[1:b.argc + 1]) and not b.calls_to(r"PendingSubscriptionSink::(reject|accept)$"):
            # closures that own a pending sink: the subscription callbacks (sink is a parameter or captured by the async block)
            if "PendingSubscriptionSink" not in " ".join(l["ty"] for l in b.locals):
                continue
        dec = [c for c in b.calls if re.search(r"ParamsSequence::<'a>::(next|optional_next)$|Params::<'a>::(parse|one)$", c.name() or "")]
        if not dec:
            continue
        R.fn(b)
        rej = b.calls_to(r"PendingSubscriptionSink::reject$")
        driven = set()
        for r in rej:
            if r.dest is None:
                continue
            holders = follow_value(b, r.dest["l"])
            for sp in b.calls_to(r"tokio::(task::)?spawn(::spawn)?$|IntoFuture>?::into_future$"):
                if sp.args and op_place(sp.args[0]) is not None and op_place(sp.args[0])["l"] in holders:
                    driven.add(r.bb)
        # a support function of the library that takes the sink over (checked on the library side: C16.REJ)
        for hp in b.calls_to(r"(proc_macros_support|__reexports)::\w+$"):
            if any(op_place(a) is not None and not op_place(a).get("p") and "PendingSubscriptionSink" in b.locals[op_place(a)["l"]]["ty"] for a in hp.args):
                driven.add(hp.bb)
        exits = {bi for bi, blk in enumerate(b.blocks) if blk["term"] and blk["term"]["t"] == "return"}
        for k, c in enumerate(sorted(dec, key=lambda c: c.bb)):
            n += 1
            err_t = [arms["1"] for sb, arms, other in flow.switch_on(b, c.dest["l"]) if arms.get("1") is not None] if c.dest else []
            ok = bool(err_t) and bool(driven) and all(t in driven or flow.all_paths_pass(b, t, driven, exits) for t in err_t)
            R.check(ok, rule, "%s:reject-on-decode-failure@%d" % (fkey(b), k), "a failed parameter read rejects the subscription, and the rejection is driven to completion", "%s: the failure arm of %s does not reach a PendingSubscriptionSink::reject whose future is spawned or awaited%s: the `invalid params` (-32602) answer is lost - e.g. replaced by the fallback `internal error` when the connection's queue is full at that moment" % (short(b.path), (c.name() or "").split("::")[-1], "" if rej or driven else " (the closure never calls reject)"), where(c))
    return n


def server_args_come_from_decoders(ctx, rule):
    """every decoded argument a generated server closure passes to the trait method is, on every path, the result of a
    parameter read (ParamsSequence::next / optional_next, or the by-name Params::parse): no path substitutes a constant
    (`None`) for it without having read the params - a shortcut keyed on something else than the decoders' own verdict
    (e.g. the params text being short) accepts texts the decoders would refuse with -32602."""
    F, R = ctx.F, ctx.R
    tr = ctx.tracer(follow_callers=False, follow_fields=False)
    n = 0
    for (crate, tname), t in sorted(collect(F, tr).items()):
        for rust, si in sorted(t["server"].items()):
            if si.get("target") is None:
                continue
            rust_m, sbody, scall = si["target"]
            for j, a in enumerate(scall.args[1:]):
                lv = tr.origins(sbody, a)
                dec = [l for l in lv if l.kind == "call" and re.search(r"ParamsSequence::<'a>::(next|optional_next)$|Params::<'a>::(parse|one)$", l.detail.get("callee") or "")]
                if not dec:
                    continue   # not a decoded argument (pending sink, extensions, context)
                n += 1
                both = any(re.search(r"ParamsSequence", l.detail.get("callee") or "") for l in dec) and any(re.search(r"Params::<'a>::parse$", l.detail.get("callee") or "") for l in dec)
                R.check(both, rule, "%s::%s::%s:arg#%d-both-encodings" % (crate, tname, rust, j), "argument %d of %s can be read positionally and by name" % (j, rust), "argument %d of %s::%s is decoded %s only: the generated server no longer accepts both encodings for every declaration (a `param_kind = map` method called positionally with an omitted optional tail, or with no params at all, is answered -32602 although the values are there / optional)" % (j, tname, rust, "by name" if not any(re.search(r"ParamsSequence", l.detail.get("callee") or "") for l in dec) else "positionally"), where(scall))
                alien = [l for l in lv if l not in dec and not (l.kind == "call" and re.search(r"Try.*::branch$|from_residual$", l.detail.get("callee") or ""))]
                R.check(not alien, rule, "%s::%s::%s:arg#%d-from-decoder-only" % (crate, tname, rust, j), "argument %d of %s is always a decoded value" % (j, rust), "argument %d of %s::%s can also be %s without any parameter read: a call whose params the decoders would refuse (-32602) is accepted and run with a substituted value" % (j, tname, rust, sorted({flow.leaf_str(l)[:50] for l in alien})[:3]), where(scall))
    return n


def decode_errors_propagate(ctx, rule):
    """in every generated server closure a failed read of a parameter (ParamsSequence::next / optional_next, Params::parse
    for by-name) ends the call with the error: the Result is matched (its Err arm leaves the closure / rejects the
    subscription) and is never collapsed by unwrap_or_default / unwrap_or / ok() - which would turn a value of the wrong
    type into `None` and drop every later argument as well (the sequence is poisoned after an error)"""
    F, R = ctx.F, ctx.R
    n = 0
    swallow = r"Result::<.*>::(unwrap_or_default|unwrap_or|unwrap_or_else|ok|unwrap|expect|map_or|map_or_else|is_ok|is_err)$"
    for b in F.real_bodies():
        if "::into_rpc::{closure#" not in b.path:
            continue
        dec = [c for c in b.calls if re.search(r"ParamsSequence::<'a>::(next|optional_next)$|Params::<'a>::(parse|one)$", c.name() or "")]
        for c in dec:
            n += 1
            R.fn(b)
            if c.dest is None:
                continue
            holders = follow_value(b, c.dest["l"])
            bad = [x for x in b.calls_to(swallow) if x.args and op_place(x.args[0]) is not None and op_place(x.args[0])["l"] in holders]
            matched = bool(flow.switch_on(b, c.dest["l"]))
            R.check(not bad and matched, rule, "%s:%s@%d" % (fkey(b), (c.name() or "").split("::")[-1], sorted(x.bb for x in dec).index(c.bb)), "a failed parameter read ends the call with its error", "%s %s the result of %s: a parameter of the wrong type is %s instead of being answered with `invalid params` (-32602)" % (short(b.path), "collapses" if bad else "does not match on", (c.name() or "").split("::")[-1], "silently read as absent (and the following arguments are lost)" if bad else "not reported"), where(c))
    return n


def w6_runtime_key_encoding(ctx):
    """by-name stubs hand the declared wire name (any string a `rename` may contain) to ObjectParams::insert at run time:
    the only way that name may reach the buffer is serde_json's string serialiser, so that the key the server's field
    visitor compares is the declared one whatever characters it contains"""
    from .common import forward_taint
    F, R = ctx.F, ctx.R
    tr = ctx.tracer(follow_callers=False, follow_fields=False)
    b = F.one(r"^jsonrpsee_core::params::params_builder::ParamsBuilder::insert_named$")
    bodies = F.nested(b)
    for x in bodies:
        R.fn(x)
    ser = []
    raw = []

    def scan(x, seeds, depth):
        tainted = forward_taint(x, seeds) if seeds else set()
        for c in x.calls:
            nm = c.name() or ""
            if not c.args:
                continue
            hit = [i for i, a in enumerate(c.args) if op_place(a) is not None and op_place(a)["l"] in tainted]
            if not hit:
                continue
            if re.search(r"^serde_json::(ser::)?to_writer$", nm):
                ser.append(c)
            elif re.search(r"Vec::<.*>::(extend_from_slice|push|extend|append|insert)$|String::(push_str|push)$|Write>?::(write|write_all|write_str|write_fmt)$|fmt::format$", nm):
                raw.append((x, c))
            else:
                tgt = F.bodies.get(nm)
                if tgt is not None and tgt.crate == b.crate and depth < 2 and tgt.path != x.path:
                    R.fn(tgt)
                    scan(tgt, {i + 1 for i in hit}, depth + 1)

    for x in bodies:
        seeds = {2} if x.path == b.path else set()
        if x.path != b.path:
            # closures capturing the name: any upvar of type &str
            for l, d in enumerate(x.locals):
                if d["ty"] in ("&str", "&&str") and l != 0:
                    seeds.add(l)
        scan(x, seeds, 0)
    R.check(bool(ser), "C17.W6", "insert_named:name-through-serde_json", "the parameter name is written with serde_json::to_writer", "ObjectParams::insert no longer writes the name with serde_json::to_writer", "%s:%d" % (b.file, b.lo))
    for x, c in raw:
        R.bad("C17.W6", "insert_named:raw-name-write:%s" % (c.name() or "").split("::")[-1], "ParamsBuilder::insert_named copies the parameter name into the buffer without JSON escaping (%s): a wire name from #[argument(rename = ..)] that contains `\\`, `\"` or a control character is sent as a different key (or as invalid JSON), so the server's by-name decoding rejects the call" % short(c.name() or ""), where(c))
    if not raw:
        R.ok("C17.W6", "insert_named:no-raw-name-write", "no unescaped copy of the name into the buffer")


def w_rules(ctx):
    F, R = ctx.F, ctx.R
    if ctx.config == "libs-all":
        # W8: every name the generated into_rpc registers is dispatched: the server's dispatcher answers `method not
        # found` only on a miss of the registry lookup itself (no name prefix / kind is refused before or after it)
        from . import c13, c15, c04
        c13.r5_not_found_iff_unbound(ctx, "C17.W8")
        # W9: the value a stub receives is the value the server method returned: the WS client decodes every `{` message
        # as a Response first, unconditionally (C15.R9); the item a subscription method *returns* is delivered like the
        # ones it sends (C04.R4: the close task waits for room instead of try_send)
        c15.r9_client_tries_response_first(ctx)
        c04.r4_close_gating(ctx)
        # W10: every stub call gets the server's value for *its* request: ids are reserved atomically (two parallel callers
        # never share one), and a caller that gave up does not take the connection down for the others (= C03.R9)
        from .common import request_ids_reserved_atomically
        from . import c03
        request_ids_reserved_atomically(ctx, "C17.W10")
        c03.r9_gone_caller_is_not_a_connection_error(ctx)
        # ... and a stub's request is on record before it is written (the answer may be read before the write returns)
        c03.r3_insert_before_send(ctx)
        # W13: the value reaches the stub whatever else the connection is doing: the read task keeps one receive future
        # across select iterations (a reply spanning several reads is not torn when the ping tick fires) (= C05.CANCEL)
        from . import c05
        c05.rcancel_receive_is_cancel_safe(ctx)
        # W14: ... and whatever builder calls configured the client: a builder method that rebuilds the builder (to install
        # a middleware) copies each field from the field of the same name (a response limit overwritten by the request
        # limit refuses replies the configured limit admits)
        # W15: the value a method returns reaches the stub also when its serialisation is exactly as long as the response
        # limit (= C08.R2); W16: a request whose array carries whitespace before a separator reaches the method (= C16.WS)
        from . import c08, c16
        c08.r2_bounded_writer(ctx)
        c16.rws_separator_sees_no_whitespace(ctx)
        # W17: one stub call is one invocation: the HTTP transport sends a request once - the send is not inside a loop
        # (a retry after a stream error re-runs a method whose first run may already have happened)
        sent = 0
        for hb in F.real_bodies():
            if hb.crate != "jsonrpsee_http_client" or not re.search(r"transport::HttpTransportClient::<.*>::inner_send", hb.path):
                continue
            for c in hb.calls_to(r"tower::Service::call$|Service<.*>>::call$"):
                sent += 1
                R.fn(hb)
                R.check(not hb.can_reach(c.bb, c.bb, avoid=()) or c.bb not in hb.reach_from(c.bb), "C17.W17", "%s:request-sent-once" % fkey(hb), "the HTTP transport sends a request once", "%s can send the same request again (the send sits in a loop): the server method may run twice for one stub call, and the caller sees only the second run" % short(hb.path), where(c))
        R.floor("C17.W17", sent, 1, "sends of the HTTP transport")
        # W18: an item a subscription method sends reaches the client, or the method is told it did not: on every path on
        # which SubscriptionSink::send returns Ok the message went through MethodSink::send
        for sb_ in F.find(r"^jsonrpsee_core::server::subscription::SubscriptionSink::send::\{closure#0\}$"):
            R.fn(sb_)
            ws_ = {c.bb for c in sb_.calls_to(r"MethodSink::send$")}
            oks_ = {bi for bi, blk in enumerate(sb_.blocks) if bi in sb_.reachable for st in blk["st"] if st["s"] == "assign" and st["pl"]["l"] == 0 and not st["pl"].get("p") and st["rv"]["k"] == "agg" and st["rv"].get("variant") == "Ok"}
            free_ = (sb_.reach_from(0, avoid=ws_) | {0}) - ws_
            R.check(bool(ws_) and not (free_ & oks_), "C17.W18", "sink-send:ok-means-written", "SubscriptionSink::send returns Ok only after handing the item to the connection", "SubscriptionSink::send can report Ok without having written the item (a path to an Ok return avoids MethodSink::send): the stream silently skips that item", "%s:%d" % (sb_.file, sb_.lo))
        from .common import builder_rebuilds_copy_fields_verbatim
        builder_rebuilds_copy_fields_verbatim(ctx, "C17.W14", r"^jsonrpsee_(http_client::client::HttpClientBuilder|ws_client::WsClientBuilder|core::client::async_client::ClientBuilder|client_transport::ws::WsTransportClientBuilder)\b")
        # W11: the value / error object the server method returned is what is put on the wire: MethodResponse::response
        # serialises the payload it was given (its `inner`, untouched), and a method's answer goes out with HTTP 200 whatever
        # error code it carries (the HTTP client turns any other status into a transport error without reading the body)
        mr = F.one(r"^jsonrpsee_core::server::method_response::MethodResponse::response$")
        R.fn(mr)
        trp = ctx.tracer(follow_callers=False, follow_fields=False, inline_calls=False)
        news = mr.calls_to(r"Response::<.*>::new$")
        firsts = [c for c in news if not any(mr.dominates(o.bb, c.bb) and o.bb != c.bb for o in news)]
        for c in firsts:
            lv = trp.origins(mr, c.args[0])
            ok = bool(lv) and all(l.kind == "field" and l.detail["fields"][-1][1] == "inner" and l.detail.get("idx") == 2 for l in lv)
            R.check(ok, "C17.W11", "response:serialises-the-given-payload", "MethodResponse::response serialises the payload it was given", "MethodResponse::response serialises %s instead of the payload it was handed: what the client receives is not exactly the value / error object the server method returned (e.g. the `data` of an error is stripped)" % [flow.leaf_str(l)[:70] for l in lv], where(c))
        R.floor("C17.W11", len(firsts), 1, "primary serialisation site of MethodResponse::response")
        from .common import http_status_table
        http_status_table(ctx, "C17.W11", ("from_method_response",))
        # W12: subscription items are delivered one for one: a message the connection queue hands back to a handler is
        # marked complete (C04.R11: a retried item is not enveloped twice), and the client's Subscription::next() is
        # cancel safe - its only suspension point is the poll of the stream itself, nothing is awaited once an item has
        # been taken out (a `yield` after the dequeue loses that item when next() is used in select! / timeout)
        c04.r11_returned_messages_are_complete(ctx)
        nb = F.one(r"^jsonrpsee_core::client::Subscription::<Notif>::next::\{closure#0\}$")
        R.fn(nb)
        aw = [c for c in nb.calls_to(r"IntoFuture>?::into_future$") if str(c.exp or "").startswith("d:Await")]
        trn = ctx.tracer(follow_callers=False, follow_fields=False, inline_calls=False)
        kinds = sorted({(l.detail.get("callee") or "?") if l.kind == "call" else flow.leaf_str(l)[:40] for c in aw for l in trn.origins(nb, c.args[0])})
        R.check(len(aw) == 1 and all(re.search(r"StreamExt::next$", k) for k in kinds), "C17.W12", "Subscription::next:single-await", "Subscription::next awaits the stream and nothing else", "Subscription::next has %d suspension points (%s): an await after an item was dequeued makes next() lose that item whenever its future is dropped there (select!, timeout)" % (len(aw), [short(k) for k in kinds]), "%s:%d" % (nb.file, nb.lo))
        return w6_runtime_key_encoding(ctx)
    tr = ctx.tracer(follow_callers=False, follow_fields=False)
    traits = collect(F, tr)
    spec = {}
    if ctx.config == "corpus":
        from .. import extract

        sp = os.path.join(extract.CACHE, "corpus", "spec.json")
        if not os.path.exists(sp):
            raise AnchorLost("corpus spec.json at %s" % sp)
        for t in json.load(open(sp)):
            spec[t["name"]] = t
    progs = R.extra.setdefault("C17.programs", {})
    ndecl = 0
    for (crate, tname), t in sorted(traits.items()):
        if "into_rpc" not in t or not t["client"]:
            continue  # only declarations with both sides
        sp_t = spec.get(tname)
        decls = sorted(set(t["client"]) & set(t["server"]))
        missing_server = sorted(set(t["client"]) - set(t["server"]))
        R.check(not missing_server, "C17.W1", "%s::%s:every-client-stub-has-a-server-registration" % (crate, tname), "every client stub of %s has a registered server method" % tname, "client stubs %s of %s have no server registration that reaches the trait method of that name" % (missing_server, tname), "%s:%d" % (t["into_rpc"].file, t["into_rpc"].lo))
        for rust in decls:
            ndecl += 1
            ci, si = t["client"][rust], t["server"][rust]
            cb = ci["body"]
            R.fn(cb)
            key = "%s::%s::%s" % (crate, tname, rust)
            progs[key] = {"kind": si["kind"], "params": len(ci["inserts"])}
            loc = "%s:%d" % (cb.file, cb.lo)
            # ---- W1 names
            if ci["call"] is None:
                R.bad("C17.W1", key + ":client-call", "client stub %s makes no request/notification/subscribe call" % key, loc)
                continue
            cc = ci["call"]
            is_sub = (cc.callee or "").endswith("subscribe")
            cname = _const_str(tr, cb, cc.args[1])
            sname = si["names"][0] if si["names"] else set()
            R.check(len(cname) == 1 and cname == sname, "C17.W1", key + ":name", "client and server agree on the RPC name %s" % sorted(cname), "client stub calls %s but the server registers the method under %s" % (sorted(cname), sorted(sname)), loc)
            if is_sub:
                cun = _const_str(tr, cb, cc.args[3])
                sun = si["names"][2] if len(si["names"]) > 2 else set()
                R.check(len(cun) == 1 and cun == sun, "C17.W1", key + ":unsubscribe-name", "client and server agree on the unsubscribe name %s" % sorted(cun), "client unsubscribes with %s but the server registers %s" % (sorted(cun), sorted(sun)), loc)
                R.check(si["kind"].startswith("register_subscription"), "C17.W5", key + ":kind", "a subscription stub is served by a subscription registration", "client stub subscribes but the server registers it with %s" % si["kind"], loc)
            else:
                R.check(not si["kind"].startswith("register_subscription"), "C17.W5", key + ":kind", "a method stub is served by a method registration", "client stub sends a request but the server registers a subscription", loc)
            if sp_t is not None:
                d = next((m for m in sp_t["methods"] + sp_t["subs"] if m["rust"] == rust), None)
                if d is None:
                    R.bad("C17.W1", key + ":spec", "declaration %s is missing from the corpus spec" % key, loc)
                else:
                    exp = _expected_name(sp_t, d["rpc"])
                    R.check(cname == {exp}, "C17.W1", key + ":declared-name", "the name on the wire is the declared one (%s)" % exp, "declaration says %s (namespace %r separator %r) but the generated code uses %s" % (exp, sp_t["namespace"], sp_t["separator"], sorted(cname)), loc)
                    if is_sub:
                        expn = _expected_name(sp_t, d["notif"]) if d["notif"] else exp
                        if d["unsub"]:
                            expu = _expected_name(sp_t, d["unsub"])
                        else:
                            expu = _expected_name(sp_t, "un" + d["rpc"])
                        R.check(si["names"][1] == {expn}, "C17.W1", key + ":declared-notif-name", "notifications use the declared name (%s)" % expn, "declared notification name %s, registered %s" % (expn, sorted(si["names"][1])), loc)
                        R.check(si["names"][2] == {expu}, "C17.W1", key + ":declared-unsubscribe-name", "unsubscribe uses the declared name (%s)" % expu, "declared unsubscribe name %s, registered %s" % (expu, sorted(si["names"][2])), loc)
                    want_kind = {"sync": "register_method", "async": "register_async_method", "blocking": "register_blocking_method"}.get(d["mode"]) if d in sp_t["methods"] else ("register_subscription" if d["mode"] == "async" else "register_subscription_raw")
                    R.check(si["kind"] == want_kind, "C17.W5", key + ":declared-kind", "%s declaration -> %s" % (d["mode"], want_kind), "a %s declaration is registered with %s (expected %s)" % (d["mode"], si["kind"], want_kind), loc)
                    R.check(len(ci["inserts"]) == len(d["params"]), "C17.W2", key + ":declared-arity", "the stub encodes %d parameters" % len(d["params"]), "declaration has %d parameters, the client stub encodes %d" % (len(d["params"]), len(ci["inserts"])), loc)
            # every parameter is encoded on every path to the call (no conditional omission: an omitted earlier `None`
            # would shift the later values to the wrong position)
            wi = {}
            for ins in ci["inserts"]:
                wi[ins["site"].bb] = wi.get(ins["site"].bb, 0) + 1
            pc = flow.path_counts(cb, 0, wi, stop={cc.bb})
            R.paths_enumerated += 1
            R.check(pc == (len(ci["inserts"]), len(ci["inserts"])), "C17.W2", key + ":client-encodes-all-on-every-path", "every path to the call encodes all %d parameters" % len(ci["inserts"]), "the client stub encodes between %s parameters depending on the path (declared: %d): an argument can be omitted and later ones shift position" % (pc, len(ci["inserts"])), loc)
            # ---- W2 client order: the k-th insert's value is parameter k+2 (after &self)
            for k, ins in enumerate(ci["inserts"]):
                lv = tr.origins(cb, ins["val"])
                idxs = {l.detail["idx"] for l in lv if l.kind == "param" and l.detail["fn"] == cb.path}
                R.check(idxs == {k + 2}, "C17.W2", key + ":client-order#%d" % k, "client encodes parameter %d at position %d" % (k, k), "client stub encodes its parameter(s) #%s at position %d (declaration order is broken)" % (sorted(i - 2 for i in idxs), k), where(ins["site"]))
            # ---- server side
            rust_m, sbody, scall = si["target"]
            R.fn(sbody)
            dec = _decode_sites(F, tr, sbody)
            nfixed = 1  # &self
            args = scall.args[nfixed:]
            # leading non-decoded arguments (pending sink, extensions) have no decode origin: skip them
            dargs = []
            for a in args:
                lv = tr.origins(sbody, a)
                srcs = [l for l in lv if l.kind == "call" and re.search(r"ParamsSequence::<'a>::(next|optional_next)$", l.detail["callee"] or "")]
                flds = [l for l in lv if l.kind == "call" and re.search(r"Params::<'a>::parse$", l.detail["callee"] or "")]
                if srcs or flds:
                    dargs.append((a, srcs, flds, lv))
            R.check(len(dargs) == len(ci["inserts"]) and len(dec) == len(ci["inserts"]), "C17.W2", key + ":arity", "server decodes %d values and passes %d decoded arguments" % (len(dec), len(dargs)), "client encodes %d parameters, the server decodes %d and passes %d decoded arguments to %s" % (len(ci["inserts"]), len(dec), len(dargs), rust), where(scall))
            vis = _field_visitor(F, si["closure"]) if si["closure"] is not None else {}
            for j, (a, srcs, flds, lv) in enumerate(dargs):
                # positional: the decode call feeding argument j is the j-th decode call
                pos = {next((i for i, (dc, _) in enumerate(dec) if dc.bb == l.detail["bb"] and l.where == sbody.path), None) for l in srcs}
                R.check(pos == {j}, "C17.W2", key + ":server-order#%d" % j, "argument %d of %s is the %d-th decoded value" % (j, rust, j), "argument %d of %s::%s receives the decoded value(s) #%s: positions are crossed between decoding and the call" % (j, tname, rust, sorted(str(p) for p in pos)), where(scall))
                # by-name: the ParamsObject field feeding argument j is field j
                fidx = set()
                for l in flds:
                    m = re.findall(r"\.(\w+)", " ".join(l.chain))
                    # the chain contains `parsed.<field>`; field names are the Rust parameter names, in declaration order
                fld_names = set()
                for l in lv:
                    if l.kind == "call" and re.search(r"Params::<'a>::parse$", l.detail["callee"] or ""):
                        mm = re.search(r"parsed/_\d+\.(\w+)|\.(\w+) <- [^<]*Params", " ".join(l.chain))
                        for ch in l.chain:
                            m2 = re.search(r"(?:^|:)(?:\w+/)?_\d+\.([A-Za-z_]\w*)$", ch)
                            if m2:
                                fld_names.add(m2.group(1))
                if flds:
                    want = cb.local_name(j + 2)
                    if not fld_names:
                        R.uncovered.append("%s: by-name field of argument %d could not be read off the trace" % (key, j))
                    R.check(fld_names == {want} if fld_names else True, "C17.W2", key + ":server-by-name#%d" % j, "argument %d comes from the by-name field of parameter %d" % (j, j), "argument %d of %s::%s is filled from by-name field %s (parameter %d is `%s`)" % (j, tname, rust, sorted(fld_names), j, want), where(scall))
                # ---- W3 optional tails
                ty = None
                p = op_place(a)
                if p is not None:
                    ty = sbody.locals[p["l"]]["ty"]
                is_opt = bool(ty) and ty.startswith("std::option::Option<")
                kinds = {dec[i][1] for i in pos if i is not None}
                if kinds:
                    R.check(kinds == ({"optional_next"} if is_opt else {"next"}), "C17.W3", key + ":optional#%d" % j, "parameter %d (%s) is read with %s" % (j, "Option" if is_opt else "required", "optional_next" if is_opt else "next"), "parameter %d of %s::%s has type %s but is read with %s: %s" % (j, tname, rust, ty, sorted(kinds), "an omitted trailing argument becomes an error" if is_opt else "a missing required argument is silently accepted"), where(scall))
                # ---- W4 by-name keys
                if ci["inserts"][j]["key"] is not None if j < len(ci["inserts"]) else False:
                    keys = ci["inserts"][j]["key"]
                    okk = len(keys) == 1 and all(vis.get(k_) == j for k_ in keys)
                    R.check(okk, "C17.W4", key + ":key#%d" % j, "client key %s is accepted for field %d by the server" % (sorted(keys), j), "the client sends parameter %d under key %s but the server's field visitor maps %s (accepted keys: %s)" % (j, sorted(keys), {k_: vis.get(k_) for k_ in keys}, sorted(vis)), where(ci["inserts"][j]["site"]))
                    if sp_t is not None:
                        d = next((m for m in sp_t["methods"] + sp_t["subs"] if m["rust"] == rust), None)
                        if d and j < len(d["params"]):
                            want_key = d["params"][j].get("rename") or d["params"][j]["name"]
                            R.check(keys == {want_key}, "C17.W4", key + ":declared-key#%d" % j, "parameter %d travels under its declared key `%s`" % (j, want_key), "parameter %d is declared with key `%s` but the client sends %s" % (j, want_key, sorted(keys)), where(ci["inserts"][j]["site"]))
        # ---- W5 aliases
        for al, tg, site in t["aliases"]:
            ok = len(tg) == 1 and all(x in t["registered"] for x in tg)
            R.check(ok, "C17.W5", "%s::%s:alias:%s" % (crate, tname, "|".join(sorted(al))), "alias %s targets a name registered in the same module" % sorted(al), "alias %s targets %s, which into_rpc does not register" % (sorted(al), sorted(tg)), where(site))
        if sp_t is not None:
            want_al = set()
            for m in sp_t["methods"]:
                for a in m["aliases"]:
                    want_al.add((a, _expected_name(sp_t, m["rpc"])))
            for s_ in sp_t["subs"]:
                for a in s_["aliases"]:
                    want_al.add((a, _expected_name(sp_t, s_["rpc"])))
                for a in s_["unsub_aliases"]:
                    want_al.add((a, _expected_name(sp_t, s_["unsub"] or ("un" + s_["rpc"]))))
            got_al = {(next(iter(a)), next(iter(g))) for a, g, _ in t["aliases"] if len(a) == 1 and len(g) == 1}
            R.check(got_al == want_al, "C17.W5", "%s::%s:declared-aliases" % (crate, tname), "aliases registered = aliases declared (%d)" % len(want_al), "declared aliases %s, registered %s" % (sorted(want_al - got_al), sorted(got_al - want_al)), "%s:%d" % (t["into_rpc"].file, t["into_rpc"].lo))
            want_decl = {m["rust"] for m in sp_t["methods"] + sp_t["subs"]}
            R.check(set(decls) == want_decl, "C17.W1", "%s::%s:all-declarations-present" % (crate, tname), "all %d declarations of %s were analysed" % (len(want_decl), tname), "declarations %s of %s are missing from the facts" % (sorted(want_decl - set(decls)), tname), None)
    na = server_args_come_from_decoders(ctx, "C17.W3")
    if ctx.config == "corpus":
        R.floor("C17.W3.args", na, 60, "decoded arguments of generated server closures")
    nk = client_kind_matches_declaration(ctx, "C17.W4")
    if ctx.config == "corpus":
        R.floor("C17.W4.kind", nk, 30, "corpus declarations with parameters whose encoding kind was compared with the declaration")
    nd = decode_errors_propagate(ctx, "C17.W7")
    R.extra["C17.decode_sites." + ctx.config] = nd
    if ctx.config == "corpus":
        R.floor("C17.W7", nd, 40, "parameter reads in the generated server closures of the corpus")
    R.extra["C17.declarations." + ctx.config] = ndecl
    floors = {"corpus": 52, "pmcore": 5, "repo-programs": 34}
    R.floor("C17." + ctx.config, ndecl, floors.get(ctx.config, 1), "#[rpc] declarations analysed in configuration %s" % ctx.config)


def post(R, tier):
    progs = R.extra.get("C17.programs", {})
    R.extra["programs"] = len(progs)
    R.extra["disagreements_checked"] = len({(i["rule"], i["key"]) for i in R.instances})


RULES = [w_rules]

LEVEL_TEXT = (
    "Translation validation of the rpc macro: for every declaration of a finite corpus (a generated family covering the "
    "grid the property names, plus the repository's own #[rpc] programs) the client half and the server half of the "
    "expansion are compared as MIR - names, parameter order and arity, optional-tail reads, by-name keys against the "
    "generated field visitor, aliases and registration kinds - and, for the generated family, against the declaration "
    "itself. Exhaustive over the corpus; values are not executed or compared."
)
LEVEL_NOTE = "Trusted: rustc expansion + MIR; serde derive for ParamsObject. The claim is 'for every declaration analysed' (listed in the evidence), not for all declarations."
TECHNIQUE = "translation validation of macro output over a generated corpus (MIR of the expansion, both halves cross-checked)"

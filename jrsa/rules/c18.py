"""C18 — client bookkeeping returns to empty (effect summaries + lifecycle ledger)."""
import re

from .common import (fkey, where, short, arg_is_local, follow_value, block_line, CORE, err_return_blocks)
from ..facts import op_place, op_const, AnchorLost, is_test_body
from .. import flow

PID = "C18"
LEVEL = "other"
EXPLANATION = (
    "Effect / ledger analysis over MIR of the async client's request manager and its two handler functions. R1 "
    '(effect summaries): for every RequestManager method the net number of entries added to / removed from each of '
    'the four tables (requests, subscriptions, batches, notification_handlers) is computed over all acyclic paths, '
    'separately for paths that report success (Some / Ok) and paths that report failure (None / Err), from the std '
    'HashMap / Entry API calls (insert, VacantEntry::insert = +1; remove, remove_entry = -1; replace in place = 0); a '
    'failure path must have effect 0; the struct has exactly these four tables. R2 (ledger): every lifecycle the '
    'statement names is assembled from the handler paths that realise its events - call; batch; subscribe refused by '
    'an error response / by a malformed subscription id / by a duplicate subscription id; accepted then closed by the '
    'server; accepted then unsubscribed (explicitly, by drop, or for lagging) and acknowledged; accepted but the '
    'caller is gone; notification handler registered then unregistered / closed / lagged - and the summed effect on '
    'every table must be zero. R3 a completion consumes its entry (= C03.R4) and both failure arms of '
    "process_notification remove the handler. ARR inside the loop over an array message's elements "
    'handle_recv_message is left only with an error (a successful early return would leave the batch entry and later '
    'close notifications unprocessed forever). NOT decided: allocator behaviour; that no state exists outside the '
    "four tables beyond the struct's field list."
)
RULE_TEXT = "instances = per-method effect summaries (success / failure), lifecycle sums per table"
TRUSTED = ["rustc MIR", "std HashMap / Entry API semantics"]
ASSUMPTIONS = [
    "a removal whose result is discarded (`let _ = manager.complete_pending_call(reserved_id)`) is counted as removing one entry: the reserved id was inserted earlier in the same lifecycle",
]

MGR = "jsonrpsee_core::client::async_client::manager::RequestManager"
TABLES = {"requests": "Kind", "subscriptions": "SubscriptionId", "batches": "BatchState", "notification_handlers": "SubscriptionSender"}


def _table_of(c):
    ty = (c.self_ty or "") + " " + " ".join(c.ga)
    if "BatchState" in ty or "std::ops::Range<u64>" in ty:
        return "batches"
    if "manager::Kind" in ty:
        return "requests"
    if "SubscriptionSender" in ty and "std::string::String" in ty:
        return "notification_handlers"
    if "SubscriptionId" in ty:
        return "subscriptions"
    return None


PLUS = r"HashMap::<.*>::insert$|VacantEntry::<.*>::insert$|VacantEntry::<.*>::insert_entry$"
MINUS = r"HashMap::<.*>::remove$|HashMap::<.*>::remove_entry$|OccupiedEntry::<.*>::remove$|OccupiedEntry::<.*>::remove_entry$"


def method_summaries(F):
    """{method name: {"ok": {table: (min,max)}, "fail": {...}}}"""
    out = {}
    for b in F.real_bodies():
        if b.kind != "AssocFn" or not b.path.startswith(MGR + "::") or is_test_body(b):
            continue
        name = b.path.split("::")[-1]
        weights = {t: {} for t in TABLES}
        for c in b.calls:
            nm = c.name() or ""
            t = _table_of(c)
            if t is None:
                continue
            if re.search(PLUS, nm):
                weights[t][c.bb] = weights[t].get(c.bb, 0) + 1
            elif re.search(MINUS, nm):
                weights[t][c.bb] = weights[t].get(c.bb, 0) - 1
        ok_blocks, fail_blocks = set(), set()
        for bi, blk in enumerate(b.blocks):
            if blk.get("cleanup") or bi not in b.reachable:
                continue
            for st in blk["st"]:
                if st["s"] == "assign" and st["pl"]["l"] == 0 and not st["pl"].get("p") and st["rv"]["k"] == "agg":
                    v = st["rv"].get("variant")
                    if v in ("Some", "Ok"):
                        ok_blocks.add(bi)
                    elif v in ("None", "Err"):
                        fail_blocks.add(bi)
        # calls that return the Option/Result directly (e.g. HashMap::remove as the tail expression)
        direct = [c for c in b.calls if c.dest is not None and c.dest["l"] == 0]
        summ = {"ok": {}, "fail": {}, "any": {}}
        for t in TABLES:
            summ["any"][t] = flow.path_counts(b, 0, weights[t])
            if ok_blocks:
                summ["ok"][t] = flow.path_counts(b, 0, weights[t], stop=ok_blocks)
            if fail_blocks:
                summ["fail"][t] = flow.path_counts(b, 0, weights[t], stop=fail_blocks)
        out[name] = {"summary": summ, "body": b, "has_ok": bool(ok_blocks), "has_fail": bool(fail_blocks), "direct": bool(direct)}
    return out


def r1_effect_summaries(ctx):
    F, R = ctx.F, ctx.R
    adt = F.adt(MGR)
    if adt is None:
        raise AnchorLost("ADT RequestManager")
    fields = [f["n"] for f in adt["variants"][0]["fields"]]
    R.check(sorted(fields) == sorted(TABLES), "C18.R1", "tables", "the manager's state is exactly the four tables %s" % sorted(TABLES), "RequestManager has fields %s: state outside the analysed tables" % fields, None)
    S = method_summaries(F)
    ctx.R.extra["C18.method_summaries"] = {k: {kk: {t: v for t, v in vv.items() if v and v != (0, 0)} for kk, vv in d["summary"].items()} for k, d in S.items()}
    R.floor("C18.R1", len(S), 15, "RequestManager methods")
    for name, d in S.items():
        R.fn(d["body"])
        for t in TABLES:
            f = d["summary"]["fail"].get(t)
            if f is not None:
                R.check(f == (0, 0), "C18.R1", "%s:fail:%s" % (name, t), "%s leaves `%s` unchanged when it reports failure" % (name, t), "%s changes `%s` by %s on a path that reports failure (None/Err): a refused operation still mutates the bookkeeping" % (name, t, f), "%s:%d" % (d["body"].file, d["body"].lo))
            o = d["summary"]["ok"].get(t)
            if o is not None:
                R.check(o[0] == o[1], "C18.R1", "%s:ok:%s" % (name, t), "%s has one effect on `%s` when it succeeds (%+d)" % (name, t, o[0]), "%s has different effects on `%s` on different success paths: %s" % (name, t, o), "%s:%d" % (d["body"].file, d["body"].lo))
    ctx._c18 = S
    return S


def _eff(S, name, mode):
    d = S.get(name)
    if d is None:
        raise AnchorLost("RequestManager::%s" % name)
    out = {}
    for t in TABLES:
        v = d["summary"][mode].get(t) if d["summary"][mode] else None
        if v is None:
            v = d["summary"]["any"].get(t) if (mode == "ok" and not d["has_ok"]) else ((0, 0) if mode == "fail" else None)
        if v is None:
            v = (0, 0)
        # a direct tail call `self.map.remove(k)`: success removes one
        out[t] = v[0] if mode != "ok" or not d["direct"] else (min(v) if v[0] != v[1] else v[0])
        if d["direct"] and mode == "ok":
            a = d["summary"]["any"].get(t) or (0, 0)
            out[t] = a[0] if abs(a[0]) >= abs(a[1]) else a[1]
    return out


def _event(F, S, body, marker_bb, label):
    """effect of a handler path through block `marker_bb`: manager calls that dominate the marker (with the arm of their
    result that leads to the marker) + manager calls on every path from the marker to the exit"""
    tot = {t: 0 for t in TABLES}
    detail = []
    for c in body.calls:
        nm = c.name() or ""
        if not nm.startswith(MGR + "::"):
            continue
        m = nm.split("::")[-1]
        if m not in S:
            continue
        if c.bb == marker_bb or body.dominates(c.bb, marker_bb):
            mode = "ok"
            dty = body.locals[c.dest["l"]]["ty"] if c.dest is not None else ""
            if c.dest is not None and dty.startswith(("std::option::Option<", "std::result::Result<")):
                is_res = dty.startswith("std::result::Result<")
                ok_dom = fail_dom = False
                for sb, arms, other in flow.switch_on(body, c.dest["l"]):
                    # Option: None=0 Some=1 ; Result: Ok=0 Err=1
                    ok_t = (arms.get("0", other if "1" in arms else None)) if is_res else (arms.get("1", other if "0" in arms else None))
                    fail_t = (arms.get("1", other if "0" in arms else None)) if is_res else (arms.get("0", other if "1" in arms else None))
                    if ok_t is not None and ok_t != fail_t and (ok_t == marker_bb or body.dominates(ok_t, marker_bb)):
                        ok_dom = True
                    if fail_t is not None and ok_t != fail_t and (fail_t == marker_bb or body.dominates(fail_t, marker_bb)):
                        fail_dom = True
                if fail_dom and not ok_dom:
                    mode = "fail"
            # `.is_ok()` / `.is_some()` on the result
            for q in body.calls_to(r"Result::<.*>::is_ok$|Option::<.*>::is_some$|Result::<.*>::is_err$|Option::<.*>::is_none$"):
                if c.dest is not None and arg_is_local(body, q.args[0], c.dest["l"]):
                    pos = q.name().endswith(("is_ok", "is_some"))
                    for sb, arms, other in flow.switch_on(body, q.dest["l"]):
                        t_true = other if "0" in arms else arms.get("1")
                        t_false = arms.get("0")
                        on_true = t_true is not None and (t_true == marker_bb or body.dominates(t_true, marker_bb))
                        on_false = t_false is not None and (t_false == marker_bb or body.dominates(t_false, marker_bb))
                        if on_false and not on_true:
                            mode = "fail" if pos else "ok"
                        elif on_true and not on_false:
                            mode = "ok" if pos else "fail"
            e = _eff(S, m, mode)
            for t in TABLES:
                tot[t] += e[t]
            detail.append("%s[%s]" % (m, mode))
        elif body.can_reach(marker_bb, c.bb) and body.dominates(marker_bb, c.bb):
            e = _eff(S, m, "ok")
            # must be on every path from the marker to the exit to be counted unconditionally
            if flow.all_paths_pass(body, marker_bb, {c.bb}, body.exits):
                for t in TABLES:
                    tot[t] += e[t]
                detail.append("%s[after]" % m)
    return tot, detail


def _add(*es):
    out = {t: 0 for t in TABLES}
    for e in es:
        for t in TABLES:
            out[t] += e[t]
    return out


def r2_ledger(ctx):
    F, R = ctx.F, ctx.R
    S = getattr(ctx, "_c18", None) or method_summaries(F)
    tr = ctx.tracer(follow_callers=False, follow_fields=False)
    hfm = F.one(r"^jsonrpsee_core::client::async_client::handle_frontend_messages::\{closure#0\}$")
    psr = F.one(r"^jsonrpsee_core::client::async_client::helpers::process_single_response$")
    pbr = F.one(r"^jsonrpsee_core::client::async_client::helpers::process_batch_response$")
    pcl = F.one(r"^jsonrpsee_core::client::async_client::(helpers::)?process_subscription_close_response$")
    bum = F.one(r"^jsonrpsee_core::client::async_client::helpers::build_unsubscribe_message$")
    pn = F.one(r"^jsonrpsee_core::client::async_client::helpers::process_notification$")
    for b in (hfm, psr, pbr, pcl, bum, pn):
        R.fn(b)
    ev = {}

    def mark_call(body, pat, label, ok_arm=True):
        cs = body.calls_to(pat)
        if len(cs) != 1:
            raise AnchorLost("%s: expected one call matching %s in %s, found %d" % (label, pat, body.path, len(cs)))
        c = cs[0]
        m = c.bb
        if c.dest is not None:
            for sb, arms, other in flow.switch_on(body, c.dest["l"]):
                is_res = "std::result::Result" in body.locals[c.dest["l"]]["ty"]
                okt = (other if "1" in arms and "0" not in arms else arms.get("0")) if is_res else arms.get("1")
                if okt is not None and ok_arm:
                    m = okt
        ev[label] = _event(F, S, body, m, label)
        return c

    # events in the send task
    mark_call(hfm, r"RequestManager::insert_pending_call$", "call-sent")
    mark_call(hfm, r"RequestManager::insert_pending_batch$", "batch-sent")
    mark_call(hfm, r"RequestManager::insert_pending_subscription$", "subscribe-sent")
    mark_call(hfm, r"RequestManager::insert_notification_handler$", "handler-registered")
    mark_call(hfm, r"RequestManager::remove_notification_handler$", "handler-unregistered")
    # SubscriptionClosed arm: inside a closure `|req_id| build_unsubscribe_message(..)`
    from .common import frontend_family
    sc = [b for root in [hfm] + frontend_family(F)[1] for b in F.nested(root) if b.calls_to(r"helpers::build_unsubscribe_message$")]
    if len(sc) != 1:
        raise AnchorLost("SubscriptionClosed arm calling build_unsubscribe_message")
    un = bum.calls_to(r"RequestManager::unsubscribe$")
    if len(un) != 1:
        raise AnchorLost("RequestManager::unsubscribe in build_unsubscribe_message")
    cont = None
    for br in bum.calls_to(r"Try.*::branch$"):
        if arg_is_local(bum, br.args[0], un[0].dest["l"]):
            for sb, arms, other in flow.switch_on(bum, br.dest["l"]):
                cont = arms.get("0")
    ev["unsubscribe-sent"] = _event(F, S, bum, cont if cont is not None else un[0].bb, "unsubscribe-sent")
    # events in the read task: process_single_response arms identified by what is sent on the oneshot
    sends = psr.calls_to(r"oneshot::Sender::<.*>::send$")
    kinds = {}
    for s in sends:
        lv = tr.origins(psr, s.args[1])
        desc = None
        for l in lv:
            if l.kind == "agg" and l.detail.get("variant") in ("Ok", "Err"):
                if l.detail["variant"] == "Ok":
                    sub = tr.origins(F.bodies[l.where], l.detail["ops"][0])
                    desc = "ok-tuple" if any(x.kind == "agg" and x.detail.get("adt") == "tuple" for x in sub) else "ok-response"
                else:
                    sub = tr.origins(F.bodies[l.where], l.detail["ops"][0])
                    if any(x.kind == "agg" and x.detail.get("variant") == "Call" for x in sub):
                        desc = "err-call"
                    elif any(x.kind == "agg" and x.detail.get("variant") == "InvalidSubscriptionId" for x in sub):
                        desc = "err-invalid-sub-id"
                    else:
                        desc = "err-other"
        kinds.setdefault(desc, []).append(s)
    # the two refusals (error response / undecodable id) may share one failure branch that reports whichever error it was
    if not kinds.get("err-call") and len(kinds.get("err-other", [])) == 1:
        kinds["err-call"] = kinds["err-other"]
    elif not kinds.get("err-other") and len(kinds.get("err-call", [])) == 1:
        kinds["err-other"] = kinds["err-call"]
    need = {"ok-response": "call-answered", "err-call": "subscribe-refused-error", "err-other": "subscribe-refused-malformed-id", "err-invalid-sub-id": "subscribe-refused-duplicate-id", "ok-tuple": "subscribe-accepted"}
    for k, label in need.items():
        if len(kinds.get(k, [])) != 1:
            raise AnchorLost("process_single_response arm `%s` (found %d oneshot sends of that kind; kinds=%s)" % (label, len(kinds.get(k, [])), {a: len(b_) for a, b_ in kinds.items()}))
        s = kinds[k][0]
        m = s.bb
        if k == "ok-tuple":
            # accepted = the Ok arm of the send; caller gone = its Err arm
            for sb, arms, other in flow.switch_on(psr, s.dest["l"]):
                okt, errt = arms.get("0"), arms.get("1")
            ev["subscribe-accepted"] = _event(F, S, psr, okt, label)
            ev["subscribe-accepted-caller-gone"] = _event(F, S, psr, errt, "caller-gone")
            # the unsubscribe built there
            be = _event(F, S, bum, cont if cont is not None else un[0].bb, "x")
            ev["subscribe-accepted-caller-gone"] = (_add(ev["subscribe-accepted-caller-gone"][0], be[0]), ev["subscribe-accepted-caller-gone"][1] + ["build_unsubscribe_message:"] + be[1])
        else:
            ev[label] = _event(F, S, psr, m, label)
    # ack of an unsubscribe call: complete_pending_call -> Some(None)
    cpc = [c for c in psr.calls_to(r"RequestManager::complete_pending_call$")]
    first = sorted(cpc, key=lambda c: len(psr.dom[c.bb]))[0]
    ev["unsubscribe-acked"] = ({t: _eff(S, "complete_pending_call", "ok")[t] for t in TABLES}, ["complete_pending_call[ok]"])
    # batch answered
    bs = pbr.calls_to(r"oneshot::Sender::<.*>::send$")
    if len(bs) != 1:
        raise AnchorLost("completion send in process_batch_response")
    ev["batch-answered"] = _event(F, S, pbr, bs[0].bb, "batch-answered")
    # server close
    rs = pcl.calls_to(r"RequestManager::remove_subscription$")
    if len(rs) != 1:
        raise AnchorLost("remove_subscription in process_subscription_close_response")
    ev["server-closed"] = _event(F, S, pcl, rs[0].bb, "server-closed")
    # notification handler closed / lagged
    rn = pn.calls_to(r"RequestManager::remove_notification_handler$")
    if len(rn) != 2:
        raise AnchorLost("two remove_notification_handler sites in process_notification (found %d)" % len(rn))
    ev["handler-closed"] = _event(F, S, pn, rn[0].bb, "handler-closed")
    ev["handler-lagged"] = _event(F, S, pn, rn[1].bb, "handler-lagged")
    R.extra["C18.events"] = {k: {"effect": {t: v for t, v in e[0].items() if v}, "calls": e[1]} for k, e in ev.items()}
    lifecycles = {
        "call": ["call-sent", "call-answered"],
        "batch": ["batch-sent", "batch-answered"],
        "subscribe-refused-by-error-response": ["subscribe-sent", "subscribe-refused-error"],
        "subscribe-refused-malformed-subscription-id": ["subscribe-sent", "subscribe-refused-malformed-id"],
        "subscribe-refused-duplicate-subscription-id": ["subscribe-sent", "subscribe-refused-duplicate-id"],
        "subscribe-accepted-then-server-close": ["subscribe-sent", "subscribe-accepted", "server-closed"],
        "subscribe-accepted-then-unsubscribe-or-drop-or-lag-then-ack": ["subscribe-sent", "subscribe-accepted", "unsubscribe-sent", "unsubscribe-acked"],
        "subscribe-accepted-but-caller-gone-then-ack": ["subscribe-sent", "subscribe-accepted-caller-gone", "call-sent", "unsubscribe-acked"],
        "notification-handler-register-unregister": ["handler-registered", "handler-unregistered"],
        "notification-handler-register-closed": ["handler-registered", "handler-closed"],
        "notification-handler-register-lagged": ["handler-registered", "handler-lagged"],
    }
    for name, evs in lifecycles.items():
        tot = _add(*[ev[e][0] for e in evs])
        left = {t: v for t, v in tot.items() if v != 0}
        steps = " ; ".join("%s{%s}" % (e, ",".join(ev[e][1])) for e in evs)
        # the key of a violation names the lifecycle *and* what is left behind, so that a listed known finding never masks
        # a different residue on the same lifecycle
        lkey = "lifecycle:%s" % name + ("" if not left else ":left=" + ",".join("%s%+d" % (t, v) for t, v in sorted(left.items())))
        R.check(not left, "C18.R2", lkey, "lifecycle `%s` nets to zero entries in every table" % name, "after the lifecycle `%s` the client keeps %s (entries left per table): its bookkeeping grows with every such subscription/request  [%s]" % (name, left, steps), "%s:%d" % (psr.file, psr.lo), {"events": evs, "left": left, "steps": steps})
    R.floor("C18.R2", len(lifecycles), 11, "lifecycles")


def r3_notification_arms(ctx):
    F, R = ctx.F, ctx.R
    pn = F.one(r"^jsonrpsee_core::client::async_client::helpers::process_notification$")
    s = pn.calls_to(r"SubscriptionSender::send$")
    R.check(len(s) == 1, "C18.R3", "process_notification:send", "one delivery site", "%d delivery sites" % len(s), "%s:%d" % (pn.file, pn.lo))
    for c in s:
        err_t = None
        for sb, arms, other in flow.switch_on(pn, c.dest["l"]):
            err_t = arms.get("1", other if "0" in arms else None)
        rn = [x for x in pn.calls_to(r"RequestManager::remove_notification_handler$") if err_t is not None and pn.dominates(err_t, x.bb)]
        ok = err_t is not None and len(rn) >= 2 and flow.all_paths_pass(pn, err_t, {x.bb for x in rn}, pn.exits)
        R.check(ok, "C18.R3", "process_notification:failed-delivery-removes-handler", "a closed or lagging notification handler is removed on every failure path", "a failed delivery to a notification handler can leave the handler registered (it is then retried forever and never freed)", where(c))


def r4_lost_drop_is_recovered(ctx):
    """a dropped subscription whose best-effort drop message was lost is collected when its next notification arrives:
    both failed-delivery arms of process_subscription_response ask for closure (= C05.R3)"""
    from . import c05

    c05.r3_lag_and_close(ctx)



def r5_no_unaccounted_success_path(ctx):
    """the ledger (R2) prices the paths that go through its event markers; this rule closes the gap: there is no *other*
    way through the response handlers that leaves a success return. (a) process_batch_response returns Ok only after
    complete_pending_batch removed the batch's entry - an early `return Ok(())` for an abandoned batch keeps the entry
    forever and absorbs later replies with those ids; (b) in process_single_response, once complete_pending_subscription
    took the pending entry out, every path to an exit either goes on to insert_subscription (priced by R2) or releases the
    reserved unsubscribe id with complete_pending_call - a shortcut that returns an unsubscribe request without
    releasing the reservation leaves that id pending for good and the request is then refused as a duplicate."""
    F, R = ctx.F, ctx.R
    pbr = F.one(r"^jsonrpsee_core::client::async_client::helpers::process_batch_response$")
    psr = F.one(r"^jsonrpsee_core::client::async_client::helpers::process_single_response$")
    R.fn(pbr)
    R.fn(psr)

    def ok_returns(b):
        out = set()
        for bi, blk in enumerate(b.blocks):
            if bi not in b.reachable or blk.get("cleanup"):
                continue
            for st in blk["st"]:
                if st["s"] == "assign" and st["pl"]["l"] == 0 and not st["pl"].get("p") and st["rv"]["k"] == "agg" and st["rv"].get("variant") == "Ok":
                    out.add(bi)
        return out

    cpb = pbr.calls_to(r"RequestManager::complete_pending_batch$")
    oks = ok_returns(pbr)
    if len(cpb) != 1 or not oks:
        raise AnchorLost("complete_pending_batch / Ok(..) in process_batch_response")
    some_t = None
    for sb, arms, other in flow.switch_on(pbr, cpb[0].dest["l"]):
        some_t = arms.get("1")
    R.check(some_t is not None and all(pbr.dominates(some_t, o) for o in oks), "C18.R5", "batch:ok-only-after-entry-removed", "process_batch_response returns Ok only on the arm where the batch's entry was taken out of the manager", "process_batch_response has a successful return that does not go through the Some arm of complete_pending_batch: the batch's entry stays in the manager for good (one entry per such batch) and later replies spanning its ids are absorbed instead of rejected", where(cpb[0]))
    cps = psr.calls_to(r"RequestManager::complete_pending_subscription$")
    if len(cps) != 1:
        raise AnchorLost("complete_pending_subscription in process_single_response")
    c = cps[0]
    m = None
    # `...ok_or(..)?` : the Continue arm of the `?`
    holders = follow_value(psr, c.dest["l"])
    for x in psr.calls_to(r"Option::<.*>::ok_or(_else)?$"):
        if arg_is_local(psr, x.args[0], c.dest["l"]):
            holders |= follow_value(psr, x.dest["l"])
    for br in psr.calls_to(r"Try.*::branch$"):
        p0 = op_place(br.args[0])
        if p0 is not None and p0["l"] in holders:
            for sb, arms, other in flow.switch_on(psr, br.dest["l"]):
                m = arms.get("0")
    if m is None:
        for sb, arms, other in flow.switch_on(psr, c.dest["l"]):
            m = arms.get("1")
    if m is None:
        raise AnchorLost("the arm of process_single_response on which the pending subscription was taken out")
    ins = [x for x in psr.calls_to(r"RequestManager::insert_subscription$") if psr.dominates(m, x.bb)]
    rel = [x for x in psr.calls_to(r"RequestManager::complete_pending_call$") if psr.dominates(m, x.bb)]
    R.check(bool(ins) and bool(rel), "C18.R5", "subscribe:shape", "the arm re-inserts the subscription or releases the reservation", "process_single_response's pending-subscription arm has %d insert_subscription and %d reservation releases" % (len(ins), len(rel)), "%s:%d" % (psr.file, psr.lo))
    ok = flow.all_paths_pass(psr, m, {x.bb for x in ins} | {x.bb for x in rel}, psr.exits)
    R.check(ok, "C18.R5", "subscribe:every-exit-reinserts-or-releases", "after the pending subscription was taken out, every way out re-inserts it as active or releases the reserved unsubscribe id", "process_single_response can leave its pending-subscription arm without inserting the subscription and without releasing the reserved unsubscribe id: that id stays pending forever (it swallows a later response bearing it, and an unsubscribe request using it is refused as a duplicate and never sent)", "%s:%d" % (psr.file, block_line(psr, m)))
    # (c) the front-end's "I am done with this method subscription" message always removes the handler: on the
    # UnregisterNotification arm of handle_frontend_messages every path goes through remove_notification_handler
    hfm = F.one(r"^jsonrpsee_core::client::async_client::handle_frontend_messages::\{closure#0\}$")
    R.fn(hfm)
    adt = F.adt("jsonrpsee_core::client::FrontToBack")
    if adt is None:
        raise AnchorLost("enum FrontToBack")
    vidx = {v["n"]: str(i) for i, v in enumerate(adt["variants"])}
    arm = None
    for bi, blk in enumerate(hfm.blocks):
        t = blk["term"]
        if t and t["t"] == "switch" and bi in hfm.reachable:
            p0 = op_place(t["discr"])
            if p0 is None:
                continue
            for b3, s3, d3, src in hfm.defs.get(p0["l"], []):
                if src[0] == "rv" and src[1]["k"] == "discr" and hfm.locals[src[1]["pl"]["l"]]["ty"].endswith("client::FrontToBack"):
                    arms = {v: tb for v, tb in t["arms"]}
                    arm = arms.get(vidx["UnregisterNotification"], t["otherwise"] if len(arms) == len(vidx) - 1 else None)
    if arm is None:
        raise AnchorLost("UnregisterNotification arm of handle_frontend_messages")
    rm = [c for c in hfm.calls_to(r"RequestManager::remove_notification_handler$") if hfm.dominates(arm, c.bb)]
    R.check(bool(rm) and flow.all_paths_pass(hfm, arm, {c.bb for c in rm}, hfm.exits), "C18.R5", "unregister:always-removes-handler", "UnregisterNotification removes the handler on every path", "the UnregisterNotification arm of handle_frontend_messages can finish without removing the notification handler: the entry stays for good (Subscription::unsubscribe on a method subscription never completes, the method cannot be registered again)", "%s:%d" % (hfm.file, block_line(hfm, arm)))
    # on the paths through insert_subscription's failure, the reservation is released too
    for x in ins:
        for q in psr.calls_to(r"Result::<.*>::is_ok$"):
            if arg_is_local(psr, q.args[0], x.dest["l"]):
                for sb, arms, other in flow.switch_on(psr, q.dest["l"]):
                    ft = arms.get("0")
                    if ft is not None:
                        R.check(flow.all_paths_pass(psr, ft, {y.bb for y in rel}, psr.exits) or ft in {y.bb for y in rel}, "C18.R5", "subscribe:refused-insert-releases", "a refused insert releases the reservation", "a refused insert_subscription leaves the reserved unsubscribe id pending", "%s:%d" % (psr.file, block_line(psr, ft)))


GROW = r"(HashSet|HashMap|BTreeSet|BTreeMap)::<.*>::(insert|entry|extend)$|(Vec|VecDeque)::<.*>::(push|push_back|push_front|insert|extend|extend_from_slice|append)$"
SHRINK = r"(HashSet|HashMap|BTreeSet|BTreeMap|Vec|VecDeque)::<.*>::(remove|remove_entry|take|pop|pop_front|pop_back|clear|drain|retain|truncate|swap_remove|split_off)$|^std::mem::(take|replace)$"
COLL = re.compile(r"^(std::collections::(hash::\w+::)?|rustc_hash::)?(Fx)?(HashSet|HashMap|BTreeSet|BTreeMap)<|^std::collections::(VecDeque|BTreeMap|BTreeSet|HashMap|HashSet)<|^std::vec::Vec<")


def r6_no_state_outside_the_manager(ctx):
    """all per-request / per-subscription bookkeeping lives in the RequestManager, whose every path R1/R2/R5 price. The
    client's long-running tasks (read task, send task) keep no collection of their own that is only ever added to: a local
    set/map/vector that outlives a loop iteration and receives inserts inside the loop must also be emptied there,
    otherwise it grows with every finished subscription (and an id remembered in it captures a later subscription that the
    server gives the same id)."""
    F, R = ctx.F, ctx.R
    n = 0
    for pat in (r"^jsonrpsee_core::client::async_client::read_task::\{closure#0\}$", r"^jsonrpsee_core::client::async_client::send_task::\{closure#0\}$", r"^jsonrpsee_core::client::async_client::wait_for_shutdown::\{closure#0\}$"):
        for b in F.find(pat):
            R.fn(b)
            n += 1
            for l, d in enumerate(b.locals):
                if l == 0 or not COLL.match(d["ty"]) or not d.get("user"):
                    continue
                # mutable borrows of the local feed grow / shrink calls
                refs = set()
                for x, defs in b.defs.items():
                    for bi, si, dpl, src in defs:
                        if src[0] == "rv" and src[1]["k"] == "ref" and src[1]["pl"]["l"] == l:
                            refs |= follow_value(b, x)
                grow = [c for c in b.calls_to(GROW) if c.args and op_place(c.args[0]) is not None and op_place(c.args[0])["l"] in refs]
                shrink = [c for c in b.calls_to(SHRINK) if c.args and op_place(c.args[0]) is not None and op_place(c.args[0])["l"] in refs]
                in_loop = [c for c in grow if b.can_reach(c.bb, c.bb)]
                if in_loop and not shrink:
                    R.bad("C18.R6", "%s:grow-only:%s" % (fkey(b), d["ty"].split("<")[0].split("::")[-1]), "%s keeps a %s that is only ever added to, once per loop iteration (%s): the client's memory grows with the number of subscriptions/requests it has finished, and an id remembered there captures later work that reuses it" % (short(b.path), d["ty"][:60], short(in_loop[0].name())), where(in_loop[0]))
    R.ok("C18.R6", "tasks-keep-no-grow-only-state", "no grow-only collection in the %d long-running client task bodies" % n)
    R.floor("C18.R6", n, 3, "long-running client task bodies")


def r7_failed_write_ends_the_task(ctx):
    """bookkeeping done before a message is written (pending entries inserted, a subscription turned into `awaiting the
    unsubscribe acknowledgement`) is only ever undone by the answer to that message - or by the whole client going down,
    which drops the manager. So a failed transport write must end the send task: in handle_frontend_messages and
    stop_subscription the Err of every TransportSenderT::send / stop_subscription leaves the function as an Err on every
    path (with `?` or by hand). A swallowed write error leaves those entries on record for good."""
    from .common import awaited_value_local
    F, R = ctx.F, ctx.R
    n = 0
    from .common import frontend_family
    hfm_, helpers_ = frontend_family(F)
    extra = "|".join(re.escape(h.path[:-len("::{closure#0}")]) + "$" for h in helpers_)
    for b in [hfm_] + helpers_ + F.find(r"^jsonrpsee_core::client::async_client::helpers::stop_subscription::\{closure#0\}$"):
        R.fn(b)
        from .common import awaited_error_leaves_function
        for c in [x for x in b.calls if re.search(r"client::TransportSenderT::send$|async_client::helpers::stop_subscription$" + ("|" + extra if extra else ""), x.name() or x.callee or "") or re.search(r"client::TransportSenderT::send$", x.callee or "")]:
            if re.search(r"\{closure#\d+\}$", c.name() or ""):
                continue
            n += 1
            err_arms, ok = awaited_error_leaves_function(b, c)
            if err_arms is None:
                R.anchor_lost("C18.R7", "awaited result of %s in %s" % (short(c.name()), b.path))
                continue
            R.check(ok, "C18.R7", "%s:write-error-propagates:%s@%d" % (fkey(b), (c.name() or "").split("::")[-1], sorted(x.bb for x in b.calls).index(c.bb)), "a failed write ends the send task with its error", "%s %s %s: the send task goes on although the message was never written, so the pending entries / the `awaiting acknowledgement` markers recorded for it (subscribe id, reserved unsubscribe id) are never resolved and stay in the request manager - a later response with such an id is swallowed" % (short(b.path), "can continue after a failed" if err_arms else "ignores the result of", short(c.name())), where(c))
    R.floor("C18.R7", n, 5, "transport writes in the send path")


def r8_handoff_queue_is_lossless(ctx):
    """closing a lagging / dropped subscription is handed from the read task to the send task through
    MaybePendingFutures: every path through push() hands its argument to FuturesUnordered::push - a bounded, dropping
    hand-off loses the only report some subscription ever gets, which then stays in the manager and is never unsubscribed"""
    F, R = ctx.F, ctx.R
    tr = ctx.tracer(follow_callers=False, follow_fields=False, inline_calls=False)
    b = F.one(r"^jsonrpsee_core::client::async_client::utils::MaybePendingFutures::<Fut>::push$")
    R.fn(b)
    ps = [c for c in b.calls_to(r"FuturesUnordered::<.*>::push$") if any(l.kind == "param" and l.detail.get("idx") == 2 for l in tr.origins(b, c.args[1]))]
    exits = {bi for bi, blk in enumerate(b.blocks) if blk["term"] and blk["term"]["t"] == "return"}
    ok = bool(ps) and (0 in {c.bb for c in ps} or (flow.all_paths_pass(b, 0, {c.bb for c in ps}, exits) and 0 not in exits))
    R.check(ok, "C18.R8", "MaybePendingFutures::push:lossless", "every path through push() queues the future", "MaybePendingFutures::push can return without queueing its argument: the request to unsubscribe a lagging or dropped subscription is lost, so the subscription stays in the request manager (entry, reserved unsubscribe id, reverse lookup) and its stream never ends", "%s:%d" % (b.file, b.lo))
    # and the consumer side yields what was queued: poll_next delegates to the inner FuturesUnordered
    pn = F.find(r"MaybePendingFutures<Fut> as futures_util::Stream>::poll_next$")
    if not pn:
        raise AnchorLost("<MaybePendingFutures as Stream>::poll_next")
    for x in pn:
        R.fn(x)
        R.check(bool(x.calls_to(r"poll_next(_unpin)?$")), "C18.R8", "MaybePendingFutures::poll_next:delegates", "poll_next polls the inner FuturesUnordered", "MaybePendingFutures::poll_next no longer polls the queued futures", "%s:%d" % (x.file, x.lo))



def r9_one_ordered_queue_into_the_send_task(ctx):
    """`identifiers of finished work can never capture a later message`: a SubscriptionClosed emitted by the read task
    carries only the subscription id, so it must be handled before any later front-end message (a subscribe whose new
    subscription may be given the same id by the server). That order is the FIFO of *one* channel: wherever the tasks are
    spawned, the read task's `to_send_task` sender is a clone of the very channel the front end writes to (`to_back`), and
    send_task has a single place where it takes messages for handle_frontend_messages."""
    F, R = ctx.F, ctx.R
    tr = ctx.tracer(follow_callers=False, follow_fields=False, inline_calls=False)
    n = 0
    for b in F.real_bodies():
        if b.crate != CORE or is_test_body(b):
            continue
        rtp = [(bi, st) for bi, blk in enumerate(b.blocks) if not blk.get("cleanup") for st in blk["st"] if st["s"] == "assign" and st["rv"]["k"] == "agg" and (st["rv"].get("adt") or "").endswith("async_client::ReadTaskParams") and "to_send_task" in st["rv"]["fields"]]
        if not rtp:
            continue
        R.fn(b)
        def chan(op):
            return {l.detail.get("bb") for l in tr.origins(b, op) if l.kind == "call" and re.search(r"mpsc::channel$", l.detail.get("callee") or "")}
        front = set()
        for bi, blk in enumerate(b.blocks):
            for st in blk["st"]:
                if st["s"] == "assign" and st["rv"]["k"] == "agg" and (st["rv"].get("adt") or "").endswith("async_client::Client") and "to_back" in st["rv"]["fields"]:
                    front |= chan(st["rv"]["ops"][st["rv"]["fields"].index("to_back")])
        for bi, st in rtp:
            n += 1
            mine = chan(st["rv"]["ops"][st["rv"]["fields"].index("to_send_task")])
            R.check(bool(mine) and bool(front) and mine == front, "C18.R9", "%s:read-task-shares-front-channel" % fkey(b), "the read task reports into the front end's own channel", "%s gives the read task a channel of its own to the send task: its SubscriptionClosed messages are no longer ordered with the front end's messages, so a stale close can be handled after a later subscribe and end a new subscription that was given the same id" % short(b.path), "%s:%d" % (b.file, st["sp"][0]))
    R.floor("C18.R9", n, 1, "places that spawn the read task")
    st_b = F.one(r"^jsonrpsee_core::client::async_client::send_task::\{closure#0\}$")
    R.fn(st_b)
    hf = [c for c in st_b.calls if re.search(r"async_client::handle_frontend_messages$", c.name() or "")]
    R.check(len(hf) == 1, "C18.R9", "send_task:one-intake", "send_task has one intake for handle_frontend_messages", "send_task feeds handle_frontend_messages from %d places: messages from different sources are no longer handled in one order" % len(hf), where(hf[1]) if len(hf) > 1 else "%s:%d" % (st_b.file, st_b.lo))



def r10_explicit_unsubscribe_is_not_best_effort(ctx):
    """`after unsubscribe ... the bookkeeping returns to empty`: Drop may only *try* to tell the background task (it cannot
    wait), and relies on the next notification to clean up. The explicit Subscription::unsubscribe() can wait, and does:
    it hands SubscriptionClosed / UnregisterNotification over with the waiting `Sender::send` - not with try_send, which
    silently drops the message when the front-end queue is full (the subscription then stays in the manager, no
    unsubscribe is written, and unsubscribe() itself waits for a stream end that never comes)."""
    F, R = ctx.F, ctx.R
    b = F.one(r"^jsonrpsee_core::client::Subscription::<Notif>::unsubscribe::\{closure#0\}$")
    fam = [b]
    for c in b.calls:
        nm = c.name() or ""
        if re.match(r"^jsonrpsee_core::client::Subscription::<.*>::\w+$", nm):
            for t in (F.bodies.get(nm), F.bodies.get(nm + "::{closure#0}")):
                if t is not None and t not in fam:
                    fam.append(t)
    waits, tries = [], []
    for x in fam:
        R.fn(x)
        waits += [c for c in x.calls_to(r"mpsc::(bounded::)?Sender::<.*>::send$")]
        tries += [c for c in x.calls_to(r"mpsc::(bounded::)?Sender::<.*>::(try_send|try_reserve\w*)$")]
    R.check(bool(waits) and not tries, "C18.R10", "unsubscribe:waits-for-the-queue", "Subscription::unsubscribe hands its message over with the waiting send", "Subscription::unsubscribe hands its message to the background task with a non-waiting try_send%s: with the front-end queue full the message is dropped, the subscription (entry, reverse lookup, reserved unsubscribe id) stays in the request manager and no unsubscribe call is sent" % ("" if tries else " / no waiting send at all"), where(tries[0]) if tries else "%s:%d" % (b.file, b.lo))


def rarr_every_element(ctx):
    """an array message is processed element by element to the end"""
    from .common import array_elements_all_processed
    array_elements_all_processed(ctx.F, ctx.R, "C18.ARR")



def _borrowed(modname, fname):
    def run(ctx):
        import importlib
        mod = importlib.import_module("jrsa.rules." + modname)
        return getattr(mod, fname)(ctx)
    run.__name__ = "%s_%s" % (modname, fname)
    return run


# 'identifiers of finished work can never capture a later message' / 'retains no state': completion removes exactly the keyed entry (C03.R4), a refused insert changes nothing (C05.R6)
BORROWED = [_borrowed("c03", "r4_completion_consumes"), _borrowed("c05", "r6_refused_insert_is_pure"), _borrowed("c05", "r14_classifiers_accept_any_payload"), _borrowed("c05", "rcancel_receive_is_cancel_safe"), _borrowed("c05", "r1_classifier_agreement"), _borrowed("c03", "r10_call_is_polled_before_its_timeout")]



def r11_reply_for_no_pending_call_is_fatal(ctx):
    """a reply object that belongs to no pending call or subscribe (request_status says Subscription or Invalid) ends the
    connection - whatever its id or payload. The teardown is what releases the bookkeeping of the calls such a reply was
    the server's final word on: a server that refuses a batch as a whole answers with one `id: null` error, and a client
    that merely logs it keeps the batch's entry (and its id range, which a later array reply is then matched against)."""
    F, R = ctx.F, ctx.R
    n = 0
    for b in F.real_bodies():
        if b.crate != CORE or is_test_body(b) or not re.match(r"^jsonrpsee_core::client::async_client::", b.path):
            continue
        for c in b.calls_to(r"RequestManager::request_status$"):
            adt = F.adt("jsonrpsee_core::client::async_client::manager::RequestStatus")
            if adt is None:
                raise AnchorLost("RequestStatus")
            idx = {v["n"]: str(i) for i, v in enumerate(adt["variants"])}
            errs = err_return_blocks(b)
            for sb, arms, other in flow.switch_on(b, c.dest["l"]):
                for name in ("Subscription", "Invalid"):
                    t = arms.get(idx.get(name), other)
                    if t is None:
                        continue
                    n += 1
                    R.fn(b)
                    ok = t in errs or flow.all_paths_pass(b, t, errs) and not (b.blocks[t]["term"] or {}).get("t") == "return"
                    R.check(ok, "C18.R11", "%s:%s-is-fatal" % (fkey(b), name), "a reply whose id is %s ends the connection on every path" % ("an active subscription's" if name == "Subscription" else "unknown"), "%s: a reply for which request_status says `%s` can be ignored (a path returns Ok): the connection, and with it the entries such a reply was the final answer to (a batch refused as a whole is answered by one `id: null` error), stays" % (short(b.path), name), "%s:%d" % (b.file, block_line(b, t)))
    R.floor("C18.R11", n, 2, "arms of the reply classification that must be fatal")


def r12_dropping_a_handle_tells_the_background_task(ctx):
    """whatever a handle stood for - a subscription or a registered notification handler - dropping it announces that to
    the background task (`SubscriptionClosed` / `UnregisterNotification`), which removes the entry. A kind that is left to
    be found out later (`the next notification for that method will notice the closed receiver`) stays registered for as
    long as the server sends nothing more for it: one entry per handle ever dropped, and the name cannot be registered again."""
    F, R = ctx.F, ctx.R
    bs = [b for p_, b in F.bodies.items() if re.search(r"^<jsonrpsee_core::client::Subscription<Notif> as std::ops::Drop>::drop$", p_)]
    if len(bs) != 1:
        raise AnchorLost("Drop for Subscription")
    kinds = set()
    for x in F.nested(bs[0]):
        R.fn(x)
        for blk in x.blocks:
            for st in blk["st"]:
                if st["s"] == "assign" and st["rv"]["k"] == "agg" and (st["rv"].get("adt") or "").endswith("client::FrontToBack"):
                    kinds.add(st["rv"]["variant"])
    sends = [c for x in F.nested(bs[0]) for c in x.calls_to(r"mpsc::(bounded::)?Sender::<.*>::(try_send|send|blocking_send)$")]
    R.check({"SubscriptionClosed", "UnregisterNotification"} <= kinds and bool(sends), "C18.R12", "drop:announces-both-kinds", "dropping a handle announces a subscription and a notification handler alike", "Drop for Subscription announces %s only: the other kind of handle stays registered in the request manager after it was dropped" % (sorted(kinds) or "nothing"), "%s:%d" % (bs[0].file, bs[0].lo))


def r13_an_unsubscribed_subscription_gets_its_unsubscribe_call(ctx):
    """`RequestManager::unsubscribe` moves a subscription to `unsubscribe pending`; the entries it leaves are released by
    the acknowledgement of the unsubscribe call. So once it returned Some, `build_unsubscribe_message` builds that call on
    every path (an early `return None` for, say, an empty method name leaves the reserved id in the table for ever); and
    (= C05.R15) the read path never calls it before the send task has built the message."""
    F, R = ctx.F, ctx.R
    b = F.one(r"^jsonrpsee_core::client::async_client::helpers::build_unsubscribe_message$")
    R.fn(b)
    un = b.calls_to(r"RequestManager::unsubscribe$")
    built = {bi for bi, blk in enumerate(b.blocks) if bi in b.reachable for st in blk["st"] if st["s"] == "assign" and st["rv"]["k"] == "agg" and (st["rv"].get("adt") or "").endswith("client::RequestMessage")}
    R.floor("C18.R13", len(un), 1, "RequestManager::unsubscribe in build_unsubscribe_message")
    # the only ways out without the message are the `?`s on infallible-in-practice serialisation (residual returns)
    resid = {c.bb for c in b.calls_to(r"FromResidual(<.*>)?>?::from_residual$")}
    for c in un:
        some_t = None
        for br in b.calls_to(r"Try>?::branch$"):
            if arg_is_local(b, br.args[0], c.dest["l"]):
                for sb, arms, other in flow.switch_on(b, br.dest["l"]):
                    some_t = arms.get("0")
        for sb, arms, other in flow.switch_on(b, c.dest["l"]):
            if some_t is None:
                some_t = arms.get("1")
        if some_t is None:
            R.anchor_lost("C18.R13", "the Some arm of RequestManager::unsubscribe in build_unsubscribe_message")
            continue
        free = (b.reach_from(some_t, avoid=built | resid) | {some_t}) - built - resid
        bad = sorted(x for x in free if x in b.exits)
        R.check(bool(built) and not bad, "C18.R13", "unsubscribed->message-built", "after unsubscribe() returned Some the unsubscribe call is built", "build_unsubscribe_message can return without the unsubscribe call after RequestManager::unsubscribe has already marked the subscription `unsubscribe pending`: nothing will ever acknowledge it, the reserved request id stays in the table", "%s:%d" % (b.file, block_line(b, bad[0]) if bad else b.lo))
    from . import c05
    c05.r15_routing_does_not_end_subscriptions(ctx)


def rkeys_manager_keys_not_derived(ctx):
    """ids are matched exactly"""
    from .common import manager_keys_not_derived
    manager_keys_not_derived(ctx, "C18.KEYS")


RULES = [r10_explicit_unsubscribe_is_not_best_effort, r9_one_ordered_queue_into_the_send_task, r7_failed_write_ends_the_task, r8_handoff_queue_is_lossless, r1_effect_summaries, r2_ledger, r3_notification_arms, r4_lost_drop_is_recovered, r5_no_unaccounted_success_path, r6_no_state_outside_the_manager, rarr_every_element, rkeys_manager_keys_not_derived, r11_reply_for_no_pending_call_is_fatal, r12_dropping_a_handle_tells_the_background_task, r13_an_unsubscribed_subscription_gets_its_unsubscribe_call] + BORROWED

LEVEL_TEXT = (
    "A ledger over the client's four private tables decided from the type-checked program: per-method effect summaries "
    "(entries added / removed on success and on failure paths) computed by path counting over the HashMap / Entry API "
    "calls, composed along the handler paths that realise each lifecycle the statement names; every lifecycle must net "
    "to zero in every table. The tests cannot see the private tables; the ledger covers refusal, server close and the "
    "caller-gone path that no test observes."
)
LEVEL_NOTE = "Trusted: rustc MIR; std HashMap/Entry. Assumes a reserved id is present when it is released with a discarded result. Not decided: allocator behaviour."
TECHNIQUE = "effect summaries by path counting + lifecycle ledger composition along dominating call sites"

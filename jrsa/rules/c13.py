"""C13 — method registry: names are unique and failed registrations change nothing (structural clauses)."""
import re

from .common import (fkey, where, short, arg_is_local, follow_value, block_line, enclosing_loop_next, CORE)
from ..facts import op_place, op_const, AnchorLost, is_test_body
from .. import flow

PID = "C13"
LEVEL = "other"
EXPLANATION = (
    "Static analysis over MIR of core::server::rpc_module. The property itself is about which checks precede which "
    "mutations, so this is the most complete claim of the set. Decided: R1 every insertion into the method table either "
    "goes through the Entry API's Vacant arm or is dominated by the Ok result of verify_method_name on the same key; R2 "
    "(all-or-nothing) in merge the loop that verifies every name of the other module completes before the first insertion "
    "and both loops range over the same `other`; in subscription registration the equal-names test and both verifications "
    "precede the first mutation; R3 mutable access to the table is obtained only through Arc::make_mut in mut_callbacks "
    "(copy-on-write: clones taken earlier are unaffected) and every mutator call on the table has that receiver; R4 the "
    "serverless dispatcher looks the handler up by the request's method name and answers MethodNotFound exactly on a miss "
    "(the server's dispatcher is C01.R4); remove_method removes exactly the named entry. NOT decided: HashMap semantics."
)
RULE_TEXT = "instances = table mutation sites with their dominating verifications, loop ordering in merge, receivers of mutator calls"
TRUSTED = ["rustc MIR", "std HashMap / Entry API", "Arc::make_mut copy-on-write"]
ASSUMPTIONS = []

MOD = "jsonrpsee_core::server::rpc_module::"
TABLE_TY = "MethodCallback"


def _table_calls(F, pat):
    out = []
    for b in F.real_bodies():
        if b.crate != CORE or is_test_body(b) or "server::rpc_module" not in b.path:
            continue
        for c in b.calls_to(pat):
            ty = (c.self_ty or "") + " ".join(c.ga)
            if TABLE_TY in ty:
                out.append(c)
    return out


def _continue_arm(b, call):
    """block reached when `call(..)?` succeeded"""
    for br in b.calls_to(r"Try.*::branch$"):
        if arg_is_local(b, br.args[0], call.dest["l"]):
            for sb, arms, other in flow.switch_on(b, br.dest["l"]):
                if arms.get("0") is not None:
                    return arms.get("0")
    return None


def r1_insert_after_verify(ctx):
    F, R = ctx.F, ctx.R
    tr = ctx.tracer(follow_callers=False, follow_fields=False)
    ins = _table_calls(F, r"^std::collections::HashMap::<.*>::insert$")
    vac = _table_calls(F, r"VacantEntry::<.*>::insert$")
    R.floor("C13.R1", len(ins) + len(vac), 4, "insertions into the method table")
    for c in vac:
        R.fn(c.body)
        R.ok("C13.R1", "%s:vacant-insert" % fkey(c.body), "insertion through Entry::Vacant cannot overwrite", where(c))
        # and the Occupied arm returns AlreadyRegistered
        b = c.body
        occ = any(st["s"] == "assign" and st["rv"]["k"] == "agg" and st["rv"].get("variant") == "AlreadyRegistered" for blk in b.blocks for st in blk["st"])
        R.check(occ, "C13.R1", "%s:occupied-is-error" % fkey(b), "a taken name is reported as AlreadyRegistered", "the Occupied arm does not report AlreadyRegistered", "%s:%d" % (b.file, b.lo))
    for c in ins:
        b = c.body
        R.fn(b)
        if b.path.endswith("Methods::merge"):
            continue  # R2
        key_leaves = tr.origins(b, c.args[1])
        kset = {(l.kind, str(l.detail.get("idx")), str(l.detail.get("name"))) for l in key_leaves}
        ok = False
        for v in b.calls_to(r"Methods::verify_method_name$"):
            vl = tr.origins(b, v.args[1])
            vset = {(l.kind, str(l.detail.get("idx")), str(l.detail.get("name"))) for l in vl}
            cont = _continue_arm(b, v)
            if vset == kset and cont is not None and b.dominates(cont, c.bb):
                ok = True
        R.check(ok, "C13.R1", "%s:insert-after-verify" % fkey(b), "the name inserted was verified to be free first", "%s inserts a name into the method table without a preceding successful verify_method_name on that same name: an existing method can be silently replaced" % short(b.path), where(c))


def r2_all_or_nothing(ctx):
    F, R = ctx.F, ctx.R
    tr = ctx.tracer(follow_callers=False, follow_fields=False)
    m = F.one(r"^jsonrpsee_core::server::rpc_module::Methods::merge$")
    R.fn(m)
    vs = m.calls_to(r"Methods::verify_method_name$")
    ins = [c for c in m.calls_to(r"HashMap::<.*>::insert$")]
    R.check(len(vs) == 1 and len(ins) == 1, "C13.R2", "merge:shape", "merge = one verifying loop + one inserting loop", "merge has %d verify sites and %d insert sites" % (len(vs), len(ins)), "%s:%d" % (m.file, m.lo))
    if vs and ins:
        v, i = vs[0], ins[0]
        nv = enclosing_loop_next(m, v.bb)
        ni = enclosing_loop_next(m, i.bb)
        R.check(nv is not None and ni is not None and nv.bb != ni.bb, "C13.R2", "merge:two-loops", "verification and insertion are separate loops", "merge verifies and inserts in the same loop: a clash found late leaves the earlier names merged", where(i))
        if nv is not None and ni is not None and nv.bb != ni.bb:
            exit_v = None
            for sb, arms, other in flow.switch_on(m, nv.dest["l"]):
                exit_v = arms.get("0")
            R.check(exit_v is not None and m.dominates(exit_v, ni.bb) and not m.can_reach(i.bb, v.bb), "C13.R2", "merge:verify-all-before-any", "every name is verified before the first insertion", "merge can insert before all names were verified", where(i))
            # a failed verification returns before any mutation
            cont = _continue_arm(m, v)
            R.check(cont is not None, "C13.R2", "merge:failed-verify-returns", "a clash returns the error (`?`)", "merge ignores the result of verify_method_name", where(v))
            mc = m.calls_to(r"Methods::mut_callbacks$")
            R.check(all(exit_v is not None and m.dominates(exit_v, c.bb) for c in mc), "C13.R2", "merge:no-mutable-access-before-verified", "no mutable access to either table before verification finished", "merge obtains mutable access to a table before all names were verified", where(mc[0]) if mc else None)
            # both loops range over `other`
            lk = tr.origins(m, nv.args[0])
            li = tr.origins(m, ni.args[0])
            ok_k = any(l.kind == "call" and re.search(r"HashMap::<.*>::keys$", l.detail["callee"] or "") for l in lk)
            ok_i = any(l.kind == "call" and re.search(r"HashMap::<.*>::drain$", l.detail["callee"] or "") for l in li)
            R.check(ok_k and ok_i, "C13.R2", "merge:same-source", "the verified names are the keys of the module whose entries are then drained", "merge verifies %s but inserts from %s" % ([flow.leaf_str(l) for l in lk], [flow.leaf_str(l) for l in li]), where(i))
            # verify is called on self with the other's key; insert goes into self's table
            lv = tr.origins(m, v.args[0])
            R.check(bool(lv) and all(l.kind == "param" and l.detail["idx"] == 1 for l in lv), "C13.R2", "merge:verify-against-self", "names are verified against self", "verify_method_name is not called on self", where(v))
    # subscription registration
    u = F.one(r"^jsonrpsee_core::server::rpc_module::RpcModule::<Context>::verify_and_register_unsubscribe$")
    R.fn(u)
    vs = u.calls_to(r"Methods::verify_method_name$")
    mc = u.calls_to(r"Methods::mut_callbacks$")
    R.check(len(vs) == 2 and len(mc) >= 1, "C13.R2", "subscription:shape", "both names are verified", "subscription registration verifies %d names" % len(vs), "%s:%d" % (u.file, u.lo))
    conts = [_continue_arm(u, v) for v in vs]
    for c in mc:
        R.check(all(x is not None and u.dominates(x, c.bb) for x in conts), "C13.R2", "subscription:verify-both-before-mutation", "both names are verified before the first mutation", "the unsubscribe name is inserted before both names were verified: a failed subscription registration leaves the unsubscribe method behind", where(c))
    # names differ
    conflict = [bi for bi, blk in enumerate(u.blocks) for st in blk["st"] if st["s"] == "assign" and st["rv"]["k"] == "agg" and st["rv"].get("variant") == "SubscriptionNameConflict"]
    eq = u.calls_to(r"PartialEq.*::eq$|PartialEq::eq$")
    R.check(bool(conflict) and bool(eq) and all(u.dominates(eq[0].bb, c.bb) for c in mc), "C13.R2", "subscription:names-differ-first", "equal subscribe/unsubscribe names are refused before anything is registered", "the equal-names test does not precede the registration", "%s:%d" % (u.file, u.lo))
    # the two verified names are the two parameters
    ks = []
    for v in vs:
        lv = tr.origins(u, v.args[1])
        ks.append({l.detail["idx"] for l in lv if l.kind == "param"})
    R.check(ks == [{2}, {3}] or ks == [{3}, {2}], "C13.R2", "subscription:verifies-both-names", "the names verified are the subscribe and the unsubscribe name", "the names verified are %s" % ks, "%s:%d" % (u.file, u.lo))
    # register_subscription(_raw): unsubscribe registration (which verifies both) dominates the subscribe insertion
    for nm in ("register_subscription", "register_subscription_raw"):
        b = F.one(r"^jsonrpsee_core::server::rpc_module::RpcModule::<Context>::%s$" % nm)
        R.fn(b)
        vu = b.calls_to(r"verify_and_register_unsubscribe$")
        vi = b.calls_to(r"Methods::verify_and_insert$")
        ok = len(vu) == 1 and len(vi) == 1
        cont = _continue_arm(b, vu[0]) if ok else None
        R.check(ok and cont is not None and b.dominates(cont, vi[0].bb), "C13.R2", "%s:order" % nm, "the subscribe name is inserted only after both names were verified and the unsubscribe method registered", "%s inserts the subscribe method without the successful verification of both names" % nm, "%s:%d" % (b.file, b.lo))
        if ok:
            # the names that are verified (and, for the second, registered) are this registrar's own subscribe name
            # (parameter 2) and unsubscribe name (parameter 4): both siblings must agree
            got = []
            for ai in (1, 2):
                la = tr.origins(b, vu[0].args[ai])
                got.append(sorted({l.detail["idx"] for l in la if l.kind == "param"}))
            R.check(got == [[2], [4]], "C13.R2", "%s:verifies-own-names" % nm, "the names checked up front are the subscribe (param 2) and unsubscribe (param 4) names", "%s hands parameters %s to verify_and_register_unsubscribe (expected the subscribe name, parameter 2, and the unsubscribe name, parameter 4): a taken subscribe name is not detected before the unsubscribe method is registered, and a free one can be refused" % (nm, got), where(vu[0]))
            l1 = tr.origins(b, vi[0].args[1])
            R.check(bool(l1) and all(l.kind == "param" and l.detail["idx"] == 2 for l in l1), "C13.R2", "%s:inserts-subscribe-name" % nm, "the name inserted is the subscribe name", "%s inserts %s" % (nm, [flow.leaf_str(l) for l in l1]), where(vi[0]))


def r3_copy_on_write(ctx):
    F, R = ctx.F, ctx.R
    tr = ctx.tracer(follow_callers=False, follow_fields=False)
    mc = F.one(r"^jsonrpsee_core::server::rpc_module::Methods::mut_callbacks$")
    R.fn(mc)
    mk = mc.calls_to(r"Arc::<.*>::make_mut$")
    R.check(len(mk) == 1, "C13.R3", "mut_callbacks:make_mut", "mutable access is copy-on-write (Arc::make_mut)", "mut_callbacks no longer uses Arc::make_mut: modules cloned earlier share later changes", "%s:%d" % (mc.file, mc.lo))
    bad = []
    for b in F.real_bodies():
        if b.crate != CORE or is_test_body(b):
            continue
        for c in b.calls_to(r"Arc::<.*>::(get_mut_unchecked|as_ptr|from_raw|get_mut)$|UnsafeCell"):
            if TABLE_TY in (c.self_ty or "") + " ".join(c.ga):
                bad.append(c)
    R.check(not bad, "C13.R3", "no-shared-mutation", "no other way to a &mut of the shared table", "the shared method table is reached mutably through %s" % [short(c.name()) for c in bad], where(bad[0]) if bad else None)
    muts = _table_calls(F, r"^std::collections::HashMap::<.*>::(insert|remove|entry|drain|clear|retain|get_mut|remove_entry|extend)$")
    R.floor("C13.R3", len(muts), 5, "mutator calls on the method table")
    for c in muts:
        b = c.body
        lv = tr.origins(b, c.args[0])
        ok = bool(lv) and all(l.kind == "call" and re.search(r"Methods::mut_callbacks$|Arc::<.*>::make_mut$", l.detail["callee"] or "") for l in lv)
        R.check(ok, "C13.R3", "%s:%s-via-mut_callbacks#%d" % (fkey(b), c.name().split("::")[-1], sorted(x.bb for x in b.calls_to(re.escape(c.name()) + "$")).index(c.bb)), "table.%s goes through mut_callbacks()" % c.name().split("::")[-1], "the method table is mutated (%s) through %s, bypassing copy-on-write" % (c.name().split("::")[-1], [flow.leaf_str(l) for l in lv]), where(c))
    # the Arc itself is never replaced / swapped / taken: `&mut self.callbacks` only ever feeds Arc::make_mut, and the
    # field is assigned only where a Methods value is constructed
    n_b = 0
    for b in F.real_bodies():
        if b.crate != CORE or is_test_body(b) or "server::rpc_module" not in b.path:
            continue
        for bi, blk in enumerate(b.blocks):
            if blk.get("cleanup"):
                continue
            for st in blk["st"]:
                if st["s"] != "assign":
                    continue
                pp = st["pl"].get("p", [])
                if pp and isinstance(pp[-1], dict) and pp[-1].get("n") == "callbacks" and (pp[-1].get("o") or "").endswith("rpc_module::Methods"):
                    R.bad("C13.R3", "%s:table-replaced" % fkey(b), "%s assigns Methods.callbacks directly: the whole table is replaced outside the verified insert paths" % short(b.path), "%s:%d" % (b.file, st["sp"][0]))
                rv = st["rv"]
                if rv["k"] == "ref" and rv["m"] == "mut":
                    q = rv["pl"].get("p", [])
                    if q and isinstance(q[-1], dict) and q[-1].get("n") == "callbacks" and (q[-1].get("o") or "").endswith("rpc_module::Methods"):
                        n_b += 1
                        holders = follow_value(b, st["pl"]["l"])
                        grew = True
                        while grew:  # reborrows `&mut *h`
                            grew = False
                            for l2, defs2 in b.defs.items():
                                if l2 in holders:
                                    continue
                                for _, _, dpl2, src2 in defs2:
                                    if not dpl2.get("p") and src2[0] == "rv" and src2[1]["k"] == "ref" and src2[1]["pl"]["l"] in holders and all(e == "*" for e in src2[1]["pl"].get("p", [])):
                                        holders |= follow_value(b, l2)
                                        grew = True
                        users = [c for c in b.calls if any(op_place(a) is not None and not op_place(a).get("p") and op_place(a)["l"] in holders for a in c.args)]
                        bad_u = [c for c in users if not re.search(r"Arc::<.*>::make_mut$", c.name() or "")]
                        R.check(not bad_u, "C13.R3", "%s:mut-borrow-of-table-arc#%d" % (fkey(b), n_b), "`&mut self.callbacks` only feeds Arc::make_mut", "%s hands `&mut Methods.callbacks` to %s: the table is swapped/replaced wholesale, bypassing name verification (a failed merge/registration then does not leave the module as it was)" % (short(b.path), [short(c.name()) for c in bad_u]), "%s:%d" % (b.file, st["sp"][0]))
    R.floor("C13.R3.borrows", n_b, 1, "mutable borrows of Methods.callbacks")
    # Methods is Clone by sharing the Arc (derive) and the field is private
    adt = F.adt("jsonrpsee_core::server::rpc_module::Methods")
    if adt is None:
        raise AnchorLost("ADT Methods")
    f = [x for x in adt["variants"][0]["fields"] if x["n"] == "callbacks"]
    R.check(bool(f) and f[0]["ty"].startswith("std::sync::Arc<") and "Restricted" in f[0]["vis"], "C13.R3", "table-private-arc", "the table is a private Arc", "Methods.callbacks is %s with visibility %s" % (f[0]["ty"] if f else "?", f[0]["vis"] if f else "?"), None)


def r4_dispatch_and_remove(ctx):
    F, R = ctx.F, ctx.R
    tr = ctx.tracer(follow_callers=False, follow_fields=False)
    ic = F.one(r"^jsonrpsee_core::server::rpc_module::Methods::inner_call::\{closure#0\}$")
    R.fn(ic)
    look = ic.calls_to(r"Methods::method$|Methods::method_with_name$")
    # a lookup whose result is never branched on (it only feeds a log line) decides nothing
    deciding = [l for l in look if flow.switch_on(ic, l.dest["l"])]
    if len(deciding) >= 1 and len(deciding) < len(look):
        look = deciding
    R.check(len(look) == 1, "C13.R4", "inner_call:lookup", "one lookup by name", "%d lookups in inner_call" % len(look), "%s:%d" % (ic.file, ic.lo))
    for l in look:
        lv = tr.origins(ic, l.args[1])
        ok = bool(lv) and all(x.kind == "field" and x.detail["fields"][-1][1] == "method" for x in lv)
        R.check(ok, "C13.R4", "inner_call:lookup-key", "the handler is looked up by the request's method name", "inner_call looks up %s" % [flow.leaf_str(x) for x in lv], where(l))
        none_t = None
        for sb, arms, other in flow.switch_on(ic, l.dest["l"]):
            none_t = arms.get("0")
        mnf = False
        if none_t is not None:
            for bi in ic.reach_from(none_t) | {none_t}:
                if not ic.dominates(none_t, bi):
                    continue
                for st in ic.blocks[bi]["st"]:
                    if st["s"] == "assign" and st["rv"]["k"] == "agg" and st["rv"].get("variant") == "MethodNotFound":
                        mnf = True
        R.check(mnf, "C13.R4", "inner_call:miss->MethodNotFound", "an unbound name yields MethodNotFound", "the lookup-miss arm does not yield MethodNotFound", where(l))
        others = [bi for bi, blk in enumerate(ic.blocks) for st in blk["st"] if st["s"] == "assign" and st["rv"]["k"] == "agg" and st["rv"].get("variant") == "MethodNotFound" and not (none_t is not None and ic.dominates(none_t, bi))]
        R.check(not others, "C13.R4", "inner_call:MethodNotFound-only-on-miss", "MethodNotFound only on a miss", "MethodNotFound is produced outside the lookup-miss arm", "%s:%d" % (ic.file, ic.lo))
    for nm in ("method", "method_with_name"):
        b = F.one(r"^jsonrpsee_core::server::rpc_module::Methods::%s$" % nm)
        g = b.calls_to(r"HashMap::<.*>::(get|get_key_value)$")
        ok = len(g) == 1
        if ok:
            lv = tr.origins(b, g[0].args[1])
            ok = bool(lv) and all(x.kind == "param" and x.detail["idx"] == 2 for x in lv)
        R.check(ok, "C13.R4", "%s:get-by-name" % nm, "%s reads the table by its name parameter" % nm, "%s does not read the table by its name parameter" % nm, "%s:%d" % (b.file, b.lo))
    rm = F.one(r"^jsonrpsee_core::server::rpc_module::RpcModule::<Context>::remove_method$")
    R.fn(rm)
    r = rm.calls_to(r"HashMap::<.*>::remove$")
    ok = len(r) == 1
    if ok:
        lv = tr.origins(rm, r[0].args[1])
        ok = bool(lv) and all(x.kind == "param" and x.detail["idx"] == 2 for x in lv)
    R.check(ok, "C13.R4", "remove_method:named-entry", "remove_method removes exactly the named entry", "remove_method does not remove exactly the named entry", "%s:%d" % (rm.file, rm.lo))
    # alias binds the alias name to the existing handler
    al = F.one(r"^jsonrpsee_core::server::rpc_module::RpcModule::<Context>::register_alias$")
    R.fn(al)
    g = al.calls_to(r"HashMap::<.*>::get$") or al.calls_to(r"rpc_module::Methods::method$")   # the module's own accessor is the same lookup
    i = al.calls_to(r"HashMap::<.*>::insert$")
    ok = len(g) == 1 and len(i) == 1
    if ok:
        lg = tr.origins(al, g[0].args[1])
        li = tr.origins(al, i[0].args[1])
        lval = list(tr.origins(al, i[0].args[2]))
        # `.get(existing).cloned().ok_or_else(..)?` : look through the combinators to the lookup itself
        for _ in range(4):
            more = []
            for x in lval:
                if x.kind == "call" and re.search(r"Option::<.*>::(cloned|copied|ok_or|ok_or_else|map)$|Result::<.*>::(map|map_err)$|Try>?::branch$|Clone>?::clone$", x.detail.get("callee") or "") and x.detail.get("args"):
                    more += tr.origins(F.bodies[x.where], x.detail["args"][0])
            new_ = [m for m in more if m not in lval]
            if not new_:
                break
            lval += new_
        ok = all(x.kind == "param" and x.detail["idx"] == 3 for x in lg) and all(x.kind == "param" and x.detail["idx"] == 2 for x in li) and any(x.kind == "call" and x.detail["bb"] == g[0].bb for x in lval)
    R.check(ok, "C13.R4", "alias:binds-existing-handler", "alias -> the handler currently bound to existing_method", "register_alias does not bind `alias` to the handler looked up under `existing_method`", "%s:%d" % (al.file, al.lo))



def r5_not_found_iff_unbound(ctx, rule="C13.R5"):
    """`method not found` is answered exactly when the name is unbound: in the server's dispatcher (RpcService::call) and
    in the serverless one (Methods::inner_call) every MethodNotFound is built on the None arm of a match taken *directly*
    on the registry lookup's result - nothing filters the lookup's result by kind, transport or configuration first (a
    bound name that a configuration cannot serve gets its own error, not -32601)"""
    F, R = ctx.F, ctx.R
    n = 0
    for pat in (r"^<jsonrpsee_server::middleware::rpc::RpcService as jsonrpsee_core::middleware::RpcServiceT>::call$",
                r"^jsonrpsee_core::server::rpc_module::Methods::inner_call::\{closure#0\}$"):
        b = F.one(pat)
        R.fn(b)
        look = b.calls_to(r"Methods::method_with_name$|Methods::method$")
        mnf = [(bi, st) for bi, blk in enumerate(b.blocks) if bi in b.reachable and not blk.get("cleanup") for st in blk["st"]
               if st["s"] == "assign" and st["rv"]["k"] == "agg" and st["rv"].get("variant") == "MethodNotFound"]
        if not look or not mnf:
            R.anchor_lost(rule, "registry lookup / MethodNotFound in %s" % b.path)
            continue
        none_arms = set()
        trl = ctx.tracer(follow_callers=False, follow_fields=False, inline_calls=False)
        for l in look:
            for sb, arms, other in flow.switch_on(b, l.dest["l"]):
                if arms.get("0") is not None:
                    none_arms.add(arms["0"])
                # what is matched is the lookup's result and nothing else (no `if cond { None } else { lookup }` merge)
                dp = op_place(b.blocks[sb]["term"]["discr"])
                for bi2, si2, dpl2, src2 in (b.defs.get(dp["l"], []) if dp is not None else []):
                    if src2[0] == "rv" and src2[1]["k"] == "discr":
                        lv = trl.origins(b, src2[1]["pl"])
                        alien = [x for x in lv if not (x.kind == "call" and re.search(r"Methods::method(_with_name)?$", x.detail.get("callee") or ""))]
                        R.check(not alien, rule, "%s:match-is-on-the-lookup-alone" % fkey(b), "the value matched is the registry lookup's result", "%s decides `method not found` on a value that is not always the registry lookup's result (%s): a name that is bound in the module can be answered as unknown" % (short(b.path), [flow.leaf_str(x)[:60] for x in alien]), "%s:%d" % (b.file, block_line(b, sb)))
        for bi, st in mnf:
            n += 1
            R.check(any(b.dominates(t, bi) for t in none_arms), rule, "%s:not-found-only-on-lookup-miss" % fkey(b), "MethodNotFound is answered on the lookup's own None arm", "%s answers `method not found` on a branch that is not the None arm of the registry lookup itself (the lookup's result is filtered or re-decided first): a name that is bound in the module is reported as unknown" % short(b.path), "%s:%d" % (b.file, st["sp"][0]))
        # and the lookup's Some arm never ends in MethodNotFound
        filt = b.calls_to(r"Option::<.*>::(filter|and_then|take_if|xor|zip)$")
        bad = [c for c in filt if any(arg_is_local(b, c.args[0], x) for l in look for x in follow_value(b, l.dest["l"]))]
        R.check(not bad, rule, "%s:lookup-result-not-filtered" % fkey(b), "the lookup's result is matched as it is", "%s post-processes the lookup's result with %s before deciding `method not found`" % (short(b.path), sorted({short(c.name()) for c in bad})), where(bad[0]) if bad else None)
    R.floor(rule, n, 2, "MethodNotFound sites in the two dispatchers")



def r6_sibling_registrars(ctx):
    """the sibling registrars treat their name parameters alike"""
    from .common import sibling_param_agreement
    M = r"^jsonrpsee_core::server::rpc_module::RpcModule::<Context>::%s$"
    sibling_param_agreement(ctx, "C13.R6", (("register_subscription", M % "register_subscription"), ("register_subscription_raw", M % "register_subscription_raw")), 3)
    sibling_param_agreement(ctx, "C13.R6m", (("register_method", M % "register_method"), ("register_async_method", M % "register_async_method"), ("register_blocking_method", M % "register_blocking_method")), 2)



def r7_names_spelled_alike(ctx):
    """method names are written into the registry (verify_and_insert, register_alias, merge, verify_and_register_unsubscribe)
    and read from it (method, method_with_name, the server's dispatcher) in the same spelling: the text transformations
    applied by writers and readers agree (today: none on either side). A one-sided fold makes a bound name unreachable
    (method not found) or lets a different spelling reach it."""
    from .common import text_transforms
    F, R = ctx.F, ctx.R
    M = r"^jsonrpsee_core::server::rpc_module::"
    w = text_transforms(F, R, (M + r"Methods::verify_and_insert$", M + r"Methods::merge$", M + r"RpcModule::<Context>::register_alias$", M + r"RpcModule::<Context>::verify_and_register_unsubscribe$", M + r"Methods::verify_method_name$"))
    r = text_transforms(F, R, (M + r"Methods::method_with_name$", M + r"Methods::method$", r"^<jsonrpsee_server::middleware::rpc::RpcService as jsonrpsee_core::middleware::RpcServiceT>::call$", M + r"Methods::inner_call$"))
    R.check(w == r, "C13.R7", "method-name-spelling:writer-reader-agree", "registration and lookup use method names in the same spelling (transformations: %s)" % (sorted(w) or "none"), "registration transforms method names with %s but lookup with %s: a registered name is not found under its own spelling (or found under another)" % (sorted(w) or "nothing", sorted(r) or "nothing"), None)



def r8_insert_fails_only_as_prechecked(ctx):
    """registrations that must be all-or-nothing (a subscription registers two names) pre-check with verify_method_name and
    then insert with verify_and_insert, assuming the insert cannot fail any more: the two must refuse for the same
    reasons. Every RegisterMethodError that verify_and_insert can produce is one verify_method_name produces too
    (today both: AlreadyRegistered); an extra refusal reason in the inserter makes a subscription registration fail after
    its unsubscribe method was already registered."""
    F, R = ctx.F, ctx.R
    def variants(pat):
        b = F.one(pat)
        R.fn(b)
        out = set()
        for x in F.nested(b):
            for blk in x.blocks:
                for st in blk["st"]:
                    if st["s"] == "assign" and st["rv"]["k"] == "agg" and (st["rv"].get("adt") or "").endswith("RegisterMethodError"):
                        out.add(st["rv"].get("variant"))
        return out
    pre = variants(r"^jsonrpsee_core::server::rpc_module::Methods::verify_method_name$")
    ins = variants(r"^jsonrpsee_core::server::rpc_module::Methods::verify_and_insert$")
    R.check(bool(ins) and ins <= pre, "C13.R8", "insert-refuses-only-what-precheck-refuses", "verify_and_insert refuses for the reasons verify_method_name refuses (%s)" % sorted(pre), "verify_and_insert can refuse with %s although the up-front check (verify_method_name: %s) accepted the name: a subscription registration then fails after its unsubscribe method was registered, leaving the module changed" % (sorted(ins - pre), sorted(pre)), None)


def r10_lookup_is_one_exact_map_access(ctx):
    """a name is bound exactly when it is a key of the table: the two lookups (Methods::method for in-process calls,
    Methods::method_with_name for the server's dispatcher) are one exact HashMap access each - no second, laxer search
    (iteration with a case-insensitive / prefix comparison) after a miss, which would dispatch an unbound name to a handler
    bound under another spelling and make the two entry points disagree."""
    F, R = ctx.F, ctx.R
    for nm in ("method", "method_with_name"):
        b = F.one(r"^jsonrpsee_core::server::rpc_module::Methods::%s$" % nm)
        bodies = F.nested(b)
        acc = []
        other = []
        for x in bodies:
            R.fn(x)
            for c in x.calls:
                n_ = c.name() or ""
                if re.search(r"HashMap::<.*>::(get|get_key_value)$", n_):
                    acc.append(c)
                elif re.search(r"HashMap::<.*>::(iter|keys|values|into_iter|contains_key|iter_mut)$|Iterator>?::(find|find_map|position|any|filter)$|str::<impl str>::(eq_ignore_ascii_case|starts_with|ends_with|contains|to_\w+case)$", n_):
                    other.append(c)
        R.check(len(acc) == 1 and not other, "C13.R10", "%s:one-exact-access" % nm, "Methods::%s is one exact map access" % nm, "Methods::%s is not a single exact map access (%d exact accesses, also: %s): a name that is not bound can be dispatched to the handler of a differently spelled name, and the server's and the in-process dispatcher disagree about which names exist" % (nm, len(acc), sorted({short(c.name()) for c in other})), where(other[0]) if other else "%s:%d" % (b.file, b.lo))


def r11_taken_means_is_a_key(ctx):
    """`registering a name that is taken fails`: taken = is a key of the table, whatever kind of handler is bound to it.
    Methods::verify_method_name (the pre-check of merge, register_alias and of subscription registration, which then
    insert with an overwriting insert) is one exact map access and does not look at what is bound (no other table scan, no
    inspection of the MethodCallback kind): a name regarded as free because `only` a left-over unsubscribe handler holds it
    gets silently rebound."""
    F, R = ctx.F, ctx.R
    b = F.one(r"^jsonrpsee_core::server::rpc_module::Methods::verify_method_name$")
    acc, other, kinds = [], [], []
    for x in F.nested(b):
        R.fn(x)
        for c in x.calls:
            n_ = c.name() or ""
            if re.search(r"HashMap::<.*>::(get|get_key_value|contains_key)$", n_):
                acc.append(c)
            elif re.search(r"HashMap::<.*>::(iter|keys|values|into_iter|iter_mut|values_mut)$|Iterator>?::(find|find_map|position|any|all|filter|count)$|rpc_module::Methods::\w+$", n_):
                other.append(c)
        for bi, blk in enumerate(x.blocks):
            if blk.get("cleanup") or bi not in x.reachable:
                continue
            for st in blk["st"]:
                if st["s"] == "assign" and st["rv"]["k"] == "discr":
                    pl = st["rv"]["pl"]
                    ty = x.locals[pl["l"]]["ty"]
                    if "MethodCallback" in ty and "Option" not in ty.split("MethodCallback")[0][-30:] or any(isinstance(e, dict) and e.get("d") == "Some" for e in pl.get("p", [])) and "MethodCallback" in ty:
                        kinds.append("%s:%d" % (x.file, st["sp"][0]))
    R.check(len(acc) == 1 and not other and not kinds, "C13.R11", "verify_method_name:key-presence-only", "verify_method_name decides by key presence alone", "Methods::verify_method_name does not decide `taken` by key presence alone (%d exact accesses; also %s%s): a bound name can be reported free, and the callers then overwrite its entry - the module is changed by a registration that should have failed" % (len(acc), sorted({short(c.name()) for c in other}), "; inspects the handler kind at %s" % kinds if kinds else ""), "%s:%d" % (b.file, b.lo))


def r12_no_borrowed_names(ctx):
    """`a call dispatches to the handler bound to its name`: a name spelled with a JSON escape is the same name - nothing
    in core decodes a wire string as a borrowed &str (which serde can only do for escape-free text; such a request then
    fails to parse instead of being dispatched / answered -32601) (= C15.R7 over core)"""
    from . import c15
    n = c15._borrowed_str_scan(ctx.F, ctx.R, r"^<?jsonrpsee_(types|core|server)::", "C13.R12")
    ctx.R.ok("C13.R12", "no-borrowed-str", "%d deserialisation sites inspected" % n)
    ctx.R.floor("C13.R12", n, 40, "deserialisation sites in types/core")


def r13_merge_succeeds_only_after_checking_every_name(ctx):
    """`merging a module that shares any name fails`: Methods::merge reports success only after it has walked the other
    module's names through verify_method_name - every path from its entry to an `Ok(())` passes the name loop (a shortcut
    `the other module is my own clone, nothing to do` returns Ok for a merge in which *every* name is shared)."""
    F, R = ctx.F, ctx.R
    b = F.one(r"^jsonrpsee_core::server::rpc_module::Methods::merge$")
    R.fn(b)
    oks = {bi for bi, blk in enumerate(b.blocks) if bi in b.reachable for st in blk["st"] if st["s"] == "assign" and st["pl"]["l"] == 0 and not st["pl"].get("p") and st["rv"]["k"] == "agg" and st["rv"].get("variant") == "Ok"}
    ver = b.calls_to(r"Methods::verify_method_name$")
    if not ver or not oks:
        raise AnchorLost("verify_method_name loop / Ok return of Methods::merge")
    loops = {nx.bb for nx in [enclosing_loop_next(b, v.bb) for v in ver] if nx is not None}
    if not loops:
        raise AnchorLost("the loop over the other module's names in Methods::merge")
    ok = all(flow.all_paths_pass(b, 0, loops, {o}) and o != 0 for o in oks)
    R.check(ok, "C13.R13", "merge:ok-only-after-name-loop", "merge returns Ok only after the name loop", "Methods::merge can return Ok(()) without having checked the other module's names (a path from its entry reaches `Ok` around the verify loop): merging a module that shares names - e.g. a clone of itself - is reported as a success", "%s:%d" % (b.file, b.lo))


SILENT = r"hash_map::Entry::<.*>::(or_insert|or_insert_with|or_insert_with_key|or_default|and_modify|insert_entry)$|hash_map::OccupiedEntry::<.*>::(insert|get_mut|into_mut|remove|remove_entry)$|HashMap::<.*>::(get_mut|values_mut|iter_mut|retain|clear|get_many_mut|get_disjoint_mut)$|Extend<.*>>::extend$|HashMap::<.*>::extend$"


def _silent_write_scan(F, R, rule, want_body):
    n = 0
    bad = []
    for b in F.real_bodies():
        if is_test_body(b) or not want_body(b):
            continue
        n += 1
        for c in b.calls_to(SILENT):
            ty = (c.self_ty or "") + " ".join(c.ga) + " ".join(b.locals[p["l"]]["ty"] for p in [op_place(a) for a in c.args[:1]] if p is not None and not p.get("p"))
            if TABLE_TY in ty:
                bad.append(c)
    for c in bad:
        R.fn(c.body)
        R.bad(rule, "%s:%s" % (fkey(c.body), (c.name() or "").split("::")[-1]), "%s writes the method table with %s: a taken name is kept or replaced silently - the registration reports success although the name was taken (and its handler is dropped or the old one replaced)" % (short(c.body.path), short(c.name())), where(c))
    if not bad:
        R.ok(rule, "no-silent-table-writes", "no keep-or-overwrite entry operation on the method table in %d bodies" % n)
    return n


def r14_entry_points_leave_the_verdict_to_the_dispatcher(ctx):
    """whether a name is bound is decided in one place per dispatcher: in the registry module the `method not found` code
    is built only by Methods::inner_call (on its lookup-miss arm, R4/R5), and none of the module's entry points (call,
    raw_json_request, subscribe, ...) builds `invalid params` or `method not found` itself. An entry point that pre-judges
    the request (params of an unusual shape, a name bound to the "wrong" kind of handler) answers a bound name without
    dispatching it, or an unbound one with another error - and differently from the other entry points."""
    F, R = ctx.F, ctx.R
    n = 0
    for b in F.real_bodies():
        if b.crate != CORE or is_test_body(b) or not b.path.startswith("jsonrpsee_core::server::rpc_module::"):
            continue
        for bi, blk in enumerate(b.blocks):
            if bi not in b.reachable or blk.get("cleanup"):
                continue
            for st in blk["st"]:
                if st["s"] == "assign" and st["rv"]["k"] == "agg" and (st["rv"].get("adt") or "").endswith("ErrorCode") and st["rv"].get("variant") in ("MethodNotFound", "InvalidParams"):
                    n += 1
                    R.fn(b)
                    ok = st["rv"]["variant"] == "MethodNotFound" and bool(re.search(r"::Methods::inner_call::\{closure#0\}$", b.path))
                    R.check(ok, "C13.R14", "%s:%s" % (fkey(b), st["rv"]["variant"]), "MethodNotFound is built by the dispatcher", "%s builds ErrorCode::%s itself: the request is judged before (or instead of) the registry lookup of the dispatcher, so a bound name can go undispatched / an unbound one is not answered `method not found`, depending on the entry point" % (short(b.path), st["rv"]["variant"]), "%s:%d" % (b.file, st["sp"][0]))
    R.floor("C13.R14", n, 1, "constructions of MethodNotFound / InvalidParams in the registry module")


def r15_alias_reports_success_only_after_binding(ctx):
    """`register_alias` answers Ok only when it has bound the alias: every path to an `Ok` return passes the insert into
    the method table. A shortcut that answers Ok first (`alias == existing_method: nothing to do`) skips both checks - the
    name may be taken (must fail) or the target unbound (must fail) - and adds nothing."""
    F, R = ctx.F, ctx.R
    al = F.one(r"^jsonrpsee_core::server::rpc_module::RpcModule::<Context>::register_alias$")
    R.fn(al)
    ins = {c.bb for c in al.calls_to(r"HashMap::<.*>::insert$")}
    oks = {bi for bi, blk in enumerate(al.blocks) if bi in al.reachable for st in blk["st"] if st["s"] == "assign" and st["pl"]["l"] == 0 and not st["pl"].get("p") and st["rv"]["k"] == "agg" and st["rv"].get("variant") == "Ok"}
    R.floor("C13.R15", len(ins), 1, "insertions in register_alias")
    free = (al.reach_from(0, avoid=ins) | {0}) - ins
    bad = sorted(free & oks)
    R.check(bool(oks) and not bad, "C13.R15", "alias:ok-only-after-insert", "register_alias returns Ok only after the insert", "register_alias can return Ok without having bound the alias (an Ok return is reachable without the insert): a taken name, or an alias of an unbound method, is reported as success", "%s:%d" % (al.file, block_line(al, bad[0]) if bad else al.lo))


def r9_no_silent_table_writes(ctx):
    """every write into the method table either cannot replace/keep silently (VacantEntry::insert behind an Occupied =>
    AlreadyRegistered arm) or is an insert after a successful verify (R1). The entry API's keep-or-overwrite operations
    (or_insert*, or_default, and_modify, OccupiedEntry::insert), bulk writes (extend) and in-place mutation (get_mut,
    values_mut, iter_mut, retain, clear) never touch the table: `entry(name).or_insert(cb)` reports success for a taken
    name and drops the new handler."""
    n = _silent_write_scan(ctx.F, ctx.R, "C13.R9", lambda b: b.crate == CORE and "server::rpc_module" in b.path)
    ctx.R.floor("C13.R9", n, 40, "rpc_module bodies scanned")


def control_silent_write(ctx):
    from .common import control
    control(ctx, "C13.R9", "Entry::or_insert on a table of MethodCallback values", lambda r: _silent_write_scan(ctx.F, r, "C13.R9", lambda b: b.path.startswith("verif_fixtures::")))


CONTROLS = [control_silent_write]


def rgen_generated_registrations(ctx):
    """the registrations #[rpc(server)] generates bind every declared name and alias to its own handler (= C17, run over
    the generated corpus)"""
    from . import c17
    return c17.w_rules(ctx)


LIB_RULES = [r15_alias_reports_success_only_after_binding, r14_entry_points_leave_the_verdict_to_the_dispatcher, r1_insert_after_verify, r2_all_or_nothing, r3_copy_on_write, r4_dispatch_and_remove, r5_not_found_iff_unbound, r6_sibling_registrars, r7_names_spelled_alike, r8_insert_fails_only_as_prechecked, r9_no_silent_table_writes, r10_lookup_is_one_exact_map_access, r11_taken_means_is_a_key, r12_no_borrowed_names, r13_merge_succeeds_only_after_checking_every_name]
CONFIGS_QUICK = ["libs-all", "corpus"]
CONFIGS_THOROUGH = ["libs-all", "facade-full", "corpus"]


def _only(cfgs, rule):
    def run(ctx):
        if ctx.config in cfgs:
            return rule(ctx)
    run.__name__ = rule.__name__
    return run


RULES = [_only(("libs-all", "facade-full"), r) for r in LIB_RULES] + [_only(("corpus",), rgen_generated_registrations)]

LEVEL_TEXT = (
    "For operation histories on one module the property is exactly a statement about which checks dominate which "
    "mutations, and that is decided here for every mutation site of the table: Entry-API or verify-then-insert with the "
    "same key, verify-all-before-any in merge and in subscription registration, copy-on-write as the only path to a &mut "
    "of the shared table, lookup/removal by the given name. HashMap's own semantics are trusted."
)
LEVEL_NOTE = "Trusted: rustc MIR; std HashMap/Entry; Arc::make_mut. Not decided: that a registered closure does what its registration says."
TECHNIQUE = "dominance of checks over mutations + loop-order analysis + who-may-mutate (receiver provenance)"

WITNESSES = {"C13TablePrivate": ("E0616", "Methods.callbacks is private")}

"""C06 — server subscription bookkeeping and the per-connection cap (structural clauses)."""
import re

from .common import (control, forget_scan, fkey, where, short, arg_is_local, follow_value, block_line, terminal_field, callback_invocations, classify_config_leaves, CORE, SERVER)
from ..facts import op_place, op_const, AnchorLost, is_test_body
from .. import flow

PID = "C06"
LEVEL = "other"
EXPLANATION = (
    'Static analysis over MIR. Decided: R1 in RpcService::call the Subscription callback is invoked only on the Some '
    'arm of BoundedSubscriptions::acquire; the None arm answers reject_too_many_subscriptions (-32006) with the '
    "call's id and invokes nothing; R2 the acquired permit flows SubscriptionState.subscription_permit -> "
    "PendingSubscriptionSink.permit -> the state shared by the sink's clones, and no forget-like call (mem::forget, "
    'ManuallyDrop::new, Box::leak, Arc::into_raw, OwnedSemaphorePermit::forget, '
    'Semaphore::{forget_permits,add_permits}) exists in core/server code; R3 the unsubscribe answer is '
    'remove(&(conn_id parameter, parsed id)).is_some() and an unparsable id answers false without touching the table; '
    'R4 the table entry is removed when the handler lets go of its sinks, and only by the last handle: the removal in '
    'a Drop impl lives in a non-Clone value shared by all clones of the sink behind an Arc (or is guarded by a last- '
    'owner test), and that value also owns the permit; R5 the Unsubscription arm acquires no permit; R6 '
    'BoundedSubscriptions::new receives ServerConfig.max_subscriptions_per_connection at both WebSocket entry points '
    'and the semaphore is created with exactly that number. R7 who may change the subscriber table (insert in accept, '
    'remove in the unsubscribe callback and in SubscriptionGuard::drop, nothing else); R8 no lock is re-acquired '
    'while its guard is alive; CFG max_subscriptions_per_connection reaches ServerConfig verbatim. NOT decided: the '
    'count invariant itself (tokio semaphore).'
)
RULE_TEXT = "instances = acquire/invoke dominance, permit flow steps, forbidden-call scan, removal sites in Drop impls, cap provenance"
TRUSTED = ["rustc MIR", "tokio Semaphore / OwnedSemaphorePermit RAII"]
ASSUMPTIONS = ["user handlers cannot leak a permit: they never own one (it is private to the sink types)"]

RSC = r"^<jsonrpsee_server::middleware::rpc::RpcService as jsonrpsee_core::middleware::RpcServiceT>::call$"
FORGET = r"^std::mem::forget$|^std::mem::ManuallyDrop::<.*>::new$|^std::boxed::Box::<.*>::leak$|^std::sync::Arc::<.*>::into_raw$|OwnedSemaphorePermit::forget$|SemaphorePermit::<'.*>::forget$|Semaphore::forget_permits$|Semaphore::add_permits$"


def r1_permit_before_handler(ctx):
    F, R = ctx.F, ctx.R
    tr = ctx.tracer(follow_callers=False, follow_fields=False)
    b = F.one(RSC)
    R.fn(b)
    acq = b.calls_to(r"BoundedSubscriptions::acquire$")
    R.check(len(acq) == 1, "C06.R1", "one-acquire", "one acquire site in RpcService::call", "%d acquire sites" % len(acq), "%s:%d" % (b.file, b.lo))
    invs = [i for i in callback_invocations(b) if i["variant"] and i["variant"][1] == "Subscription"]
    R.check(len(invs) == 1, "C06.R1", "one-subscription-invocation", "one Subscription invocation", "%d Subscription invocations" % len(invs), "%s:%d" % (b.file, b.lo))
    for a in acq:
        some_t = none_t = None
        for sb, arms, other in flow.switch_on(b, a.dest["l"]):
            some_t = arms.get("1")
            none_t = other if "1" in arms and "0" not in arms else arms.get("0")
        for i in invs:
            R.check(some_t is not None and b.dominates(some_t, i["call"].bb), "C06.R1", "invoke-after-acquire", "the subscription handler runs only after a slot was acquired", "the subscription handler can run without a subscription slot: the per-connection cap is not enforced", where(i["call"]))
            # the permit handed to the handler is the acquired one
            if i["ops"] is not None:
                lv = tr.origins(b, i["ops"][3])
                ok = False
                for l in lv:
                    if l.kind == "agg" and l.detail.get("adt", "").endswith("SubscriptionState"):
                        d = dict(zip(l.detail["fields"], l.detail["ops"]))
                        lp = tr.origins(b, d["subscription_permit"])
                        ok = any(x.kind == "call" and x.detail["bb"] == a.bb for x in lp)
                R.check(ok, "C06.R1", "handler-gets-acquired-permit", "the handler's SubscriptionState carries the acquired permit", "the permit handed to the handler is not the one acquired for this call", where(i["call"]))
        if none_t is not None:
            reach = b.reach_from(none_t) | {none_t}
            bad = [i for i in callback_invocations(b) if i["call"].bb in reach and b.dominates(none_t, i["call"].bb)]
            R.check(not bad, "C06.R1", "refused-invokes-nothing", "a refused subscribe runs no handler", "a handler runs on the refused arm", "%s:%d" % (b.file, block_line(b, none_t)))
            rej = [c for c in b.calls_to(r"reject_too_many_subscriptions$") if b.dominates(none_t, c.bb)]
            R.check(len(rej) == 1, "C06.R1", "refused:-32006", "the excess subscribe is refused with reject_too_many_subscriptions", "the refused arm does not build reject_too_many_subscriptions", "%s:%d" % (b.file, block_line(b, none_t)))
            for r in rej:
                lv = tr.origins(b, r.args[0])
                ok = any(l.kind == "call" and re.search(r"BoundedSubscriptions::max$", l.detail["callee"] or "") for l in lv) or any(l.kind == "field" and l.detail["fields"][-1][1] == "max" for l in lv)
                R.check(ok, "C06.R1", "refused:reports-cap", "the refusal reports the configured cap", "the refusal reports %s" % [flow.leaf_str(l) for l in lv], where(r))
        else:
            R.anchor_lost("C06.R1", "None arm of acquire()")
    rj = F.one(r"^jsonrpsee_types::error::reject_too_many_subscriptions$")
    from .common import error_code_ints
    ok6 = error_code_ints(ctx, rj) == {"-32006"}
    R.check(ok6, "C06.R1", "refused:code-value", "reject_too_many_subscriptions uses -32006", "reject_too_many_subscriptions does not use -32006", "%s:%d" % (rj.file, rj.lo))
    aq = F.one(r"^jsonrpsee_core::server::subscription::BoundedSubscriptions::acquire$")
    R.check(bool(aq.calls_to(r"Semaphore::try_acquire_owned$")), "C06.R1", "acquire:try_acquire_owned", "a slot is an owned semaphore permit (non-blocking acquire)", "BoundedSubscriptions::acquire no longer uses Semaphore::try_acquire_owned", "%s:%d" % (aq.file, aq.lo))


def r2_permit_flow(ctx):
    F, R = ctx.F, ctx.R
    tr = ctx.tracer(follow_callers=False, follow_fields=False)
    n = 0
    # PendingSubscriptionSink.permit <- conn.subscription_permit
    for b in F.find(r"^jsonrpsee_core::server::rpc_module::RpcModule::<Context>::register_subscription(_raw)?::\{closure#0\}$"):
        for bi, blk in enumerate(b.blocks):
            for st in blk["st"]:
                if st["s"] == "assign" and st["rv"]["k"] == "agg" and st["rv"].get("adt", "").endswith("PendingSubscriptionSink"):
                    n += 1
                    rv = st["rv"]
                    lv = tr.origins(b, rv["ops"][rv["fields"].index("permit")])
                    ok = bool(lv) and all((l.kind == "field" and l.detail["fields"][-1][1] == "subscription_permit") for l in lv)
                    R.check(ok, "C06.R2", fkey(b) + ":pending-permit", "the pending sink owns the call's permit", "the pending sink's permit is %s" % [flow.leaf_str(l) for l in lv], "%s:%d" % (b.file, st["sp"][0]))
    R.floor("C06.R2", n, 2, "PendingSubscriptionSink constructions")
    # accept: the permit moves into the state shared by the sink
    acc = F.one(r"^jsonrpsee_core::server::subscription::PendingSubscriptionSink::accept::\{closure#0\}$")
    R.fn(acc)
    moved = False
    for bi, blk in enumerate(acc.blocks):
        for st in blk["st"]:
            if st["s"] == "assign" and st["rv"]["k"] == "agg" and st["rv"]["ak"] == "adt":
                for fn_, op in zip(st["rv"]["fields"], st["rv"]["ops"]):
                    lv = tr.origins(acc, op)
                    if any(l.kind == "field" and l.detail["fields"][-1][1] == "permit" and "PendingSubscriptionSink" in (l.detail["fields"][-1][0] or "") for l in lv):
                        moved = st["rv"]["adt"]
    R.check(bool(moved), "C06.R2", "accept:permit-moves-into-sink-state", "accept moves the permit into the accepted sink's state (%s)" % short(moved or ""), "accept does not keep the permit alive in the accepted sink: the slot is returned while the subscription is still active", "%s:%d" % (acc.file, acc.lo))
    # no forget-like calls anywhere in core/server non-test code
    hits = []
    scanned = 0
    for b in F.real_bodies():
        if b.crate not in (CORE, SERVER) or is_test_body(b):
            continue
        scanned += 1
        for c in b.calls:
            if c.exp:
                continue
            if re.search(FORGET, c.name() or "") or re.search(FORGET, c.callee or ""):
                hits.append(c)
    R.extra["C06.R2.bodies_scanned"] = scanned
    R.floor("C06.R2.scan", scanned, 400, "bodies scanned for forget-like calls")
    for c in hits:
        R.bad("C06.R2", "forget:%s:%s" % (fkey(c.body), c.name().split("::")[-1]), "forget-like call %s in %s: a permit (or a value owning one) can be leaked, the slot is never returned" % (short(c.name()), short(c.body.path)), where(c))
    if not hits:
        R.ok("C06.R2", "no-forget-like-calls", "no mem::forget / ManuallyDrop / leak / into_raw / permit.forget / add_permits in core or server (%d bodies)" % scanned, None, nontrivial=True)


def r3_unsubscribe_answer(ctx):
    F, R = ctx.F, ctx.R
    tr = ctx.tracer(follow_callers=False, follow_fields=False)
    cb = F.one(r"^jsonrpsee_core::server::rpc_module::RpcModule::<Context>::verify_and_register_unsubscribe::\{closure#0\}$")
    R.fn(cb)
    rem = cb.calls_to(r"HashMap::<.*>::remove$")
    one = cb.calls_to(r"Params::<'.*>::one$")
    R.check(len(rem) == 1 and len(one) == 1, "C06.R3", "shape", "one parse and one removal", "unsubscribe callback has %d parses / %d removals" % (len(one), len(rem)), "%s:%d" % (cb.file, cb.lo))
    resp = cb.calls_to(r"MethodResponse::response$")
    for r in rem:
        ok_t = None
        for o in one:
            for sb, arms, other in flow.switch_on(cb, o.dest["l"]):
                ok_t = arms.get("0")
                err_t = arms.get("1")
            R.check(ok_t is not None and cb.dominates(ok_t, r.bb), "C06.R3", "remove-only-after-parse", "the table is touched only when the id parsed", "the table is touched even when the subscription id is unparsable", where(r))
            if err_t is not None:
                reach = cb.reach_from(err_t, avoid=[ok_t]) | {err_t}
                for p in resp:
                    if p.bb in reach and cb.dominates(err_t, p.bb):
                        lv = tr.origins(cb, p.args[1])
                        okf = False
                        for l in lv:
                            if l.kind == "call" and re.search(r"ResponsePayload::<'.*>::success$", l.detail["callee"] or ""):
                                k = op_const(l.detail["args"][0])
                                okf = k is not None and k.get("bool") is False
                        R.check(okf, "C06.R3", "unparsable->false", "an unparsable id answers false", "an unparsable id does not answer `false`", where(p))
        # answer = remove(..).is_some()
        for p in resp:
            if cb.dominates(r.bb, p.bb):
                lv = tr.origins(cb, p.args[1])
                ok = False
                for l in lv:
                    if l.kind == "call" and re.search(r"ResponsePayload::<'.*>::success$", l.detail["callee"] or ""):
                        l2 = tr.origins(cb, l.detail["args"][0])
                        for x in l2:
                            if x.kind == "call" and re.search(r"Option::<.*>::is_some$", x.detail["callee"] or ""):
                                l3 = tr.origins(cb, x.detail["args"][0])
                                ok = any(y.kind == "call" and y.detail["bb"] == r.bb for y in l3)
                R.check(ok, "C06.R3", "answer-is-removal-result", "the answer is whether an entry was removed", "the unsubscribe answer is not `remove(&key).is_some()`", where(p))
        lv = tr.origins(cb, r.args[1])
        for l in lv:
            if l.kind == "agg" and l.detail.get("adt", "").endswith("SubscriptionKey"):
                d = dict(zip(l.detail["fields"], l.detail["ops"]))
                lc = tr.origins(cb, d["conn_id"])
                R.check(bool(lc) and all(x.kind == "param" and (x.detail.get("ty") or "").endswith("ConnectionId") for x in lc), "C06.R3", "key-is-callers-connection", "only the caller's own connection's subscriptions can be removed", "the removal key uses connection %s" % [flow.leaf_str(x) for x in lc], where(r))
    # the unsubscribe callback receives the service's conn_id
    b = F.one(RSC)
    for i in callback_invocations(b):
        if i["variant"] and i["variant"][1] == "Unsubscription" and i["ops"] is not None:
            lv = tr.origins(b, i["ops"][2])
            ok = bool(lv) and all(l.kind == "field" and l.detail["fields"][-1][1] == "conn_id" for l in lv)
            R.check(ok, "C06.R3", "callback-gets-service-conn-id", "the unsubscribe callback gets this connection's id", "the unsubscribe callback is given connection id %s" % [flow.leaf_str(l) for l in lv], where(i["call"]))


def r4_release_on_last_drop(ctx):
    F, R = ctx.F, ctx.R
    drops = [b for b in F.real_bodies() if b.crate == CORE and b.path.endswith("::drop") and (b.impl_trait or "").endswith("Drop") and "server::subscription" in b.path and not is_test_body(b)]
    removers = []
    for b in drops:
        for c in b.calls_to(r"HashMap::<.*>::remove$"):
            if "SubscriptionKey" in " ".join(c.ga) + (c.self_ty or ""):
                removers.append((b, c))
    R.check(bool(removers), "C06.R4", "drop-removes-entry", "letting go of the sinks removes the table entry", "no Drop impl removes the subscription's table entry: after the handler is gone unsubscribe still answers true", None)
    clone_impls = {i["self"].split("<")[0] for i in F.impls if (i.get("trait") or "").endswith("Clone") and i["crate"] == CORE}
    sink = F.adt("jsonrpsee_core::server::subscription::SubscriptionSink")
    if sink is None:
        raise AnchorLost("ADT SubscriptionSink")
    sink_fields = {f["n"]: f["ty"] for f in sink["variants"][0]["fields"]}
    sink_is_clone = "jsonrpsee_core::server::subscription::SubscriptionSink" in clone_impls
    for b, c in removers:
        R.fn(b)
        self_ty = (b.impl_self or "").split("<")[0]
        if self_ty in clone_impls:
            # a Clone type removes the shared entry in its own Drop: needs a last-owner test
            guard = b.calls_to(r"Arc::<.*>::(strong_count|try_unwrap|into_inner|get_mut)$")
            ok = any(b.dominates(g.bb, c.bb) for g in guard)
            R.check(ok, "C06.R4", "last-owner:%s" % fkey(b), "the removal in a cloneable handle's Drop is guarded by a last-owner test", "Drop for %s removes the shared table entry although other clones of the handle may still exist: dropping one clone of a sink closes the subscription while the handler still holds a sink" % short(self_ty), where(c))
        else:
            held = [n for n, t in sink_fields.items() if re.search(r"Arc<%s>" % re.escape(self_ty), t)]
            R.check(bool(held) or not sink_is_clone, "C06.R4", "last-owner:%s" % fkey(b), "the removal lives in %s, shared by all sink clones behind an Arc (field %s)" % (short(self_ty), held), "Drop for %s removes the table entry but SubscriptionSink does not hold it behind an Arc: clones do not share it" % short(self_ty), where(c))
            # that shared value also owns the permit (slot returned exactly when the entry goes)
            adt = F.adt(self_ty)
            has_permit = adt is not None and any("OwnedSemaphorePermit" in f["ty"] or "SubscriptionPermit" in f["ty"] for f in adt["variants"][0]["fields"])
            R.check(has_permit, "C06.R4", "permit-with-entry:%s" % fkey(b), "the value that removes the entry also owns the permit", "%s removes the entry but does not own the permit" % short(self_ty), where(c))
        # removal only if still active (not already unsubscribed): after an unsubscribe the key may belong to a newer
        # subscription (ids can be re-issued by a custom IdProvider)
        act = b.calls_to(r"IsUnsubscribed::is_unsubscribed$|SubscriptionSink::is_active_subscription$")
        okg = False
        for g in act:
            want_true = g.name().endswith("is_active_subscription")
            for l in follow_value(b, g.dest["l"]):
                for sb, arms, other in flow.switch_on(b, l):
                    tt = (other if "0" in arms else arms.get("1")) if want_true else arms.get("0")
                    if tt is not None and b.dominates(tt, c.bb):
                        okg = True
            # `!x` form
            for bi2, blk2 in enumerate(b.blocks):
                for st2 in blk2["st"]:
                    if st2["s"] == "assign" and st2["rv"]["k"] == "un" and st2["rv"]["op"] == "Not" and arg_is_local(b, st2["rv"]["a"], g.dest["l"]):
                        for sb, arms, other in flow.switch_on(b, st2["pl"]["l"]):
                            tt = arms.get("0") if want_true else (other if "0" in arms else arms.get("1"))
                            if tt is not None and b.dominates(tt, c.bb):
                                okg = True
        R.check(okg, "C06.R4", "drop-only-if-active:%s" % fkey(b), "the entry is removed on drop only while the subscription is still active", "Drop removes the table entry even after the subscription was unsubscribed: a stale sink can remove the entry of a newer subscription that was given the same id", where(c))
        # ... and with the own key
        tr = ctx.tracer(follow_callers=False, follow_fields=False)
        lv = tr.origins(b, c.args[1])
        ok = bool(lv) and all(l.kind == "field" and l.detail["fields"][-1][1] == "uniq_sub" for l in lv)
        R.check(ok, "C06.R4", "drop-own-key:%s" % fkey(b), "the entry removed is the subscription's own", "Drop removes key %s" % [flow.leaf_str(l) for l in lv], where(c))
    # permit holder inside SubscriptionSink: not directly an un-shared permit
    direct = [n for n, t in sink_fields.items() if re.fullmatch(r"(tokio::sync::OwnedSemaphorePermit|jsonrpsee_core::server::subscription::SubscriptionPermit)", t)]
    R.check(not (sink_is_clone and direct), "C06.R4", "sink-clone-shares-permit", "clones of the sink share one permit", "SubscriptionSink is Clone but owns a permit directly", None)


def r5_unsubscribe_needs_no_permit(ctx):
    F, R = ctx.F, ctx.R
    b = F.one(RSC)
    acq = b.calls_to(r"BoundedSubscriptions::acquire$")
    for i in callback_invocations(b):
        if i["variant"] and i["variant"][1] in ("Unsubscription", "Sync", "Async"):
            bad = [a for a in acq if b.dominates(a.bb, i["call"].bb)]
            R.check(not bad, "C06.R5", "%s:no-permit" % i["variant"][1], "%s calls do not take a subscription slot" % i["variant"][1], "%s calls are subject to the subscription cap" % i["variant"][1], where(i["call"]))


def r6_cap_provenance(ctx):
    F, R = ctx.F, ctx.R
    tr = ctx.tracer()
    sites = [c for c in F.all_calls(r"BoundedSubscriptions::new$") if c.body.crate == SERVER]
    R.floor("C06.R6", len(sites), 2, "BoundedSubscriptions::new sites in the server")
    for c in sites:
        R.fn(c.body)
        leaves = tr.origins(c.body, c.args[0])
        good, bad, sk = classify_config_leaves(leaves, "max_subscriptions_per_connection", ("jsonrpsee_server",))
        key = fkey(c.body) + ":cap"
        if bad or not good:
            R.bad("C06.R6", key, "per-connection subscription cap: %s" % ("; ".join(w for _, w in bad) or "no origin in max_subscriptions_per_connection"), where(c))
        else:
            R.ok("C06.R6", key, "the cap is ServerConfig.max_subscriptions_per_connection", where(c))
    # the budget is *per connection*: what a connection's RpcService gets is a BoundedSubscriptions created for that
    # connection (in the upgrade path itself), never a clone of one that lives in a longer-lived, clonable value
    tr_n = ctx.tracer(follow_callers=False, follow_fields=False, inline_calls=False)
    m = 0
    for b in F.real_bodies():
        if b.crate != SERVER or is_test_body(b) or (b.path.endswith("::clone") and (b.impl_trait or "").endswith("Clone")):
            continue
        for bi, blk in enumerate(b.blocks):
            if blk.get("cleanup") or bi not in b.reachable:
                continue
            for st in blk["st"]:
                if st["s"] == "assign" and st["rv"]["k"] == "agg" and st["rv"].get("variant") == "CallsAndSubscriptions" and "bounded_subscriptions" in st["rv"]["fields"]:
                    m += 1
                    op = st["rv"]["ops"][st["rv"]["fields"].index("bounded_subscriptions")]
                    lv = tr_n.origins(b, op)
                    fresh = bool(lv) and all(l.kind == "call" and re.search(r"BoundedSubscriptions::new$", l.detail["callee"] or "") and l.where == b.path for l in lv)
                    R.check(fresh, "C06.R6", "%s:budget-created-per-connection" % fkey(b), "the connection's subscription budget is created for this connection", "%s gives the connection a subscription budget that was not created for it (%s): connections served by clones of one service share one semaphore, so an idle connection is refused because another one is full" % (short(b.path), [flow.leaf_str(l)[:80] for l in lv]), "%s:%d" % (b.file, st["sp"][0]))
    R.floor("C06.R6.per-connection", m, 2, "RpcServiceCfg::CallsAndSubscriptions constructions in the server")
    nb = F.one(r"^jsonrpsee_core::server::subscription::BoundedSubscriptions::new$")
    trl = ctx.tracer(follow_callers=False, follow_fields=False)
    sem = nb.calls_to(r"Semaphore::new$")
    R.check(len(sem) == 1, "C06.R6", "new:semaphore", "one semaphore per connection", "%d Semaphore::new sites" % len(sem), "%s:%d" % (nb.file, nb.lo))
    for s in sem:
        lv = trl.origins(nb, s.args[0])
        ok = bool(lv) and all(l.kind == "param" and l.detail["idx"] == 1 for l in lv)
        R.check(ok, "C06.R6", "new:semaphore-size", "the semaphore has exactly max_subscriptions permits", "the semaphore is sized by %s" % [flow.leaf_str(l) for l in lv], where(s))



TABLE_WRITERS = {
    # site (function) -> the only table operations it may perform, with the reason
    r"^jsonrpsee_core::server::subscription::PendingSubscriptionSink::accept::\{closure#0\}$": ({"insert"}, "accept registers the subscription"),
    r"^jsonrpsee_core::server::rpc_module::RpcModule::<Context>::verify_and_register_unsubscribe::\{closure#0\}$": ({"remove"}, "the unsubscribe call ends it"),
    r"^<jsonrpsee_core::server::subscription::SubscriptionGuard as std::ops::Drop>::drop$": ({"remove"}, "the last sink clone going away ends it"),
}


def r7_table_writers(ctx):
    """who may change the subscriber table: a subscription becomes active in accept() and stops being active only by an
    unsubscribe call or when the last sink clone is dropped (its connection closing drops the receiver side). Any other
    function removing/inserting entries ends or fakes a subscription the handler still holds a sink for."""
    F, R = ctx.F, ctx.R
    n = 0
    seen = set()
    for c in F.all_calls(r"HashMap::<.*>::(remove|remove_entry|insert|clear|retain|drain|extract_if|entry|get_mut|iter_mut|values_mut)$"):
        if not (c.ga and "subscription::SubscriptionKey" in c.ga[0]):
            continue
        op = c.name().split("::")[-1]
        n += 1
        allowed = None
        for pat, (ops, why) in TABLE_WRITERS.items():
            if re.search(pat, c.body.path):
                allowed = (ops, why)
                seen.add(pat)
        R.check(allowed is not None and op in allowed[0], "C06.R7", "%s:%s" % (fkey(c.body), op), "%s on the subscriber table in %s (%s)" % (op, short(c.body.path), allowed[1] if allowed else ""),
                "%s performs `%s` on the subscriber table: entries may only be inserted by accept() and removed by the unsubscribe call or by the last sink clone's drop; here a subscription stops (or starts) being active while its handler may still hold a sink, so sends fail and unsubscribe answers false for a live subscription" % (short(c.body.path), op), where(c))
    R.floor("C06.R7", n, 3, "mutations of the subscriber table")
    R.check(len(seen) == len(TABLE_WRITERS), "C06.R7", "all-writers-present", "insert-on-accept, remove-on-unsubscribe and remove-on-last-drop all exist", "one of the three table writers is missing (found %d of %d)" % (len(seen), len(TABLE_WRITERS)), None)


def r8_no_relock(ctx):
    """the subscriber table's lock is never re-acquired while held (accept / unsubscribe / last-drop would block forever
    and the subscription would neither become active nor return its slot)"""
    from .common import double_lock_scan
    F, R = ctx.F, ctx.R
    n = double_lock_scan(F, R, "C06.R8", r"^<?jsonrpsee_core::server::|^<?jsonrpsee_server::")
    R.ok("C06.R8", "no-relock", "%d lock acquisitions inspected; none re-acquires a held lock" % n)
    R.floor("C06.R8", n, 3, "lock acquisitions in the server crates")


def r9_connection_ids_are_fresh(ctx):
    """the subscriber table is keyed by (connection id, subscription id): two live connections must never share a
    connection id, however the server is assembled. The id a service is born with (ServiceData.conn_id) therefore comes
    from a counter step - the accept loop's increment (ProcessConnection.conn_id: start value and `wrapping_add`) or the
    shared atomic's fetch_add in TowerServiceBuilder::build - never from a plain copy that every clone of a builder
    repeats."""
    F, R = ctx.F, ctx.R
    tr = ctx.tracer(follow_callers=False, follow_fields=False, inline_calls=False)
    tr.field_writes("-", "-")
    n = 0
    for (owner, fname), lst in sorted(tr._field_writes.items()):
        if fname != "conn_id" or owner not in ("jsonrpsee_server::server::ServiceData", "jsonrpsee_server::server::ProcessConnection"):
            continue
        for b, op in lst:
            if is_test_body(b) or "rvwrap" in op or (b.path.endswith("::clone") and (b.impl_trait or "").endswith("Clone")):
                continue
            n += 1
            R.fn(b)
            lv = tr.origins(b, op)
            step = [l for l in lv if (l.kind == "call" and re.search(r"atomic::Atomic.*::fetch_add$|::wrapping_add$|::checked_add$", l.detail["callee"] or "")) or l.kind == "arith"]
            passed = [l for l in lv if l.kind == "field" and l.detail["fields"][-1][1] == "conn_id" and l.detail["fields"][-1][0] == "jsonrpsee_server::server::ProcessConnection"]
            R.check(bool(step) or (bool(passed) and owner.endswith("ServiceData")), "C06.R9", "%s:%s.conn_id-is-fresh" % (fkey(b), owner.split("::")[-1]), "%s gives the connection a fresh id (%s)" % (short(b.path), "counter step" if step else "the accept loop's id"), "%s gives the connection an id that is a plain copy (%s): every service built from a clone of the same builder gets the same ConnectionId, so one connection can unsubscribe (and kill) another connection's subscription" % (short(b.path), [flow.leaf_str(l)[:70] for l in lv]), "%s:%d" % (b.file, b.lo))
    R.floor("C06.R9", n, 3, "places where a connection gets its id")


def r10_ids_spelled_alike(ctx):
    """the subscriber table is written with the id the IdProvider issued (accept) and read with the id the client sends
    back (the unsubscribe callback): both sides must spell it the same way - whatever text transformation one side
    applies the other applies too (today: none). A one-sided fold (lower-casing on unsubscribe only) makes the own,
    active subscription unknown to unsubscribe: it answers false and the slot is never returned."""
    from .common import text_transforms
    F, R = ctx.F, ctx.R
    w = text_transforms(F, R, (r"^jsonrpsee_core::server::subscription::PendingSubscriptionSink::accept$",))
    r = text_transforms(F, R, (r"^jsonrpsee_core::server::rpc_module::RpcModule::<Context>::verify_and_register_unsubscribe$",))
    R.check(w == r, "C06.R10", "sub-id-spelling:writer-reader-agree", "accept and unsubscribe use the subscription id in the same spelling (transformations: %s)" % (sorted(w) or "none"), "accept stores subscription ids transformed by %s but the unsubscribe callback looks them up transformed by %s: an id with (e.g.) upper-case letters is stored one way and looked up another, unsubscribe answers false for an active own subscription and its slot is never freed" % (sorted(w) or "nothing", sorted(r) or "nothing"), None)



def r11_table_entry_always_has_an_owner(ctx):
    """an entry of the subscriber table is removed by the SubscriptionGuard (dropped with the last sink clone) or by an
    unsubscribe call. accept() therefore creates the entry and its guard together: from the insert no exit of accept (an
    error return of a failed send, a suspension point where the future can be dropped) is reachable before the guard
    exists. An entry inserted ahead of the fallible sends stays behind without an owner when accept fails or is cancelled -
    unsubscribe then answers true for a subscription that never became active."""
    F, R = ctx.F, ctx.R
    acc = F.one(r"^jsonrpsee_core::server::subscription::PendingSubscriptionSink::accept::\{closure#0\}$")
    R.fn(acc)
    ins = [c for c in acc.calls_to(r"HashMap::<.*>::insert$") if c.ga and "subscription::SubscriptionKey" in c.ga[0]]
    R.floor("C06.R11", len(ins), 1, "subscriber-table inserts in accept")
    guards = {bi for bi, blk in enumerate(acc.blocks) for st in blk["st"] if st["s"] == "assign" and st["rv"]["k"] == "agg" and (st["rv"].get("adt") or "").endswith("subscription::SubscriptionGuard")}
    if not guards:
        raise AnchorLost("construction of SubscriptionGuard in accept")
    leaves = {bi for bi, blk in enumerate(acc.blocks) if blk["term"] and blk["term"]["t"] in ("return", "yield", "coroutine_drop")}
    for c in ins:
        ok = c.bb in guards or flow.all_paths_pass(acc, c.bb, guards, leaves)
        R.check(ok, "C06.R11", "accept:entry-and-guard-together", "the table entry is created together with the guard that removes it", "accept() inserts the subscription into the table and can then still fail or be suspended before the SubscriptionGuard exists (an error return / await lies between them): the entry is left without an owner, so unsubscribe answers true for a subscription that was never accepted and the entry is never removed", where(c))



def r12_ws_connections_always_get_the_subscription_service(ctx):
    """the excess subscribe is refused with -32006 and unsubscribe answers false for unknown ids whatever the cap is (0
    included): every WebSocket connection's service is CallsAndSubscriptions{bounded_subscriptions: new(cap)} - a
    cap-dependent OnlyCalls configuration answers both with -32603 instead (= C10.R2's shape check)"""
    from . import c10
    c10.r2_service_handle(ctx)


def rcfg_config_verbatim(ctx):
    """the configured `max_subscriptions_per_connection` reaches the ServerConfig unchanged (setter stores its argument, build()/Clone copy it)"""
    from .common import config_field_integrity
    config_field_integrity(ctx, "C06.CFG", "max_subscriptions_per_connection")



def rids_wire_ids_derive_both(ctx):
    """ids are serialised and parsed by mirror-image (derived) impls"""
    from .common import wire_ids_derive_both
    wire_ids_derive_both(ctx, "C06.IDS")



def rgen_generated_registrations(ctx):
    """`unsubscribe` (and its aliases) of a macro-generated API reach the unsubscribe handler (= C17 over the corpus)"""
    from . import c17
    return c17.w_rules(ctx)


def rflag_refused_subscribe_is_flagged_failed(ctx):
    """`accept` and the subscribe call's future decide on `is_success()` of the subscribe response whether the subscription
    exists (table entry, handler keeps running, slot stays taken). A response whose json was replaced by an error (too big
    for the response limit, not serialisable) but that still says success is a refusal on the wire and an accepted
    subscription in the table: the client never learns an id, the slot is held until the connection ends"""
    from .common import response_flag_matches_json
    response_flag_matches_json(ctx, "C06.FLAG")


def rclosed_is_closed_keeps_its_two_sources(ctx):
    """the table entry of a subscription goes when its last sink goes: the guard's Drop asks `is_unsubscribed()` whether
    the unsubscribe call already removed it - that answer must not also turn true because the *connection* closed, else
    entries of subscriptions that were alive at disconnect stay for ever (= C04.R2: closed = connection closed ||
    unsubscribed, the two kept apart)"""
    from . import c04
    c04.r2_closed_check_first(ctx)


LIB_RULES = [rclosed_is_closed_keeps_its_two_sources, rflag_refused_subscribe_is_flagged_failed, r1_permit_before_handler, r2_permit_flow, r3_unsubscribe_answer, r4_release_on_last_drop, r5_unsubscribe_needs_no_permit, r6_cap_provenance, r7_table_writers, r8_no_relock, r9_connection_ids_are_fresh, r10_ids_spelled_alike, r11_table_entry_always_has_an_owner, r12_ws_connections_always_get_the_subscription_service, rcfg_config_verbatim, rids_wire_ids_derive_both]
CONFIGS_QUICK = ["libs-all", "corpus"]
CONFIGS_THOROUGH = ["libs-all", "facade-full", "corpus"]


def _only(cfgs, rule):
    def run(ctx):
        if ctx.config in cfgs:
            return rule(ctx)
    run.__name__ = rule.__name__
    return run


RULES = [_only(("libs-all", "facade-full"), r) for r in LIB_RULES] + [_only(("corpus",), rgen_generated_registrations)]

LEVEL_TEXT = (
    "Structural necessary conditions of subscription bookkeeping decided from the type-checked program: acquire dominates "
    "the handler, the refused arm is exact, the permit's ownership chain is RAII all the way with a whole-crate scan for "
    "forget-like calls, the unsubscribe answer is the removal result for the caller's own key, the table entry and the "
    "permit are released together by the last handle, the cap's provenance. The counting itself is tokio's semaphore."
)
LEVEL_NOTE = "Trusted: rustc MIR; tokio Semaphore RAII. Not decided: the count invariant at every instant, timing of handler drops."
TECHNIQUE = "dominance (acquire-before-use) + ownership-flow tracing + forbidden-call scan + Drop/Clone/Arc sharing analysis over ADT and impl facts"


def control_forget(ctx):
    control(ctx, "C06.R2", "mem::forget / add_permits / permit.forget", lambda r: forget_scan(ctx.F, r, "C06.R2", ("verif_fixtures",), floor=1))


CONTROLS = [control_forget]

WITNESSES = {"C06PermitPrivate": ("E0616", "the permit of a pending sink is private")}

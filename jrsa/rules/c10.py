"""C10 — graceful stop answers received calls and reports stopped only when done (ownership/ordering clauses)."""
import re

from .common import (fkey, where, short, arg_is_local, follow_value, block_line, awaited_value_local, drop_sites, SERVER, CORE)
from ..facts import op_place, op_const, AnchorLost, is_test_body
from .. import flow

PID = "C10"
LEVEL = "other"
EXPLANATION = (
    "The property quantifies over schedules; only ownership and ordering clauses are decided. `stopped()` resolves when the "
    "last StopHandle is gone, so every serving task must own one until its work is done. Decided: R1 in start_inner the "
    "StopHandle is only cloned, never moved, and is dropped only after the loop that waits for every connection task "
    "(which itself starts only after the last drop_on_completion sender was dropped); in the task spawned by "
    "process_connection the completion token is dropped only after the connection future completed on both arms; in "
    "ws::background_task the StopHandle given to shutdown() is a clone, and the ConnectionState (owner of the original) is "
    "dropped only after graceful_shutdown completed; R2 in background_task drop(rpc_service) dominates the call to "
    "graceful_shutdown, and in the WS per-message task the service handle (which carries the pending-call token) is not "
    "dropped before the reply was handed to the sink; R3 in graceful_shutdown the writer task is told to stop only after "
    "the wait for pending calls (on the Stopped arm) and the writer task is awaited afterwards; in ws::send_task the "
    "response queue is the first (priority) operand of future::select and the ping/stop future the second, so queued "
    "answers are written before the stop signal is observed; R4 on the HTTP stop arm graceful_shutdown() is called and "
    "the connection is then awaited to completion (process_connection and serve_with_graceful_shutdown, siblings). "
    "NOT decided: `every started call is answered` for every landing point of stop()."
)
RULE_TEXT = "instances = drop sites of StopHandle / tokens / ConnectionState vs. completion points, select operand order, stop-arm sequences"
TRUSTED = ["rustc MIR", "tokio watch/mpsc/oneshot semantics", "futures select is left-biased"]
ASSUMPTIONS = ["hyper's graceful_shutdown lets in-flight requests finish"]


def _ready(body, call):
    vl, rblk = awaited_value_local(body, call)
    if rblk is None:
        rblk = flow.await_ready_block(body, call)
    return rblk


def r1_who_keeps_stopped_pending(ctx):
    F, R = ctx.F, ctx.R
    # (a) start_inner
    si = F.one(r"^jsonrpsee_server::server::Server::<HttpMiddleware, RpcMiddleware>::start_inner::\{closure#0\}$")
    R.fn(si)
    recv = si.calls_to(r"mpsc::.*Receiver::<.*>::recv$")
    R.check(len(recv) == 1, "C10.R1", "start_inner:waits-for-connections", "start_inner waits for every connection task", "start_inner no longer waits on the completion channel (%d recv sites)" % len(recv), "%s:%d" % (si.file, si.lo))
    if recv:
        rc = recv[0]
        # loop exit: is_some() false
        exit_t = None
        for c in si.calls_to(r"Option::<.*>::is_some$"):
            for sb, arms, other in flow.switch_on(si, c.dest["l"]):
                exit_t = arms.get("0")
        if exit_t is None:
            # `loop { match rx.recv().await { Some(_) => .., None => break } }` spelling
            vl, _rdy = awaited_value_local(si, rc)
            if vl is not None:
                for sb, arms, other in flow.switch_on(si, vl):
                    if arms.get("0") is not None:
                        exit_t = arms["0"]
        R.check(exit_t is not None, "C10.R1", "start_inner:loop-until-none", "the wait loop runs until the channel is closed", "the wait for connection tasks is not a loop until None", where(rc))
        for bb, kind, loc in _orig_drop_sites(si, "jsonrpsee_server::future::StopHandle"):
            R.check(exit_t is not None and si.dominates(exit_t, bb), "C10.R1", "start_inner:stop-handle-held:%s" % kind, "start_inner's StopHandle outlives the wait for all connection tasks", "start_inner releases its StopHandle (%s) before all connection tasks finished: stopped() can resolve while connections are still served" % kind, loc)
        moved = []
        for c in si.calls:
            for a in c.args:
                p = op_place(a)
                if "mv" in a and p is not None and not p.get("p") and si.locals[p["l"]]["ty"] == "jsonrpsee_server::future::StopHandle" and _from_env(si, p["l"]):
                    moved.append(c)
        R.check(not moved, "C10.R1", "start_inner:stop-handle-not-moved", "start_inner only clones its StopHandle", "start_inner moves its own StopHandle into %s" % [short(c.name()) for c in moved], "%s:%d" % (si.file, si.lo))
        dd = [c for c in si.calls_to(r"^std::mem::drop$") if "mpsc::Sender<()>" in si.locals[op_place(c.args[0])["l"]]["ty"]]
        R.check(len(dd) == 1 and si.dominates(dd[0].bb, rc.bb), "C10.R1", "start_inner:last-sender-dropped-before-wait", "the accept loop's own completion sender is dropped before waiting (else the wait never ends)", "the completion sender is not dropped before the wait loop", where(rc))
    # (b) process_connection task
    pcs = [x for x in F.nested(F.one(r"^jsonrpsee_server::server::process_connection$")) if x.calls_to(r"serve_connection_with_upgrades$")]
    if len(pcs) != 1:
        raise AnchorLost("the connection task of process_connection (the future that calls serve_connection_with_upgrades; found %d)" % len(pcs))
    pc = pcs[0]
    R.fn(pc)
    sel = pc.calls_to(r"^futures_util::future::select$")
    R.check(len(sel) == 1, "C10.R1", "process_connection:select", "the connection is raced against the stop signal", "%d select sites in the connection task" % len(sel), "%s:%d" % (pc.file, pc.lo))
    # nothing is awaited in the connection task before that race: a wait in front of it (peeking at the first byte of the
    # socket, a handshake, a timer) is not cancelled by stop(), so a silent peer pins `stopped()` for as long as it likes
    if sel:
        early = [c for c in pc.calls_to(r"IntoFuture>?::into_future$") if (c.exp or "").startswith("d:Await") and not pc.dominates(sel[0].bb, c.bb)]
        R.check(not early, "C10.R1", "process_connection:nothing-awaited-before-the-race", "the connection task awaits nothing before racing the connection against the stop signal", "the connection task awaits something before it starts racing the connection against the stop signal (%s): that wait does not end when the server is stopped" % [where(c) for c in early], where(early[0]) if early else None)
    tokens = drop_sites(pc, "mpsc::Sender<()>")
    R.floor("C10.R1.token", len(tokens), 1, "drop sites of the completion token in the connection task")
    if sel:
        rs = _ready(pc, sel[0])
        gs = pc.calls_to(r"graceful_shutdown$")
        R.check(len(gs) == 1, "C10.R4", "process_connection:graceful_shutdown", "on stop the connection is asked to shut down gracefully", "process_connection no longer calls graceful_shutdown() on the stop arm", "%s:%d" % (pc.file, pc.lo))
        # the await of conn after graceful_shutdown
        after = None
        if gs:
            for c in pc.calls_to(r"IntoFuture::into_future$"):
                if pc.dominates(gs[0].bb, c.bb):
                    after = flow.await_ready_block(pc, c) or _ready_of_into_future(pc, c)
            R.check(after is not None, "C10.R4", "process_connection:await-after-shutdown", "after graceful_shutdown() the connection is polled to completion", "after graceful_shutdown() the connection is not awaited: in-flight requests are cut off", where(gs[0]))
        for bb, kind, loc in tokens:
            ok = rs is not None and pc.dominates(rs, bb)
            if ok and gs and after is not None and pc.can_reach(gs[0].bb, bb):
                ok = flow.all_paths_pass(pc, gs[0].bb, {after}, {bb})
            R.check(ok, "C10.R1", "process_connection:token-after-connection:%s" % kind, "the completion token is dropped only after the connection future completed (both arms)", "the completion token can be dropped (%s) before the connection finished: stopped() resolves while a request is still served" % kind, loc)
    # (c) ws::background_task
    bt = F.one(r"^jsonrpsee_server::transport::ws::background_task::\{closure#0\}$")
    R.fn(bt)
    sh = bt.calls_to(r"StopHandle::shutdown$")
    R.check(len(sh) == 1, "C10.R1", "background_task:shutdown-future", "the WS session watches the stop signal", "%d StopHandle::shutdown sites in background_task" % len(sh), "%s:%d" % (bt.file, bt.lo))
    for c in sh:
        p = op_place(c.args[0])
        is_clone = False
        if p is not None:
            for bi, si_, dpl, src in bt.defs.get(p["l"], []):
                if src[0] == "call":
                    f = op_const(src[1]["f"])
                    if f and f.get("fn", "").endswith("Clone::clone"):
                        is_clone = True
        R.check(is_clone, "C10.R1", "background_task:shutdown-on-clone", "shutdown() consumes a clone; the session keeps its own StopHandle", "background_task gives its only StopHandle to shutdown(): the handle is released as soon as stop is observed, before the pending calls are answered", where(c))
    gsd = bt.calls_to(r"ws::graceful_shutdown$")
    R.check(len(gsd) == 1, "C10.R1", "background_task:graceful_shutdown", "one graceful_shutdown site", "%d graceful_shutdown sites" % len(gsd), "%s:%d" % (bt.file, bt.lo))
    if gsd:
        rg = _ready(bt, gsd[0])
        sites = drop_sites(bt, "jsonrpsee_server::server::ConnectionState")
        R.floor("C10.R1.state", len(sites), 1, "drop sites of the ConnectionState in background_task")
        for bb, kind, loc in sites:
            R.check(rg is not None and bt.dominates(rg, bb), "C10.R1", "background_task:state-after-shutdown:%s" % kind, "the session's ConnectionState (StopHandle) is dropped only after graceful_shutdown completed", "the session's StopHandle owner can be dropped (%s) before graceful_shutdown completed" % kind, loc)
        # stop handles held anywhere else in the session must also survive: any owned StopHandle local
        for bb, kind, loc in _orig_drop_sites(bt, "jsonrpsee_server::future::StopHandle"):
            R.check(rg is not None and bt.dominates(rg, bb), "C10.R1", "background_task:stop-handle-after-shutdown:%s" % kind, "an owned StopHandle in the session outlives graceful_shutdown", "an owned StopHandle of the session is dropped (%s) before graceful_shutdown completed" % kind, loc)
        # the state must exist: the params' conn field is kept as a whole
        has_state = any(l["ty"] == "jsonrpsee_server::server::ConnectionState" for l in bt.locals)
        R.check(has_state, "C10.R1", "background_task:owns-state", "background_task owns the ConnectionState as a whole", "background_task no longer holds the ConnectionState as one value (its StopHandle may be released separately)", "%s:%d" % (bt.file, bt.lo))


def _from_env(body, l):
    """the local holds a value captured from the enclosing fn (moved out of the coroutine environment), i.e. a parameter"""
    for bi, si_, dpl, src in body.defs.get(l, []):
        if src[0] == "rv" and src[1]["k"] == "use":
            q = op_place(src[1]["op"])
            if q is not None and q["l"] == 1 and any(isinstance(e, dict) and "f" in e for e in q.get("p", [])):
                return True
    return 1 <= l <= body.argc


def _orig_drop_sites(body, ty):
    """drop sites of owned values of type `ty` that are not temporaries produced by Clone::clone"""
    out = []
    for bb, kind, loc in drop_sites(body, ty):
        t = body.blocks[bb]["term"]
        if t["t"] == "drop":
            l = t["pl"]["l"]
        else:
            l = op_place(t["args"][0])["l"]
        defs = body.defs.get(l, [])
        only_clone = bool(defs) and all(src[0] == "call" and (op_const(src[1]["f"]) or {}).get("fn", "").endswith("Clone::clone") for _, _, _, src in defs)
        if only_clone and not body.local_name(l):
            continue
        out.append((bb, kind, loc))
    return out


def _ready_of_into_future(body, c):
    # into_future(x) -> awaitee -> poll -> ready
    cur = {c.dest["l"]}
    cur |= follow_value(body, c.dest["l"])
    for p in body.calls_to(r"Future::poll$"):
        l2 = flow._local_copies_back(body, op_place(p.args[0])["l"], 8) if op_place(p.args[0]) else set()
        # Pin::new_unchecked(&mut awaitee)
        for q in body.calls_to(r"Pin::<.*>::new_unchecked$"):
            if q.dest["l"] in l2 and op_place(q.args[0]) and (flow._local_copies_back(body, op_place(q.args[0])["l"], 8) & cur):
                for sb, arms, other in flow.switch_on(body, p.dest["l"]):
                    return arms.get("0", other)
    return None


def r2_service_handle(ctx):
    F, R = ctx.F, ctx.R
    bt = F.one(r"^jsonrpsee_server::transport::ws::background_task::\{closure#0\}$")
    gsd = bt.calls_to(r"ws::graceful_shutdown$")
    dd = [c for c in bt.calls_to(r"^std::mem::drop$") if op_place(c.args[0]) and bt.locals[op_place(c.args[0])["l"]]["ty"].startswith("std::sync::Arc<S")]
    R.check(len(dd) == 1 and gsd and bt.dominates(dd[0].bb, gsd[0].bb), "C10.R2", "background_task:drop-service-before-wait", "the session drops its own service handle before waiting for pending calls", "background_task does not drop its service handle before graceful_shutdown: the wait for pending calls can never finish (or stops early)", where(gsd[0]) if gsd else None)
    from .c01 import WSTASK
    tasks = [b for b in F.find(WSTASK) if b.calls_to(r"server::handle_rpc_call$")]
    if len(tasks) != 1:
        raise AnchorLost("per-message task of background_task")
    t = tasks[0]
    R.fn(t)
    sends = [c for c in t.calls_to(r"MethodSink::send$")]
    for s in sends:
        for bb, kind, loc in drop_sites(t, "std::sync::Arc<S"):
            bad = t.can_reach(bb, s.bb) and bb != s.bb
            R.check(not bad, "C10.R2", "ws-task:service-held-until-reply:%s" % kind, "the per-message task keeps the service handle (pending-call token) until the reply was handed to the sink", "the per-message task drops the service handle (%s) before the reply is sent: graceful shutdown can close the writer while this answer is still unsent" % kind, loc)
    R.check(bool(sends), "C10.R2", "ws-task:reply-site", "the per-message task sends the reply", "no reply send in the per-message task", "%s:%d" % (t.file, t.lo))
    # the token travels inside the service: RpcServiceCfg::CallsAndSubscriptions has _pending_calls
    adt = F.adt("jsonrpsee_server::middleware::rpc::RpcServiceCfg")
    okf = adt is not None and any(f["n"] == "_pending_calls" and "mpsc::Sender<()>" in f["ty"] for v in adt["variants"] for f in v["fields"])
    R.check(okf, "C10.R2", "service-carries-token", "the rpc service carries the pending-call token", "RpcServiceCfg no longer carries the pending-call token", None)
    # ... on *every* WebSocket connection: wherever a pending-call channel is created for a connection, the service of that
    # connection is configured with CallsAndSubscriptions{_pending_calls: <that sender>} on all paths - a configuration-
    # dependent OnlyCalls would drop the token at once and graceful shutdown would not wait for running handlers
    tr = ctx.tracer(follow_callers=False, follow_fields=False, inline_calls=False)
    n = 0
    for b in F.real_bodies():
        if b.crate != SERVER or is_test_body(b):
            continue
        chans = [c for c in b.calls_to(r"mpsc::channel$") if c.ga and c.ga[0] == "()"]
        news = b.calls_to(r"middleware::rpc::RpcService::new$")
        if not chans or not news:
            continue
        for nw in news:
            # the HTTP arm builds a calls-only service and has no session to wait for: only services built after (=
            # dominated by) the creation of a pending-call channel are WebSocket services
            if not any(b.dominates(ch.bb, nw.bb) for ch in chans):
                continue
            n += 1
            R.fn(b)
            # the cfg argument: the one whose type is RpcServiceCfg
            cfg = [a for a in nw.args if op_place(a) is not None and "RpcServiceCfg" in b.locals[op_place(a)["l"]]["ty"]]
            if not cfg:
                R.anchor_lost("C10.R2", "RpcServiceCfg argument of RpcService::new in %s" % b.path)
                continue
            # (variant name, does its _pending_calls come from the connection's channel) for every way the cfg is built;
            # a crate-local helper that builds it is followed (its parameter is mapped back to the caller's argument)
            def cfg_shapes(body, op, depth=0):
                out = []
                for l in tr.origins(body, op):
                    wb = F.bodies[l.where]
                    if l.kind == "agg" and (l.detail.get("adt") or "").endswith("RpcServiceCfg"):
                        tokv = False
                        if "_pending_calls" in l.detail["fields"]:
                            op2 = l.detail["ops"][l.detail["fields"].index("_pending_calls")]
                            for l2 in tr.origins(wb, op2):
                                if l2.kind == "call" and re.search(r"mpsc::channel$", l2.detail["callee"] or ""):
                                    tokv = True
                                elif l2.kind == "param":
                                    tokv = ("param", l2.detail["idx"])
                        out.append((l.detail.get("variant"), tokv))
                    elif l.kind == "call" and depth < 2 and F.bodies.get(l.detail["callee"] or "") is not None and F.bodies[l.detail["callee"]].crate == SERVER:
                        tgt = F.bodies[l.detail["callee"]]
                        R.fn(tgt)
                        for v, tk in cfg_shapes(tgt, {"cp": {"l": 0}}, depth + 1):
                            if isinstance(tk, tuple):
                                ai = tk[1] - 1
                                tk = False
                                if ai < len(l.detail["args"]):
                                    for l3 in tr.origins(wb, l.detail["args"][ai]):
                                        if l3.kind == "call" and re.search(r"mpsc::channel$", l3.detail["callee"] or ""):
                                            tk = True
                            out.append((v, tk))
                    else:
                        out.append((flow.leaf_str(l)[:50], False))
                return out

            shapes = cfg_shapes(b, cfg[0])
            variants = sorted({v for v, _ in shapes})
            ok = variants == ["CallsAndSubscriptions"]
            tok = bool(shapes) and all(tk is True for _, tk in shapes)
            R.check(ok and tok, "C10.R2", "%s:ws-service-always-carries-token" % fkey(b), "the WebSocket connection's service carries the pending-call token on every path", "%s configures the WebSocket connection's service as %s: on the path without CallsAndSubscriptions{_pending_calls} the token is dropped at once, graceful shutdown does not wait for the handlers that are running and `stopped` resolves early" % (short(b.path), variants), where(nw))
    R.floor("C10.R2.ws-services", n, 2, "WebSocket service constructions (server + low-level ws::connect)")


def r3_writer_stops_last(ctx):
    F, R = ctx.F, ctx.R
    tr = ctx.tracer(follow_callers=False, follow_fields=False)
    g = F.one(r"^jsonrpsee_server::transport::ws::graceful_shutdown::\{closure#0\}$")
    R.fn(g)
    snd = g.calls_to(r"oneshot::Sender::<.*>::send$")
    R.check(len(snd) == 1, "C10.R3", "graceful_shutdown:stop-writer", "the writer task is told to stop once", "%d conn_tx.send sites" % len(snd), "%s:%d" % (g.file, g.lo))
    fe = g.calls_to(r"StreamExt::for_each$")
    R.check(len(fe) == 1, "C10.R3", "graceful_shutdown:wait-for-pending", "graceful_shutdown waits on the pending-call channel", "graceful_shutdown no longer waits for pending calls", "%s:%d" % (g.file, g.lo))
    if snd and fe:
        s = snd[0]
        # the wait is on the pending_calls parameter
        lv = tr.origins(g, fe[0].args[0])
        ok = any(l.kind == "call" and re.search(r"ReceiverStream::<.*>::new$", l.detail["callee"] or "") for l in lv)
        R.check(ok, "C10.R3", "graceful_shutdown:waits-on-pending-channel", "the wait is on the pending-call receiver", "for_each is not over the pending-call receiver", where(fe[0]))
        # on the Stopped arm (where for_each is built) the send is reached only after the select completed
        awaits = [c for c in g.calls_to(r"IntoFuture::into_future$") if g.dominates(fe[0].bb, c.bb) and g.can_reach(c.bb, s.bb) and c.bb != s.bb]
        ready = None
        for c in awaits:
            r = flow.await_ready_block(g, c) or _ready_of_into_future(g, c)
            if r is not None and ready is None:
                ready = r
        R.check(ready is not None and flow.all_paths_pass(g, fe[0].bb, {ready}, {s.bb}), "C10.R3", "graceful_shutdown:writer-stopped-after-wait", "when the server stopped, the writer is told to stop only after the wait for pending calls", "on the Stopped arm the writer task can be stopped before the pending calls were awaited: answers of running calls are never written", where(s))
        jh = [c for c in g.calls_to(r"IntoFuture::into_future$") if "JoinHandle" in (c.self_ty or "") + " ".join(c.ga)]
        R.check(bool(jh) and all(g.dominates(s.bb, c.bb) for c in jh), "C10.R3", "graceful_shutdown:writer-awaited", "the writer task is awaited after it was told to stop", "graceful_shutdown does not wait for the writer task to finish", where(s))
    # send_task: queue first
    st = F.one(r"^jsonrpsee_server::transport::ws::send_task::\{closure#0\}$")
    R.fn(st)
    sels = [c for c in st.calls_to(r"^futures_util::future::select$")]
    outer = [c for c in sels if flow.await_ready_block(st, c) is not None]
    R.check(len(outer) == 1, "C10.R3", "send_task:one-awaited-select", "the writer loop awaits one select", "%d awaited selects in send_task" % len(outer), "%s:%d" % (st.file, st.lo))
    for c in outer:
        # the not-yet-ready operand is handed back by select and recycled in the next iteration: ignore that self-loop
        l0 = [l for l in tr.origins(st, c.args[0]) if not (l.kind == "call" and l.detail["bb"] == c.bb and l.where == st.path)]
        l1 = [l for l in tr.origins(st, c.args[1]) if not (l.kind == "call" and l.detail["bb"] == c.bb and l.where == st.path)]
        is_q0 = any(l.kind == "call" and re.search(r"StreamExt::next$", l.detail["callee"] or "") for l in l0) and not any(l.kind == "call" and re.search(r"future::select$", l.detail["callee"] or "") for l in l0)
        is_s1 = any(l.kind == "call" and re.search(r"future::select$", l.detail["callee"] or "") for l in l1)
        R.check(is_q0 and is_s1, "C10.R3", "send_task:queue-has-priority", "the response queue is the first (priority) operand of select, the ping/stop future the second", "in ws::send_task the stop/ping future is polled before the response queue: when stop is signalled, answers that are already queued are dropped instead of written", where(c))
    # the inner select's second operand is the stop receiver
    inner = [c for c in sels if c not in outer]
    oks = False
    for c in inner:
        l1 = tr.origins(st, c.args[1])
        if any(l.kind == "param" and "oneshot::Receiver<()>" in (l.detail.get("ty") or "") for l in l1):
            oks = True
    R.check(oks, "C10.R3", "send_task:stop-is-watched", "the writer watches the stop signal", "the writer no longer watches the stop signal", "%s:%d" % (st.file, st.lo))


def r4_http_stop_arm(ctx):
    F, R = ctx.F, ctx.R
    b = F.one(r"^jsonrpsee_server::utils::serve_with_graceful_shutdown::\{closure#0\}$")
    R.fn(b)
    gs = b.calls_to(r"graceful_shutdown$")
    R.check(len(gs) == 1, "C10.R4", "serve_with_graceful_shutdown:graceful_shutdown", "on stop the connection is asked to shut down gracefully", "serve_with_graceful_shutdown no longer calls graceful_shutdown()", "%s:%d" % (b.file, b.lo))
    if gs:
        after = None
        for c in b.calls_to(r"IntoFuture::into_future$"):
            if b.dominates(gs[0].bb, c.bb):
                after = flow.await_ready_block(b, c) or _ready_of_into_future(b, c)
        R.check(after is not None, "C10.R4", "serve_with_graceful_shutdown:await-after-shutdown", "after graceful_shutdown() the connection is polled to completion", "after graceful_shutdown() the connection is not awaited", where(gs[0]))
        # only on the stop arm (Right)
        sel = b.calls_to(r"^futures_util::future::select$")
        if sel:
            vl, rb = awaited_value_local(b, sel[0])
            right = None
            if vl is not None:
                for sb, arms, other in flow.switch_on(b, vl):
                    right = arms.get("1")
            R.check(right is not None and b.dominates(right, gs[0].bb), "C10.R4", "serve_with_graceful_shutdown:on-stop-arm", "graceful_shutdown() is on the stop arm", "graceful_shutdown() is not tied to the stop arm", where(gs[0]))
            l1 = ctx.tracer(follow_callers=False, follow_fields=False).origins(b, sel[0].args[1])
            R.check(any(l.kind == "param" or "stopped" in " ".join(l.chain) for l in l1), "C10.R4", "serve_with_graceful_shutdown:races-stop", "the connection is raced against the stop future", "select's second operand is not the stop future", where(sel[0]))



def _borrowed(modname, fname):
    def run(ctx):
        import importlib
        mod = importlib.import_module("jrsa.rules." + modname)
        return getattr(mod, fname)(ctx)
    run.__name__ = "%s_%s" % (modname, fname)
    return run


# a subscribe call that is executing at stop() is answered by PendingSubscriptionSink::accept itself (the per-message task
# does not send subscription answers): the answer must be on the connection queue before the call future resolves and
# releases the pending-call token (C04.R1 accept ordering); the writer is joined (C04.R6)
BORROWED = [_borrowed("c04", "r1_typestate"), _borrowed("c04", "r6_single_writer"), _borrowed("c04", "r10_lossy_sends_are_the_api_only")]




def r5_token_is_not_duplicated_by_the_connection(ctx):
    """graceful shutdown waits until every clone of the pending-call sender is gone (`pending_calls_completed.recv()`
    yields None). The function that creates the channel for a connection therefore gives its sender away - into the
    service configuration - and keeps no clone of it: a clone held by the connection future itself (for a log line, a
    counter) is never dropped while that future waits for the drain, so the wait never ends and stop() hangs."""
    F, R = ctx.F, ctx.R
    n = 0
    for b in F.real_bodies():
        if b.crate != SERVER or is_test_body(b):
            continue
        if not b.calls_to(r"middleware::rpc::RpcService::new$"):
            continue   # only the functions that build a connection's service hold the pending-call channel
        for ch in b.calls_to(r"mpsc::channel$"):
            if not (ch.ga and ch.ga[0] == "()") or ch.dest is None:
                continue
            n += 1
            R.fn(b)
            senders = set()
            for l, loc in enumerate(b.locals):
                if re.search(r"mpsc::(bounded::)?Sender<\(\)>$", loc["ty"].lstrip("&").replace("mut ", "")):
                    senders.add(l)
            clones = [c for c in b.calls_to(r"Clone>?::clone$|Sender::<.*>::(clone|downgrade)$") if c.args and op_place(c.args[0]) is not None and (flow._local_copies_back(b, op_place(c.args[0])["l"], 6) & senders) and c.dest is not None and "Sender<()>" in b.locals[c.dest["l"]]["ty"]]
            R.check(not clones, "C10.R5", "%s:token-not-cloned" % fkey(b), "the connection gives the pending-call sender away and keeps no clone", "%s clones the pending-call sender it created: the clone lives as long as the connection future, which is exactly what waits for all senders to be dropped - after stop() the drain never completes and stopped() never resolves while a client stays connected" % short(b.path), where(clones[0]) if clones else None)
    R.floor("C10.R5", n, 2, "pending-call channels created per connection")



def r6_stop_is_always_reported_as_stop(ctx):
    """calls that are executing at stop() are answered because the connection loop learns *that it was stopped*
    (Receive::Stopped -> Shutdown::Stopped -> the drain). In try_recv the arm taken when the stop future wins the race
    builds Receive::Stopped on every path - no liveness heuristic (missed pings, ...) may turn a stop into `connection
    closed`, which skips the drain."""
    F, R = ctx.F, ctx.R
    b = F.one(r"^jsonrpsee_server::transport::ws::try_recv::\{closure#0\}$")
    R.fn(b)
    outer = [l for l, loc in enumerate(b.locals) if re.match(r"^futures_util::future::Either<\(futures_util::future::Either<", loc["ty"])]
    stop_arms = set()
    for l in outer:
        for sb, arms, other in flow.switch_on(b, l):
            if arms.get("1") is not None:
                stop_arms.add(arms["1"])
    if not stop_arms:
        raise AnchorLost("the arm of try_recv taken when the stop future wins the select")
    stopped = {bi for bi, blk in enumerate(b.blocks) for st in blk["st"] if st["s"] == "assign" and st["rv"]["k"] == "agg" and st["rv"].get("variant") == "Stopped" and (st["rv"].get("adt") or "").endswith("ws::Receive")}
    exits = {bi for bi, blk in enumerate(b.blocks) if blk["term"] and blk["term"]["t"] == "return"}
    waits = {c.bb for c in b.calls_to(r"future::select$|IntoFuture>?::into_future$")}
    for t in sorted(stop_arms):
        ok = bool(stopped) and (t in stopped or flow.all_paths_pass(b, t, stopped, exits | waits))
        R.check(ok, "C10.R6", "try_recv:stop-arm-reports-stopped", "when the stop future wins, try_recv reports Receive::Stopped", "try_recv can report something else than Receive::Stopped when the stop signal fired (a path from the stop arm leaves without building it): the connection is then torn down as `closed by the peer`, without waiting for the calls that are executing - their answers are lost", "%s:%d" % (b.file, block_line(b, t)))



def rhyper_vetted_transport_options(ctx):
    """how hyper drains a connection at graceful_shutdown() depends on its builder options: the server sets the vetted
    closed list only (e.g. `http1().pipeline_flush(true)` holds answers back until the pipeline is idle) (= C11.R6)"""
    from . import c11
    c11.r6_vetted_transport_options(ctx)


def rloop_event_loops_keep_polling(ctx):
    """a stop request is seen only by a loop that is polling for it: the accept loop and the connection loop suspend only
    at vetted points, each of which races the stop signal (= C11.LOOP)"""
    from .common import event_loops_suspend_only_where_vetted
    event_loops_suspend_only_where_vetted(ctx, "C10.LOOP")


def rspawn_vetted_spawn_sites(ctx):
    """work is detached only at the vetted sites"""
    from .common import vetted_spawns
    vetted_spawns(ctx, "C10.SPAWN")


def r7_stopped_waits_for_every_stop_handle(ctx):
    """`ServerHandle::stopped()` is `closed()` of the stop channel's sender: it resolves when the last StopHandle (one per
    connection task, WebSocket sessions included) is gone. Tied to anything else - the accept task finishing - it resolves
    while upgraded connections, which that task never joins, are still answering."""
    F, R = ctx.F, ctx.R
    tr = ctx.tracer(follow_callers=False, follow_fields=False, inline_calls=False)
    b = F.one(r"^jsonrpsee_server::future::ServerHandle::stopped::\{closure#0\}$")
    R.fn(b)
    aw = [c for c in b.calls_to(r"IntoFuture>?::into_future$") if (c.exp or "").startswith("d:Await")]
    R.floor("C10.R7", len(aw), 1, "awaits in ServerHandle::stopped")
    for c in aw:
        names = {l.detail.get("callee") or "?" for l in tr.origins(b, c.args[0]) if l.kind == "call"} or {"?"}
        ok = all(re.search(r"watch::Sender::<.*>::closed$", nm) for nm in names)
        R.check(ok, "C10.R7", "stopped:awaits-the-stop-channel", "stopped() awaits closed() of the stop sender", "ServerHandle::stopped awaits %s, not `closed()` of the stop channel: it can resolve while tasks that still hold a StopHandle (upgraded WebSocket connections) are running" % sorted(short(x) for x in names), where(c))
    isb = F.one(r"^jsonrpsee_server::future::ServerHandle::is_stopped$")
    R.check(bool(isb.calls_to(r"watch::Sender::<.*>::is_closed$")) and not [bi for bi, blk in enumerate(isb.blocks) if bi in isb.reachable and blk["term"] and blk["term"]["t"] == "switch"], "C10.R7", "is_stopped:is_closed", "is_stopped() is is_closed() of the stop sender", "ServerHandle::is_stopped no longer reports is_closed() of the stop channel alone", "%s:%d" % (isb.file, isb.lo))


RULES = [r7_stopped_waits_for_every_stop_handle, r1_who_keeps_stopped_pending, r2_service_handle, r3_writer_stops_last, r4_http_stop_arm, rspawn_vetted_spawn_sites, rloop_event_loops_keep_polling, r5_token_is_not_duplicated_by_the_connection, r6_stop_is_always_reported_as_stop, rhyper_vetted_transport_options] + BORROWED

LEVEL_TEXT = (
    "Only the ownership / ordering skeleton of graceful stop is decided (the statement quantifies over schedules): which "
    "values keep `stopped()` pending and that each is dropped only after its task's work completed (dominance over every "
    "drop site), the order drop-service -> wait -> stop-writer -> await-writer, the operand order that gives the response "
    "queue priority over the stop signal, and the HTTP stop-arm sequence in both sibling functions. A small fraction of "
    "the property, but each clause has a concrete landing point of stop() on which the behaviour is wrong if it fails."
)
LEVEL_NOTE = "Trusted: rustc MIR; tokio channel semantics; left-biased futures select; hyper graceful_shutdown. Not decided: that every started call is answered for every landing point of stop()."
TECHNIQUE = "ownership/drop-site dominance + operand-order extraction + must-pass-through"

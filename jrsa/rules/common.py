"""Helpers shared by the rule modules."""
import re

from ..facts import op_place, op_const, place_str, op_str, is_test_body, AnchorLost
from .. import flow
from ..flow import leaf_str, Leaf

SERVER = "jsonrpsee_server"
CORE = "jsonrpsee_core"
TYPES = "jsonrpsee_types"


def short(p):
    return flow._short(p)


def _strip_generics(p):
    out = []
    depth = 0
    for ch in p:
        if ch == "<":
            depth += 1
        elif ch == ">":
            depth -= 1
        elif depth == 0:
            out.append(ch)
    return "".join(out)


def fkey(body_or_path):
    """stable, line-free identity of a function for violation keys:
    `<T<..> as Trait<..>>::f::{closure#0}` -> `T::f::{closure#0}`, generics removed."""
    p = body_or_path if isinstance(body_or_path, str) else body_or_path.path
    if p.startswith("<"):
        depth = 0
        end = None
        as_pos = None
        for i, ch in enumerate(p):
            if ch == "<":
                depth += 1
            elif ch == ">":
                depth -= 1
                if depth == 0:
                    end = i
                    break
            elif depth == 1 and p.startswith(" as ", i) and as_pos is None:
                as_pos = i
        if end is not None:
            inner = p[1:end]
            if as_pos is not None:
                inner = p[1:as_pos]
            p = inner + p[end + 1 :]
    p = _strip_generics(p).replace("::::", "::").replace(" ", "")
    return p


def where(x):
    """file:line of a Call or (body, bb)"""
    if hasattr(x, "loc"):
        return x.loc()
    body, bb = x
    t = body.blocks[bb]["term"]
    ln = t["sp"][0] if t and "sp" in t else body.lo
    return "%s:%d" % (body.file, ln)


def chain_str(lf, n=8):
    return " <- ".join(lf.chain[-n:])


def terminal_field(lf):
    if lf.kind != "field":
        return None
    return lf.detail["fields"][-1]


def classify_config_leaves(leaves, want, scope_prefixes=("jsonrpsee_server",), allow_calls=()):
    """Identity-only provenance from a configuration field named `want`.
    Returns (good, bad, skipped): good = field leaves with the wanted name; bad = [(leaf, reason)]."""
    good, bad, skipped = [], [], []
    for lf in leaves:
        k = lf.kind
        if k == "field":
            owner, name = terminal_field(lf)
            if scope_prefixes and owner and not any(owner.startswith(p) for p in scope_prefixes):
                skipped.append(lf)
                continue
            if name == want:
                good.append(lf)
            else:
                bad.append((lf, "reads field `%s` of %s, not `%s`" % (name, short(owner), want)))
        elif k == "const":
            skipped.append(lf)
        elif k == "param":
            skipped.append(lf)
        elif k == "call":
            cal = lf.detail.get("callee") or ""
            if cal.endswith("::default") or any(re.search(p, cal) for p in allow_calls):
                skipped.append(lf)
            else:
                if scope_prefixes and not any(lf.where.startswith(p) or lf.where.startswith("<" + p) for p in scope_prefixes):
                    skipped.append(lf)
                else:
                    bad.append((lf, "computed by a call to %s" % short(cal)))
        elif k == "arith":
            if scope_prefixes and not any(lf.where.startswith(p) or lf.where.startswith("<" + p) for p in scope_prefixes):
                skipped.append(lf)
            else:
                bad.append((lf, "arithmetic (%s) on the way from the configured limit changes the boundary" % lf.detail["op"]))
        elif k in ("fnitem", "closure", "agg", "resume"):
            skipped.append(lf)
        else:
            if scope_prefixes and not any(lf.where.startswith(p) or lf.where.startswith("<" + p) for p in scope_prefixes):
                skipped.append(lf)
            else:
                bad.append((lf, "untraceable source (%s %s)" % (k, str(lf.detail)[:80])))
    return good, bad, skipped


def arg_is_local(body, operand, local):
    """operand is (a copy / borrow of) `local`"""
    p = op_place(operand)
    if p is None:
        return False
    return local in flow._local_copies_back(body, p["l"], 8)


def const_int(op):
    c = op_const(op)
    if c is not None and "int" in c:
        return int(c["int"])
    return None


def non_test_bodies(F, crate_prefix=None):
    out = []
    for b in F.real_bodies():
        if is_test_body(b):
            continue
        if crate_prefix and b.crate != crate_prefix:
            continue
        out.append(b)
    return out


def result_arms(body, call, ready_block=None):
    """switch arms on the (awaited) result of `call`: returns list of (switch_bb, arms dict value->bb, otherwise)."""
    return flow.switch_on(body, call.dest["l"])


def awaited_value_local(body, call):
    """local that receives `(poll_result as Ready).0` for an awaited call, or None"""
    rb = flow.await_ready_block(body, call)
    if rb is None:
        return None, None
    # the ready block (possibly after a falseedge) assigns result = move (_p as Ready).0
    seen = set()
    work = [rb]
    while work:
        b = work.pop()
        if b in seen or len(seen) > 4:
            continue
        seen.add(b)
        for st in body.blocks[b]["st"]:
            if st["s"] == "assign" and st["rv"]["k"] == "use":
                p = op_place(st["rv"]["op"])
                if p and any(isinstance(e, dict) and e.get("d") == "Ready" for e in p.get("p", [])):
                    return st["pl"]["l"], b
        work.extend(body.succ[b])
    return None, rb


def follow_value(body, local, max_steps=8):
    """forward: set of locals that receive a plain move/copy of `local` (incl. itself)"""
    cur = {local}
    for _ in range(max_steps):
        added = False
        for l, defs in body.defs.items():
            if l in cur:
                continue
            for bi, si, dpl, src in defs:
                if dpl.get("p"):
                    continue
                kind, v = src
                if kind == "rv" and v["k"] == "use":
                    p = op_place(v["op"])
                    if p is not None and not p.get("p") and p["l"] in cur:
                        cur.add(l)
                        added = True
        if not added:
            break
    return cur

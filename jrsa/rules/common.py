"""Helpers shared by the rule modules."""
import re

from ..facts import op_place, op_const, place_str, op_str, is_test_body, AnchorLost
from .. import flow
from ..flow import leaf_str, Leaf

SERVER = "jsonrpsee_server"
CORE = "jsonrpsee_core"
TYPES = "jsonrpsee_types"


def short(p):
    return flow._short(p)


def _strip_generics(p):
    out = []
    depth = 0
    for ch in p:
        if ch == "<":
            depth += 1
        elif ch == ">":
            depth -= 1
        elif depth == 0:
            out.append(ch)
    return "".join(out)


def fkey(body_or_path):
    """stable, line-free identity of a function for violation keys:
    `<T<..> as Trait<..>>::f::{closure#0}` -> `T::f::{closure#0}`, generics removed."""
    p = body_or_path if isinstance(body_or_path, str) else body_or_path.path
    if p.startswith("<"):
        depth = 0
        end = None
        as_pos = None
        for i, ch in enumerate(p):
            if ch == "<":
                depth += 1
            elif ch == ">":
                depth -= 1
                if depth == 0:
                    end = i
                    break
            elif depth == 1 and p.startswith(" as ", i) and as_pos is None:
                as_pos = i
        if end is not None:
            inner = p[1:end]
            if as_pos is not None:
                inner = p[1:as_pos]
            p = inner + p[end + 1 :]
    p = _strip_generics(p).replace("::::", "::").replace(" ", "")
    return p


def where(x):
    """file:line of a Call or (body, bb)"""
    if hasattr(x, "loc"):
        return x.loc()
    body, bb = x
    t = body.blocks[bb]["term"]
    ln = t["sp"][0] if t and "sp" in t else body.lo
    return "%s:%d" % (body.file, ln)


def chain_str(lf, n=8):
    return " <- ".join(lf.chain[-n:])


def terminal_field(lf):
    if lf.kind != "field":
        return None
    return lf.detail["fields"][-1]


def classify_config_leaves(leaves, want, scope_prefixes=("jsonrpsee_server",), allow_calls=()):
    """Identity-only provenance from a configuration field named `want`.
    Returns (good, bad, skipped): good = field leaves with the wanted name; bad = [(leaf, reason)]."""
    good, bad, skipped = [], [], []
    for lf in leaves:
        k = lf.kind
        if k == "field":
            owner, name = terminal_field(lf)
            if scope_prefixes and owner and not any(owner.startswith(p) for p in scope_prefixes):
                skipped.append(lf)
                continue
            if name == want:
                good.append(lf)
            else:
                bad.append((lf, "reads field `%s` of %s, not `%s`" % (name, short(owner), want)))
        elif k == "const":
            skipped.append(lf)
        elif k == "param":
            skipped.append(lf)
        elif k == "call":
            cal = lf.detail.get("callee") or ""
            if cal.endswith("::default") or any(re.search(p, cal) for p in allow_calls):
                skipped.append(lf)
            else:
                if scope_prefixes and not any(lf.where.startswith(p) or lf.where.startswith("<" + p) for p in scope_prefixes):
                    skipped.append(lf)
                else:
                    bad.append((lf, "computed by a call to %s" % short(cal)))
        elif k == "arith":
            if scope_prefixes and not any(lf.where.startswith(p) or lf.where.startswith("<" + p) for p in scope_prefixes):
                skipped.append(lf)
            else:
                bad.append((lf, "arithmetic (%s) on the way from the configured limit changes the boundary" % lf.detail["op"]))
        elif k in ("fnitem", "closure", "agg", "resume"):
            skipped.append(lf)
        else:
            if scope_prefixes and not any(lf.where.startswith(p) or lf.where.startswith("<" + p) for p in scope_prefixes):
                skipped.append(lf)
            else:
                bad.append((lf, "untraceable source (%s %s)" % (k, str(lf.detail)[:80])))
    return good, bad, skipped


def arg_is_local(body, operand, local):
    """operand is (a copy / borrow of) `local`"""
    p = op_place(operand)
    if p is None:
        return False
    return local in flow._local_copies_back(body, p["l"], 8)


def const_int(op):
    c = op_const(op)
    if c is not None and "int" in c:
        return int(c["int"])
    return None


def non_test_bodies(F, crate_prefix=None):
    out = []
    for b in F.real_bodies():
        if is_test_body(b):
            continue
        if crate_prefix and b.crate != crate_prefix:
            continue
        out.append(b)
    return out


def result_arms(body, call, ready_block=None):
    """switch arms on the (awaited) result of `call`: returns list of (switch_bb, arms dict value->bb, otherwise)."""
    return flow.switch_on(body, call.dest["l"])


def awaited_value_local(body, call):
    """local that receives `(poll_result as Ready).0` for an awaited call, or None"""
    rb = flow.await_ready_block(body, call)
    if rb is None:
        return None, None
    # the ready block (possibly after a falseedge) assigns result = move (_p as Ready).0
    seen = set()
    work = [rb]
    while work:
        b = work.pop()
        if b in seen or len(seen) > 4:
            continue
        seen.add(b)
        for st in body.blocks[b]["st"]:
            if st["s"] == "assign" and st["rv"]["k"] == "use":
                p = op_place(st["rv"]["op"])
                if p and any(isinstance(e, dict) and e.get("d") == "Ready" for e in p.get("p", [])):
                    return st["pl"]["l"], b
        work.extend(body.succ[b])
    return None, rb


def follow_value(body, local, max_steps=8):
    """forward: set of locals that receive a plain move/copy of `local` (incl. itself)"""
    cur = {local}
    for _ in range(max_steps):
        added = False
        for l, defs in body.defs.items():
            if l in cur:
                continue
            for bi, si, dpl, src in defs:
                if dpl.get("p"):
                    continue
                kind, v = src
                if kind == "rv" and v["k"] == "use":
                    p = op_place(v["op"])
                    if p is not None and not p.get("p") and p["l"] in cur:
                        cur.add(l)
                        added = True
        if not added:
            break
    return cur


# ---- guards ---------------------------------------------------------------------------------------
CMP_OPS = {"Ge", "Gt", "Le", "Lt", "Eq", "Ne"}
_NEG = {"Ge": "Lt", "Gt": "Le", "Le": "Gt", "Lt": "Ge", "Eq": "Ne", "Ne": "Eq"}
_SWAP = {"Ge": "Le", "Gt": "Lt", "Le": "Ge", "Lt": "Gt", "Eq": "Eq", "Ne": "Ne"}
_SYM = {"Ge": ">=", "Gt": ">", "Le": "<=", "Lt": "<", "Eq": "==", "Ne": "!="}


def controlling_comparisons(body, bb):
    """Comparisons block `bb` is control-dependent on: list of dict(op, a, b, taken(bool), switch_bb).
    A switch on a bool defined by a comparison BinaryOp where exactly one side dominates bb."""
    out = []
    for sb, blk in enumerate(body.blocks):
        t = blk["term"]
        if not t or t["t"] != "switch" or sb not in body.reachable:
            continue
        p = op_place(t["discr"])
        if p is None or p.get("p"):
            continue
        cmp_rv = None
        for l in flow._local_copies_back(body, p["l"], 6):
            for bi, si, dpl, src in body.defs.get(l, []):
                if src[0] == "rv" and src[1]["k"] == "bin" and src[1]["op"] in CMP_OPS:
                    cmp_rv = src[1]
        if cmp_rv is None:
            continue
        arms = {v: tb for v, tb in t["arms"]}
        false_t = arms.get("0")
        true_t = t["otherwise"] if "0" in arms else None
        if false_t is None:
            # `switch x [1 => T] else F` form
            true_t = arms.get("1")
            false_t = t["otherwise"]
        if true_t is None or false_t is None or true_t == false_t:
            continue
        dt = body.dominates(true_t, bb) and len(body.pred[true_t]) == 1
        df = body.dominates(false_t, bb) and len(body.pred[false_t]) == 1
        if dt == df:
            continue
        out.append({"op": cmp_rv["op"], "a": cmp_rv["a"], "b": cmp_rv["b"], "taken": dt, "switch_bb": sb})
    return out


def normalise_guard(cmp, limit_is_a):
    """returns relation string `size REL limit` that holds on the analysed branch"""
    op = cmp["op"]
    if not cmp["taken"]:
        op = _NEG[op]
    # op is now: a OP b holds
    if limit_is_a:
        op = _SWAP[op]  # size is b: b SWAP(OP) a
    return _SYM[op]


def sum_atoms(body, tracer, operand, depth=0):
    """expand nested additions into atoms: ('const', n) | ('len', description) | ('other', description)"""
    atoms = []
    leaves = tracer.origins(body, operand)
    for lf in leaves:
        if lf.kind == "arith" and lf.detail["op"] in ("Add", "AddWithOverflow", "AddUnchecked") and depth < 6:
            wb = tracer.F.bodies[lf.where]
            atoms += sum_atoms(wb, tracer, lf.detail["a"], depth + 1)
            atoms += sum_atoms(wb, tracer, lf.detail["b"], depth + 1)
        elif lf.kind == "const" and "int" in lf.detail:
            atoms.append(("const", int(lf.detail["int"])))
        elif lf.kind == "call" and re.search(r"::len$", lf.detail["callee"] or ""):
            wb = tracer.F.bodies[lf.where]
            sub = tracer.origins(wb, lf.detail["args"][0])
            desc = []
            for s in sub:
                if s.kind == "field":
                    desc.append("field:" + s.detail["fields"][-1][1])
                elif s.kind == "param":
                    desc.append("param:" + str(s.detail.get("name")))
                elif s.kind == "call":
                    # e.g. RawValue::get(&response.json)
                    wb2 = tracer.F.bodies[s.where]
                    sub2 = tracer.origins(wb2, s.detail["args"][0]) if s.detail["args"] else []
                    for s2 in sub2:
                        if s2.kind == "field":
                            desc.append("field:" + s2.detail["fields"][-1][1])
                        elif s2.kind == "param":
                            desc.append("param:" + str(s2.detail.get("name")))
                        else:
                            desc.append(s2.kind)
                else:
                    desc.append(s.kind)
            atoms.append(("len", "|".join(sorted(set(desc)))))
        elif lf.kind == "len":
            wb = tracer.F.bodies[lf.where]
            sub = tracer.origins(wb, lf.detail["of"])
            desc = sorted({("param:" + str(s.detail.get("name"))) if s.kind == "param" else ("field:" + s.detail["fields"][-1][1] if s.kind == "field" else s.kind) for s in sub})
            atoms.append(("len", "|".join(desc)))
        else:
            atoms.append(("other", flow.leaf_str(lf)))
    return atoms


# ---- MethodCallback slots ---------------------------------------------------------------------------
def callback_invocations(body):
    """`(callback)(..)` on a boxed/arc'd dyn Fn: list of dict(call, variant, tuple_ops)
    variant = MethodCallback variant the callee value was extracted from (or None)."""
    out = []
    for c in body.calls:
        if c.callee not in ("std::ops::Fn::call", "std::ops::FnMut::call_mut", "std::ops::FnOnce::call_once"):
            continue
        if not (c.self_ty or "").startswith("dyn "):
            continue
        variant = _receiver_variant(body, c.args[0])
        ops = None
        p = op_place(c.args[1]) if len(c.args) > 1 else None
        if p is not None:
            for bi, si, dpl, src in body.defs.get(p["l"], []):
                if src[0] == "rv" and src[1]["k"] == "agg" and src[1]["ak"] == "tuple":
                    ops = src[1]["ops"]
        out.append({"call": c, "variant": variant, "ops": ops})
    return out


def _receiver_variant(body, op, depth=8):
    """follow refs/derefs/Deref::deref back to a place with a Downcast; returns (owner, variant) or None"""
    p = op_place(op)
    seen = set()
    while p is not None and depth > 0:
        depth -= 1
        ds = [e for e in p.get("p", []) if isinstance(e, dict) and "d" in e]
        if ds:
            # the innermost (last) downcast is the slot's variant; its owner is recorded on the following field elem
            owner = None
            for e2 in p.get("p", []):
                if isinstance(e2, dict) and "f" in e2 and e2.get("o"):
                    owner = e2["o"]
            return (owner, ds[-1]["d"])
        l = p["l"]
        if l in seen:
            return None
        seen.add(l)
        nxt = None
        for bi, si, dpl, src in body.defs.get(l, []):
            if dpl.get("p"):
                continue
            if src[0] == "rv" and src[1]["k"] in ("ref", "rawptr"):
                nxt = src[1]["pl"]
            elif src[0] == "rv" and src[1]["k"] in ("use", "cast"):
                nxt = op_place(src[1]["op"])
            elif src[0] == "call":
                f = op_const(src[1]["f"])
                if f and re.search(r"Deref::deref$|Clone::clone$|AsRef::as_ref$", f.get("fn", "")):
                    nxt = op_place(src[1]["args"][0])
        p = nxt
    return None


def closures_in_variant(F, adt_path, variant):
    """closure bodies stored into `adt_path::variant(..)` at construction sites: list of (ctor_body, closure_body)"""
    out = []
    tr = flow.Tracer(F, follow_callers=False, follow_fields=False, inline_calls=False)
    for b in F.real_bodies():
        if is_test_body(b):
            continue
        for bi, blk in enumerate(b.blocks):
            if blk.get("cleanup"):
                continue
            for st in blk["st"]:
                if st["s"] == "assign" and st["rv"]["k"] == "agg" and st["rv"].get("adt") == adt_path and st["rv"].get("variant") == variant:
                    for op in st["rv"]["ops"]:
                        for lf in tr.origins(b, op):
                            if lf.kind == "closure":
                                cb = F.bodies.get(lf.detail["def"])
                                if cb is not None:
                                    out.append((b, cb))
    return out


def block_line(body, bb):
    blk = body.blocks[bb]
    for st in blk["st"]:
        if "sp" in st:
            return st["sp"][0]
    t = blk["term"]
    if t and "sp" in t:
        return t["sp"][0]
    return body.lo


def enclosing_loop_next(body, bb):
    """innermost `Iterator::next` call that controls a loop containing block bb (for-loops), or None"""
    cands = []
    for c in body.calls:
        if c.callee == "std::iter::Iterator::next" or (c.callee or "").endswith("StreamExt::next"):
            if body.dominates(c.bb, bb) and c.bb != bb and body.can_reach(bb, c.bb):
                cands.append(c)
    if not cands:
        return None
    # innermost: dominated by all the others
    cands.sort(key=lambda c: len(body.dom[c.bb]))
    return cands[-1]


def none_of(body, pats):
    """calls in body matching any regex"""
    out = []
    for c in body.calls:
        for p in pats:
            if c.matches(p):
                out.append(c)
                break
    return out


def read_body_loop_exits(F, R, rule, tracer):
    """read_body's frame loop may be left only at end of stream (None from frame().await) or towards an Err return.
    Any other exit truncates the body for some chunking (the rest of the request is never parsed)."""
    rb = F.one(r"^jsonrpsee_core::http_helpers::read_body::\{closure#0\}$")
    R.fn(rb)
    frames = rb.calls_to(r"^http_body_util::BodyExt::frame$")
    if len(frames) != 1:
        R.anchor_lost(rule, "the single BodyExt::frame call of read_body (found %d)" % len(frames))
        return
    fc = frames[0]
    vl, rblk = awaited_value_local(rb, fc)
    if vl is None:
        R.anchor_lost(rule, "awaited frame() result in read_body")
        return
    none_t = None
    for sb, arms, other in flow.switch_on(rb, vl):
        none_t = other if "1" in arms and "0" not in arms else arms.get("0")
    if none_t is None:
        R.anchor_lost(rule, "match on frame().await in read_body")
        return
    loop = {b for b in rb.reachable if rb.can_reach(fc.bb, b) and rb.can_reach(b, fc.bb)}
    ok_blocks = []
    for bi, blk in enumerate(rb.blocks):
        for st in blk["st"]:
            if st["s"] == "assign" and st["pl"]["l"] == 0 and not st["pl"].get("p") and st["rv"]["k"] == "agg" and st["rv"].get("variant") == "Ok":
                ok_blocks.append(bi)
    bad = []
    for u in loop:
        for v in rb.succ[u]:
            if v in loop:
                continue
            if v == none_t or rb.dominates(none_t, v):
                continue
            # towards an error return only?
            reach = rb.reach_from(v) | {v}
            if any(o in reach for o in ok_blocks):
                bad.append((u, v))
    R.check(not bad, rule, "read_body:loop-exits-at-end-of-stream", "the body is read until the stream ends (the only non-error loop exit is frame() == None)", "read_body can stop reading before the stream ends (loop exit at %s): a request split into several chunks is truncated" % ["%s:%d" % (rb.file, block_line(rb, u)) for u, v in bad], "%s:%d" % (rb.file, block_line(rb, bad[0][0]) if bad else rb.lo))


FORGET_RX = r"^std::mem::forget$|^std::mem::ManuallyDrop::<.*>::new$|^std::boxed::Box::<.*>::leak$|^std::sync::Arc::<.*>::into_raw$|OwnedSemaphorePermit::forget$|SemaphorePermit::<'.*>::forget$|Semaphore::forget_permits$|Semaphore::add_permits$"


def forget_scan(F, R, rule, crates, floor=400):
    """no forget-like call in non-test code of `crates` (permits are RAII all the way)"""
    hits = []
    scanned = 0
    for b in F.real_bodies():
        if b.crate not in crates or is_test_body(b):
            continue
        scanned += 1
        for c in b.calls:
            if c.exp:
                continue
            if re.search(FORGET_RX, c.name() or "") or re.search(FORGET_RX, c.callee or ""):
                hits.append(c)
    R.extra[rule + ".bodies_scanned"] = scanned
    R.floor(rule + ".scan", scanned, floor, "bodies scanned for forget-like calls")
    for c in hits:
        R.bad(rule, "forget:%s:%s" % (fkey(c.body), c.name().split("::")[-1]), "forget-like call %s in %s: a permit (or a value owning one) can be leaked, the slot is never returned" % (short(c.name()), short(c.body.path)), where(c))
    if not hits:
        R.ok(rule, "no-forget-like-calls", "no mem::forget / ManuallyDrop / leak / into_raw / permit.forget / add_permits (%d bodies scanned)" % scanned, None)


def drop_sites(body, ty_substr):
    """(bb, kind, loc) of every explicit mem::drop call and Drop terminator (reachable, non-cleanup) of an owned local
    whose type contains ty_substr"""
    out = []
    for c in body.calls_to(r"^std::mem::drop$"):
        p = op_place(c.args[0])
        if p is not None and not p.get("p") and ty_substr in body.locals[p["l"]]["ty"] and not body.locals[p["l"]]["ty"].startswith("&"):
            out.append((c.bb, "drop()", where(c)))
    for bi, blk in enumerate(body.blocks):
        t = blk["term"]
        if t and t["t"] == "drop" and bi in body.reachable and not blk.get("cleanup"):
            pl = t["pl"]
            if not pl.get("p") and ty_substr in body.locals[pl["l"]]["ty"] and not body.locals[pl["l"]]["ty"].startswith("&"):
                out.append((bi, "scope-end", "%s:%d" % (body.file, t["sp"][0])))
    return out


def forward_taint(body, seeds, sanitizers=()):
    """locals that (transitively) receive data from the seed locals: through assignments and as results of calls with a
    tainted argument. `sanitizers`: callee regexes whose result is not tainted by their arguments."""
    tainted = set(seeds)
    san = [re.compile(p) for p in sanitizers]
    changed = True

    def reads(op):
        p = op_place(op)
        return p is not None and (p["l"] in tainted or any(isinstance(e, dict) and e.get("i") in tainted for e in p.get("p", [])))

    def rv_reads(rv):
        k = rv["k"]
        if k in ("use", "cast", "repeat"):
            return reads(rv["op"])
        if k in ("ref", "rawptr", "discr"):
            return rv["pl"]["l"] in tainted
        if k == "bin":
            return reads(rv["a"]) or reads(rv["b"])
        if k == "un":
            return reads(rv["a"])
        if k == "agg":
            return any(reads(o) for o in rv["ops"])
        return False

    while changed:
        changed = False
        for bi, blk in enumerate(body.blocks):
            if blk.get("cleanup"):
                continue
            for st in blk["st"]:
                if st["s"] == "assign" and st["pl"]["l"] not in tainted and rv_reads(st["rv"]):
                    tainted.add(st["pl"]["l"])
                    changed = True
            t = blk["term"]
            if t and t["t"] == "call" and t.get("dest") is not None and t["dest"]["l"] not in tainted:
                f = op_const(t["f"])
                nm = (f or {}).get("res") or (f or {}).get("fn") or ""
                if any(s.search(nm) for s in san):
                    continue
                if any(reads(a) for a in t["args"]):
                    tainted.add(t["dest"]["l"])
                    changed = True
    return tainted


def tainted_switches(body, tainted):
    out = []
    for bi, blk in enumerate(body.blocks):
        t = blk["term"]
        if t and t["t"] == "switch" and bi in body.reachable and not blk.get("cleanup"):
            p = op_place(t["discr"])
            if p is not None and p["l"] in tainted:
                out.append(bi)
    return out


def control(ctx, rule, what, fn):
    """positive control for a zero-expected rule: `fn(scratch_report)` is run on the fixtures facts and MUST report"""
    from ..report import Report

    scratch = Report(ctx.R.pid, ctx.R.tier)
    fn(scratch)
    hits = [v for v in scratch.violations if "FLOOR" not in v["key"] and "ANCHOR-LOST" not in v["key"]]
    ctx.R.check(bool(hits), rule + ".control", "control:" + what, "positive control: the rule fires on the fixture (%d reports, e.g. %s)" % (len(hits), hits[0]["what"][:90] if hits else ""), "positive control failed: the rule does not fire on the fixture construct `%s`, so a pass on the real tree means nothing" % what, None)


CFG_OWNERS = ("jsonrpsee_server::server::ServerConfig", "jsonrpsee_server::server::ServerConfigBuilder")


def config_field_integrity(ctx, rule, field, floor=4, owners=CFG_OWNERS):
    """the configured value of `field` travels verbatim from the user's setter call to the ServerConfig the transports
    read: every write of the field (struct constructions and assignments, non-test code) takes its value from a parameter
    (the setter) or from the same-named field of another config value (Clone, build()); constants / fresh variants appear
    only inside `default()` constructors. A setter that rewrites the value, or a builder step that rebuilds the config
    from defaults, makes the server enforce a different limit than the configured one."""
    F, R = ctx.F, ctx.R
    tr = ctx.tracer(follow_callers=False, follow_fields=False, inline_calls=False)
    tr.field_writes("-", "-")
    n = 0
    for (owner, fname), lst in sorted(tr._field_writes.items()):
        if fname != field or owner not in owners:
            continue
        for b, op in lst:
            if is_test_body(b):
                continue
            n += 1
            in_default = bool(re.search(r"Default>::default$|::default$|::new$", b.path))
            key = "%s:%s.%s" % (fkey(b), owner.split("::")[-1], field)
            if "rvwrap" in op:
                R.bad(rule, key, "%s computes %s.%s with `%s` instead of storing the configured value" % (short(b.path), owner.split("::")[-1], field, op["rvwrap"]["k"]), "%s:%d" % (b.file, b.lo))
                continue
            lv = tr.origins(b, op)
            bad = []
            for l in lv:
                if l.kind == "param" and l.detail.get("name") != "<env>":
                    continue
                if l.kind == "field" and l.detail["fields"] and l.detail["fields"][-1][1] == field:
                    continue
                if in_default and l.kind in ("const", "agg"):
                    continue
                bad.append(flow.leaf_str(l))
            R.check(not bad and bool(lv), rule, key, "%s stores %s verbatim" % (short(b.path), field), "%s does not carry the configured `%s` verbatim: the value written to %s.%s comes from %s (a setter must store what it is given; a config rebuilt from defaults silently drops the configured limit)" % (short(b.path), field, owner.split("::")[-1], field, bad or "nothing traceable"), "%s:%d" % (b.file, b.lo))
    # ... and a setter configures one thing: the parameter a function stores into `field` is stored into no other field of
    # the configuration (a `max_response_body_size(n)` that also overwrites the request limit makes the answer to "which
    # requests are accepted" depend on the order of two unrelated builder calls)
    by_body = {}
    for (owner, fname), lst in tr._field_writes.items():
        if owner not in owners:
            continue
        for b, op in lst:
            if is_test_body(b) or "rvwrap" in op:
                continue
            for l in tr.origins(b, op):
                if l.kind == "param" and l.detail.get("name") != "<env>":
                    by_body.setdefault((b.path, l.detail.get("name")), []).append((b, owner, fname))
    for (bp, pname), ws in sorted(by_body.items()):
        fields = sorted({f for _, _, f in ws})
        if field in fields and len(fields) > 1:
            b = ws[0][0]
            R.bad(rule, "%s:one-field-per-parameter" % fkey(b), "%s stores its parameter `%s` into %s: setting `%s` silently changes %s as well" % (short(b.path), pname, fields, field, [f for f in fields if f != field]), "%s:%d" % (b.file, b.lo))
    R.floor(rule, n, floor, "writes of the config field `%s`" % field)


def limit_gates(ctx, rule, field, crates, floor, what="message"):
    """every ordering comparison against the configured `field` anywhere in `crates` states the inclusive boundary: in the
    normal form `size REL limit` only `>` (refuse) and `<=` (admit) are boundary-correct; `>=` / `<` refuse or special-case
    a %s of exactly the limit. Found by dataflow (one operand originates from the config field), not by location."""
    F, R = ctx.F, ctx.R
    tr = ctx.tracer()
    n = 0
    for b in F.real_bodies():
        if b.crate not in crates or is_test_body(b):
            continue
        for bi, blk in enumerate(b.blocks):
            if bi not in b.reachable or blk.get("cleanup"):
                continue
            for si, st in enumerate(blk["st"]):
                if st["s"] != "assign" or st["rv"]["k"] != "bin" or st["rv"]["op"] not in ("Lt", "Le", "Gt", "Ge"):
                    continue
                if st.get("exp"):
                    pass
                rv = st["rv"]
                sides = []
                for o in (rv["a"], rv["b"]):
                    lv = tr.origins(b, o)
                    is_lim = any(l.kind == "field" and terminal_field(l)[1] == field for l in lv)
                    sides.append((is_lim, lv))
                if sides[0][0] == sides[1][0]:
                    continue
                n += 1
                limit_is_a = sides[0][0]
                rel = _SYM[_SWAP[rv["op"]] if limit_is_a else rv["op"]]
                other = sides[1][1] if limit_is_a else sides[0][1]
                k = sum(1 for x in range(si) if blk["st"][x]["s"] == "assign" and blk["st"][x]["rv"]["k"] == "bin")
                R.check(rel in (">", "<="), rule, "%s:gate:%s" % (fkey(b), "-".join(sorted({leaf_kind_name(l) for l in other}))[:80]),
                        "comparison `%s %s %s` keeps the limit inclusive" % (what, rel, field),
                        "%s compares `%s %s %s` (%s): a %s of exactly the configured limit is treated as oversized/special, the property admits everything up to and including the limit" % (short(b.path), what, rel, field, [leaf_str(l)[:60] for l in other][:3], what),
                        "%s:%d" % (b.file, st["sp"][0]))
    R.floor(rule, n, floor, "comparisons against the configured %s" % field)


def leaf_kind_name(l):
    if l.kind == "call":
        return "call:" + (l.detail.get("callee") or "?").split("::")[-1]
    if l.kind == "param":
        return "param%s" % l.detail.get("idx")
    if l.kind == "field":
        return "field:" + str(terminal_field(l)[1])
    return l.kind


LOCK_CALL = r"ThreadSafeRequestManager::lock$|^std::sync::Mutex::<.*>::lock$|^std::sync::RwLock::<.*>::(read|write)$|^std::sync::poison::(mutex::)?Mutex::<.*>::lock$|^std::sync::poison::(rwlock::)?RwLock::<.*>::(read|write)$|parking_lot::.*(Mutex|RwLock).*::(lock|read|write)$"
GUARD_TY = re.compile(r"(MutexGuard|RwLockReadGuard|RwLockWriteGuard)<")


def _guarded_type(ty):
    m = re.search(r"(?:MutexGuard|RwLockReadGuard|RwLockWriteGuard)<'?\w*,?\s*(.*)>", ty or "")
    return m.group(1) if m else None


def guard_holders(b, c):
    """(locals that hold the guard produced by lock call c, guarded type)"""
    if c.dest is None:
        return set(), None
    holders = set(follow_value(b, c.dest["l"]))
    changed = True
    while changed:
        changed = False
        for x in b.calls_to(r"Result::<.*>::(expect|unwrap|unwrap_or_else)$|Option::<.*>::(expect|unwrap)$"):
            p0 = op_place(x.args[0]) if x.args else None
            if p0 is not None and p0["l"] in holders and x.dest and x.dest["l"] not in holders:
                holders |= set(follow_value(b, x.dest["l"]))
                changed = True
    gty = None
    for h in sorted(holders):
        ty = b.locals[h]["ty"]
        if re.match(r"^(std::sync::|parking_lot::(lock_api::)?|std::sync::poison::(mutex::|rwlock::)?)\w*Guard<", ty):
            gty = gty or _guarded_type(ty)
    holders = {h for h in holders if GUARD_TY.search(b.locals[h]["ty"]) and not b.locals[h]["ty"].startswith("&")}
    return holders, gty


def double_lock_scan(F, R, rule, path_pat, direct_only=False):
    """a blocking (std) lock is not re-acquired while a guard of the same lock is alive: the region in which a guard local
    lives (from the acquisition to every drop of the local holding it) contains no second acquisition of a lock guarding
    the same type, neither directly nor inside a crate function called in that region. std::sync::Mutex is not reentrant,
    a second lock() on the same thread blocks forever."""
    n = 0
    locks_in = {}

    def locks_of(b):
        if b.path not in locks_in:
            locks_in[b.path] = [c for c in b.calls_to(LOCK_CALL)]
        return locks_in[b.path]

    for b in F.real_bodies():
        if not re.search(path_pat, b.path) or is_test_body(b):
            continue
        acq = locks_of(b)
        if not acq:
            continue
        for c in acq:
            if c.dest is None or c.target is None:
                continue
            holders, gty = guard_holders(b, c)
            if not holders or gty is None:
                continue
            n += 1
            # blocks that end the guard's life: the drop of the *last* holder in the move chain (moves out of earlier
            # holders leave them empty, their drops are no-ops and are elided or flagged by drop elaboration later)
            ends = set()
            for bi, blk in enumerate(b.blocks):
                t = blk["term"]
                if not t:
                    continue
                if t["t"] == "drop" and not t["pl"].get("p") and t["pl"]["l"] in holders and re.match(r"^(std::sync::|parking_lot::)", b.locals[t["pl"]["l"]]["ty"]) and not b.locals[t["pl"]["l"]]["ty"].startswith("std::result::"):
                    ends.add(bi)
                if t["t"] == "call":
                    cal = (op_const(t["f"]) or {}).get("fn", "")
                    if cal.endswith("mem::drop"):
                        p0 = op_place(t["args"][0])
                        if p0 is not None and p0["l"] in holders:
                            ends.add(bi)
            live = b.reach_from(c.target, avoid=ends) | {c.target}
            live -= ends
            for c2 in acq:
                if c2 is c or c2.bb not in live:
                    continue
                _h2, ty2 = guard_holders(b, c2)
                if ty2 == gty:
                    R.bad(rule, "%s:relock:%s" % (fkey(b), gty.split("::")[-1][:40]), "%s acquires the lock on %s again while a guard taken at line %d is still alive (std locks are not reentrant: this thread blocks forever, and every task that needs the lock after it)" % (short(b.path), short(gty), c.line), where(c2))
            if direct_only:
                continue
            for x in b.calls:
                if x.bb not in live or x is c:
                    continue
                tgt = F.bodies.get(x.name() or "")
                if tgt is None or tgt.path == b.path or re.search(LOCK_CALL, tgt.path):
                    continue
                for c3 in locks_of(tgt):
                    _h3, ty3 = guard_holders(tgt, c3)
                    if ty3 == gty:
                        R.bad(rule, "%s:relock-in-callee:%s" % (fkey(b), short(tgt.path)), "%s calls %s, which locks %s, while holding a guard of the same lock taken at line %d" % (short(b.path), short(tgt.path), short(gty), c.line), where(x))
    return n


def _same_value(body, o1, o2):
    c1, c2 = op_const(o1), op_const(o2)
    if c1 is not None or c2 is not None:
        return c1 is not None and c2 is not None and c1.get("int") == c2.get("int") and "int" in c1
    p1, p2 = op_place(o1), op_place(o2)
    if p1 is None or p2 is None:
        return False
    if p1.get("p") or p2.get("p"):
        return p1 == p2
    return bool(flow._local_copies_back(body, p1["l"], 6) & flow._local_copies_back(body, p2["l"], 6))


def sub_is_guarded(body, bb, rv):
    """`a - b` in block bb is safe when bb is control-dependent on a comparison establishing a >= b (any of the four
    spellings: a >= b, a > b taken; a < b, a <= b not taken is NOT enough for <=: !(a <= b) gives a > b which is fine)"""
    a, b = rv["a"], rv["b"]
    for cmp in controlling_comparisons(body, bb):
        op = cmp["op"] if cmp["taken"] else _NEG[cmp["op"]]
        if _same_value(body, cmp["a"], a) and _same_value(body, cmp["b"], b) and op in ("Ge", "Gt"):
            return True
        if _same_value(body, cmp["a"], b) and _same_value(body, cmp["b"], a) and op in ("Le", "Lt"):
            return True
    return False


CLIENT_CLASSIFY = r"^serde_json::(de::)?(from_slice|from_str)$"


def client_message_handlers(F):
    """the functions of the async client (outside helpers/manager) that classify an incoming message: handle_recv_message
    and whatever free functions of async_client it was split into. Ordered: the one with the element loop first."""
    out = []
    for b in F.real_bodies():
        if b.crate != CORE or is_test_body(b) or b.kind not in ("Fn", "AssocFn"):
            continue
        if not re.match(r"^jsonrpsee_core::client::async_client::(?!helpers::|manager::|utils::|rpc_service::)[\w:]+$", b.path):
            continue
        cls = [c for c in b.calls_to(CLIENT_CLASSIFY) if len(c.ga) >= 2 and c.ga[-1].startswith("jsonrpsee_types::")]
        if cls:
            out.append(b)
    if not out:
        raise AnchorLost("the async client's message classification (serde_json::from_slice::<jsonrpsee_types::..> in async_client)")
    out.sort(key=lambda b: (0 if any(c.callee == "std::iter::Iterator::next" for c in b.calls) else 1, b.path))
    return out


def array_elements_all_processed(F, R, rule):
    """the client's array arm looks at every element: inside the loop over the elements of a `[..]` message the only way
    out of the function is an error; a successful return from inside the loop would skip the remaining elements (their
    responses / close notifications are never routed) and the batch completion that follows the loop."""
    loops = []
    b = None
    for x in client_message_handlers(F):
        R.fn(x)
        lx = [c for c in x.calls if c.callee == "std::iter::Iterator::next" and "RawValue" in ((c.self_ty or "") + " ".join(c.ga or []))]
        if not lx:
            lx = [c for c in x.calls if c.callee == "std::iter::Iterator::next" and c.dest and "RawValue" in x.locals[c.dest["l"]]["ty"]]
        if lx:
            b = x
            loops += lx
    if len(loops) != 1:
        R.anchor_lost(rule, "the loop over the elements of an array message in handle_recv_message (found %d)" % len(loops))
        return
    nx = loops[0]
    some_t = None
    for sb, arms, other in flow.switch_on(b, nx.dest["l"]):
        some_t = arms.get("1") or (other if "0" in arms else None)
    if some_t is None:
        R.anchor_lost(rule, "the Some arm of the element loop in handle_recv_message")
        return
    errs = err_return_blocks(b)
    ok = flow.all_paths_pass(b, some_t, errs | {nx.bb}) and some_t not in b.exits
    R.check(ok, rule, "array:every-element-processed", "inside the element loop the function is left only with an error", "handle_recv_message can return successfully from inside the loop over an array's elements: the remaining elements (responses, close notifications) are never routed and the batch that shares the array is never completed - its pending entry stays forever and the caller times out", where(nx))


def into_owned_fieldwise(ctx, rule, path_pat, floor):
    """`into_owned` changes lifetimes, not values: the struct it returns takes every field from the same field of `self`
    (through that field's own into_owned / clone / Option::map / Cow::Owned). A rebuild through a constructor, or a
    special case that substitutes a constant, silently normalises the value - an absent `jsonrpc` becomes "2.0", params
    `{}` become `[]` - so what a handler or a middleware sees is no longer what was received."""
    F, R = ctx.F, ctx.R
    tr = ctx.tracer(follow_callers=False, follow_fields=False, inline_calls=False, extra_transparent=[(r"::into_owned$", 0), (r"Option::<.*>::map$", 0)])
    n = 0
    for b in F.real_bodies():
        if is_test_body(b) or not re.search(path_pat, b.path) or b.kind != "AssocFn":
            continue
        ret = b.locals[0]["ty"].split("<")[0]
        adt = F.adt(ret)
        if adt is None or adt["kind"] != "Struct":
            continue
        R.fn(b)
        n += 1
        aggs = [(bi, st) for bi, blk in enumerate(b.blocks) if bi in b.reachable and not blk.get("cleanup") for st in blk["st"]
                if st["s"] == "assign" and st["rv"]["k"] == "agg" and st["rv"].get("adt") == ret]
        if not aggs:
            R.bad(rule, "%s:fieldwise" % fkey(b), "%s does not build its result field by field from `self` (it goes through %s): members that the constructor fixes (e.g. jsonrpc: Some(\"2.0\")) no longer reflect the received message" % (short(b.path), sorted({short(c.name()) for c in b.calls if "new" in (c.name() or "")})[:3]), "%s:%d" % (b.file, b.lo))
            continue
        for bi, st in aggs:
            for fname, op in zip(st["rv"]["fields"], st["rv"]["ops"]):
                lv = []
                work = [(b, op, 0)]
                while work:
                    wb, wop, dpt = work.pop()
                    for l in tr.origins(wb, wop):
                        if l.kind == "agg" and dpt < 6 and l.detail["ops"] and (l.detail.get("adt", "").endswith("borrow::Cow") or l.detail.get("adt", "").startswith("std::option::Option")):
                            work.append((F.bodies[l.where], l.detail["ops"][0], dpt + 1))
                        elif l.kind == "agg" and l.detail.get("variant") == "None" and not l.detail["ops"]:
                            # `None => None` arm of a match on self.<field>: value-preserving
                            continue
                        else:
                            lv.append(l)
                ok = bool(lv) and all(l.kind == "field" and l.detail["idx"] == 1 and l.detail["fields"][0][1] == fname for l in lv)
                if not lv:
                    # only `None` was found: fine exactly on the None arm of a match on self.<field>
                    for sb, blk2 in enumerate(b.blocks):
                        t2 = blk2["term"]
                        if not t2 or t2["t"] != "switch" or sb not in b.reachable:
                            continue
                        p2 = op_place(t2["discr"])
                        if p2 is None:
                            continue
                        for b3, s3, d3, src3 in b.defs.get(p2["l"], []):
                            if src3[0] == "rv" and src3[1]["k"] == "discr" and src3[1]["pl"]["l"] == 1 and any(isinstance(e, dict) and e.get("n") == fname for e in src3[1]["pl"].get("p", [])):
                                arms2 = {v: tb for v, tb in t2["arms"]}
                                if "0" in arms2 and b.dominates(arms2["0"], bi):
                                    ok = True
                R.check(ok, rule, "%s:%s%s" % (fkey(b), fname, "" if len(aggs) == 1 else "@arm%d" % [x[0] for x in aggs].index(bi)), "%s.%s comes from self.%s" % (ret.split("::")[-1], fname, fname), "%s fills `%s` from %s instead of (only) self.%s: the owned value differs from the borrowed one" % (short(b.path), fname, sorted({leaf_str(l)[:70] for l in lv if not (l.kind == "field" and l.detail["idx"] == 1)}), fname), "%s:%d" % (b.file, st["sp"][0]))
    R.floor(rule, n, floor, "struct-returning into_owned functions")


def wire_decoders_plain(ctx, rule, type_pats, floor):
    """the serde-derived decoders of the wire types stay what `#[derive(Deserialize)]` makes them: (a) they call nothing
    but serde/std - no `deserialize_with` validation hook that makes one classification attempt stricter than its
    sibling (a call that fails as Request but passes as Notification is silently dropped); (b) they tolerate unknown
    members (an IgnoredAny read exists, `unknown_field` is never raised) - a peer may add members, and a stricter
    decoder makes the message fall through to the next, wrong, classification."""
    F, R = ctx.F, ctx.R
    n = 0
    for label, pat in type_pats:
        bodies = [b for p_, b in F.bodies.items() if re.search(r"Deserialize<'de> for " + pat, p_) and b.kind in ("Fn", "AssocFn", "Closure")]
        if not bodies:
            R.anchor_lost(rule, "derived Deserialize impl of %s" % label)
            continue
        n += 1
        hooks = set()
        ignored = False
        unknown = []
        for b in bodies:
            R.fn(b)
            for c in b.calls:
                nm = c.name() or ""
                cal = c.callee or ""
                if re.search(r"Error::unknown_field$", nm) or re.search(r"Error::unknown_field$", cal):
                    unknown.append(c)
                if re.search(r"next_value$", cal) and c.ga and "IgnoredAny" in c.ga[-1]:
                    ignored = True
                for x in (nm,):
                    if re.match(r"^<?jsonrpsee_", x) and "::_serde::" not in x and not re.search(r"Deserialize<'de> for " + pat, x):
                        hooks.add(short(x))
        R.check(not hooks, rule, "%s:no-validation-hook" % label, "the decoder of %s is plain serde" % label, "the decoder of %s calls %s while decoding: a member that this decoder now rejects is still accepted by the sibling classification (a call with an id then passes as a notification and is never answered, or a notification is routed as something else)" % (label, sorted(hooks)), "%s:%d" % (bodies[0].file, bodies[0].lo))
        R.check(ignored and not unknown, rule, "%s:tolerates-unknown-members" % label, "%s ignores members it does not know" % label, "the decoder of %s rejects unknown members (deny_unknown_fields): a message with an additional member fails this classification and falls through to the next one" % label, "%s:%d" % (bodies[0].file, bodies[0].lo))
    R.floor(rule, n, floor, "derived wire decoders")


def builder_field_crossing(ctx, rule, path_pat, floor, only_fields=None):
    """wherever a method rebuilds a value of its own type from `self` (builders that change a type parameter:
    set_rpc_middleware, set_http_middleware, to_service_builder, ...), a field that is copied from `self` is copied from
    the *same* field: `max_buffer_capacity_per_subscription: self.max_concurrent_requests` type-checks (both are usize)
    and silently replaces one configured value by another."""
    F, R = ctx.F, ctx.R
    tr = ctx.tracer(follow_callers=False, follow_fields=False, inline_calls=False)
    n = 0
    for b in F.real_bodies():
        if not re.search(path_pat, b.path) or is_test_body(b) or b.kind != "AssocFn" or b.argc < 1:
            continue
        if b.path.endswith("::clone") or b.path.endswith("::default"):
            continue
        self_ty = b.locals[1]["ty"].lstrip("&").replace("mut ", "").split("<")[0]
        for bi, blk in enumerate(b.blocks):
            if blk.get("cleanup") or bi not in b.reachable:
                continue
            for st in blk["st"]:
                if st["s"] != "assign" or st["rv"]["k"] != "agg" or st["rv"].get("ak") != "adt" or len(st["rv"]["fields"]) < 2:
                    continue
                if st["rv"]["adt"] != self_ty:
                    continue
                n += 1
                R.fn(b)
                for fname, op in zip(st["rv"]["fields"], st["rv"]["ops"]):
                    if only_fields and fname not in only_fields:
                        continue
                    lv = tr.origins(b, op)
                    src = {l.detail["fields"][0][1] for l in lv if l.kind == "field" and l.detail["idx"] == 1 and l.detail["fields"] and l.detail["fields"][0][0] == self_ty}
                    crossed = sorted(x for x in src if x != fname)
                    if crossed:
                        R.bad(rule, "%s:%s<-%s" % (fkey(b), fname, ",".join(crossed)), "%s rebuilds %s with `%s` taken from self.%s: the value configured for `%s` is silently replaced by another setting" % (short(b.path), self_ty.split("::")[-1], fname, "/".join(crossed), fname), "%s:%d" % (b.file, st["sp"][0]))
    R.ok(rule, "no-field-crossing", "%d self-rebuilding constructions inspected, every copied field comes from the same field" % n)
    R.floor(rule, n, floor, "constructions of the method's own type from self")


def setter_arg_crossing(ctx, rule, path_pat, floor):
    """a builder that forwards its settings to another builder through same-named setters (`.max_request_size(self.
    max_request_size)`) forwards each setting to its own setter: the argument of a call `x.<name>(..)` / `x.set_<name>(..)`
    that is copied from a field of `self` is copied from `self.<name>`."""
    F, R = ctx.F, ctx.R
    tr = ctx.tracer(follow_callers=False, follow_fields=False, inline_calls=False)
    n = 0
    for b in F.real_bodies():
        if not re.search(path_pat, b.path) or is_test_body(b) or b.argc < 1:
            continue
        root = b
        while root.kind == "Closure" and F.parent_body(root) is not None:
            root = F.parent_body(root)
        if root.kind != "AssocFn" or root.argc < 1:
            continue
        self_ty = root.locals[1]["ty"].lstrip("&").replace("mut ", "").split("<")[0]
        adt = F.adt(self_ty)
        if adt is None or adt["kind"] != "Struct":
            continue
        fields = {f_["n"] for f_ in adt["variants"][0]["fields"]}
        for c in b.calls:
            nm = (c.name() or "").split("::")[-1]
            target = nm if nm in fields else (nm[4:] if nm.startswith("set_") and nm[4:] in fields else None)
            if target is None or len(c.args) != 2:
                continue
            lv = ctx.tracer(follow_callers=False, follow_fields=False).origins(b, c.args[1])
            src = {l.detail["fields"][0][1] for l in lv if l.kind == "field" and l.detail["fields"] and l.detail["fields"][0][0] == self_ty}
            if not src:
                continue
            n += 1
            crossed = sorted(x for x in src if x != target)
            R.check(not crossed, rule, "%s:%s(self.%s)" % (fkey(b), nm, ",".join(sorted(src))), "%s forwards self.%s to %s()" % (short(b.path), target, nm), "%s passes self.%s to the setter `%s`: the setting `%s` is configured from another setting's value" % (short(b.path), "/".join(crossed), nm, target), where(c))
    R.floor(rule, n, floor, "settings forwarded through same-named setters")


def config_call_signatures(F, tr, body, cfg_owner_substr="ServerConfig"):
    """{callee: set of per-argument tuples of config field names the argument originates from} over body + closures"""
    out = {}
    for x in F.nested(body):
        for c in x.calls:
            per = []
            for a in c.args:
                lv = tr.origins(x, a)
                fs = sorted({terminal_field(l)[1] for l in lv if l.kind == "field" and cfg_owner_substr in (terminal_field(l)[0] or "")})
                per.append(tuple(fs))
            if any(per):
                out.setdefault(short(c.name() or "?"), set()).add(tuple(per))
        for blk in x.blocks:
            if blk.get("cleanup"):
                continue
            for st in blk["st"]:
                if st["s"] == "assign" and st["rv"]["k"] == "agg" and st["rv"].get("ak") == "adt" and st["rv"]["adt"].startswith("jsonrpsee"):
                    per = []
                    for o in st["rv"]["ops"]:
                        lv = tr.origins(x, o)
                        per.append(tuple(sorted({terminal_field(l)[1] for l in lv if l.kind == "field" and cfg_owner_substr in (terminal_field(l)[0] or "")})))
                    if any(per):
                        out.setdefault("{%s::%s}" % (st["rv"]["adt"].split("::")[-1], st["rv"].get("variant")), set()).add(tuple(zip(st["rv"]["fields"], per)))
    return out


def sibling_config_agreement(ctx, rule, siblings, floor):
    """sibling entry points (the high-level server and the low-level `ws::connect` / `http::call_with_service_builder`
    API) must configure the shared machinery from the *same* settings: for every callee that both siblings feed with
    values originating from ServerConfig fields, the per-argument field provenance agrees. The rule needs no table of
    'right' fields: whatever one sibling does, the other must do (Engler et al.: cross-checking implementations of one
    interface)."""
    F, R = ctx.F, ctx.R
    tr = ctx.tracer(follow_callers=False, follow_fields=False)
    sigs = []
    for label, pat in siblings:
        b = F.one(pat)
        R.fn(b)
        sigs.append((label, config_call_signatures(F, tr, b)))
    n = 0
    for i in range(len(sigs)):
        for j in range(i + 1, len(sigs)):
            (la, sa), (lb, sb) = sigs[i], sigs[j]
            for callee in sorted(set(sa) & set(sb)):
                n += 1
                # every signature of the smaller side must occur on the other side
                small, big = (sa[callee], sb[callee]) if len(sa[callee]) <= len(sb[callee]) else (sb[callee], sa[callee])
                ok = small <= big
                R.check(ok, rule, "%s~%s:%s" % (la, lb, callee), "%s and %s configure %s from the same settings %s" % (la, lb, callee, sorted(small)), "%s and %s feed %s from different settings: %s vs %s - one of the two entry points enforces another limit than the configured one" % (la, lb, callee, sorted(sa[callee]), sorted(sb[callee])), None)
    R.floor(rule, n, floor, "callees configured by two sibling entry points")


def param_call_signatures(F, tr, body):
    """{callee or {Struct}: set of per-argument tuples of the body's own parameter indices the argument originates from},
    over the body and the closures nested in it (captures are followed back to the enclosing function's parameters)"""
    out = {}
    for x in F.nested(body):
        for c in x.calls:
            per = []
            for a in c.args:
                lv = tr.origins(x, a)
                per.append(tuple(sorted({l.detail["idx"] for l in lv if l.kind == "param" and l.detail["fn"] == body.path})))
            if any(per):
                out.setdefault(short(c.name() or "?"), set()).add(tuple(per))
        for blk in x.blocks:
            if blk.get("cleanup"):
                continue
            for st in blk["st"]:
                if st["s"] == "assign" and st["rv"]["k"] == "agg" and st["rv"].get("ak") == "adt" and st["rv"]["adt"].startswith("jsonrpsee"):
                    per = []
                    for o in st["rv"]["ops"]:
                        lv = tr.origins(x, o)
                        per.append(tuple(sorted({l.detail["idx"] for l in lv if l.kind == "param" and l.detail["fn"] == body.path})))
                    if any(per):
                        out.setdefault("{%s}" % st["rv"]["adt"].split("::")[-1], set()).add(tuple(zip(st["rv"]["fields"], per)))
    return out


def sibling_param_agreement(ctx, rule, siblings, floor):
    """sibling functions with the same parameter list (register_subscription / register_subscription_raw; the three
    method registrars) hand their parameters on in the same way: for every callee / constructed struct that two siblings
    share, each argument originates from the same parameter positions. A one-token mix-up in one sibling (the
    notification name where the subscribe name belongs) is a disagreement with the other."""
    F, R = ctx.F, ctx.R
    tr = ctx.tracer(follow_callers=False, follow_fields=False)
    sigs = []
    for label, pat in siblings:
        b = F.one(pat)
        R.fn(b)
        sigs.append((label, param_call_signatures(F, tr, b)))
    n = 0
    for i in range(len(sigs)):
        for j in range(i + 1, len(sigs)):
            (la, sa), (lb, sb) = sigs[i], sigs[j]
            for callee in sorted(set(sa) & set(sb)):
                n += 1
                small, big = (sa[callee], sb[callee]) if len(sa[callee]) <= len(sb[callee]) else (sb[callee], sa[callee])
                R.check(small <= big, rule, "%s~%s:%s" % (la, lb, callee), "%s and %s pass their parameters to %s alike" % (la, lb, callee), "%s and %s pass different parameters to %s: %s vs %s" % (la, lb, callee, sorted(sa[callee]), sorted(sb[callee])), None)
    R.floor(rule, n, floor, "callees / structs shared by sibling functions")


HTTP_STATUS = {
    "internal_error": "INTERNAL_SERVER_ERROR", "error_response": "INTERNAL_SERVER_ERROR", "host_not_allowed": "FORBIDDEN",
    "method_not_allowed": "METHOD_NOT_ALLOWED", "too_large": "PAYLOAD_TOO_LARGE", "malformed": "BAD_REQUEST",
    "unsupported_content_type": "UNSUPPORTED_MEDIA_TYPE", "too_many_requests": "TOO_MANY_REQUESTS", "denied": "FORBIDDEN",
    "ok_response": "OK", "from_method_response": "OK",
}


def http_status_table(ctx, rule, names):
    """each refusal helper of transport::http::response builds its response with its own status code, directly (a helper
    re-implemented on top of from_method_response / ok_response answers 200)"""
    F, R = ctx.F, ctx.R
    for nm in names:
        b = F.one(r"^jsonrpsee_server::transport::http::response::%s$" % nm)
        R.fn(b)
        want = HTTP_STATUS[nm]
        got = set()
        for c in b.calls:
            for a in c.args:
                k = op_const(a)
                if k and re.search(r"StatusCode::(\w+)$", k.get("name", "") or ""):
                    got.add(re.search(r"StatusCode::(\w+)$", k["name"]).group(1))
        for blk in b.blocks:
            for st in blk["st"]:
                if st["s"] == "assign" and st["rv"]["k"] == "use":
                    k = op_const(st["rv"]["op"])
                    if k and re.search(r"StatusCode::(\w+)$", k.get("name", "") or ""):
                        got.add(re.search(r"StatusCode::(\w+)$", k["name"]).group(1))
        via = sorted({short(c.name() or "") for c in b.calls_to(r"transport::http::response::(from_method_response|ok_response|from_template)$") if not (c.name() or "").endswith("from_template")})
        R.check(got == {want} and not via, rule, "status:%s" % nm, "response::%s() answers %s" % (nm, want), "response::%s() answers with status %s%s instead of %s: the refusal reaches the client as another HTTP status (an oversized or failed request acknowledged with 200)" % (nm, sorted(got) or "?", (" via " + ",".join(via)) if via else "", want), "%s:%d" % (b.file, b.lo))


def response_flag_matches_json(ctx, rule):
    """`MethodResponse::is_success()` is what the subscription machinery trusts (accept() builds a sink only for a
    successful response; the close task is armed only then): in every constructor the `success_or_error` flag of a
    MethodResponse agrees with the payload that was serialised into its json - a response whose json is an *error*
    object (built with error/error_borrowed, incl. the oversize / internal-error replacements) is flagged Failed."""
    F, R = ctx.F, ctx.R
    tr = ctx.tracer(follow_callers=False, follow_fields=False, inline_calls=False)
    n = 0
    for b in F.real_bodies():
        if not re.search(r"^jsonrpsee_core::server::method_response::MethodResponse::(response|error|subscription_response|subscription_error|notification)$", b.path):
            continue
        R.fn(b)
        for bi, blk in enumerate(b.blocks):
            if blk.get("cleanup") or bi not in b.reachable:
                continue
            for st in blk["st"]:
                if st["s"] != "assign" or st["rv"]["k"] != "agg" or not (st["rv"].get("adt") or "").endswith("method_response::MethodResponse") or "json" not in st["rv"]["fields"]:
                    continue
                n += 1
                ordn = n
                fl = st["rv"]["ops"][st["rv"]["fields"].index("success_or_error")]
                js = st["rv"]["ops"][st["rv"]["fields"].index("json")]
                flag = sorted({(l.detail.get("variant") if l.kind == "agg" else leaf_str(l)[:60]) for l in tr.origins(b, fl)})
                # is the json the serialisation of an error payload?
                err_json = False
                for l in tr.origins(b, js):
                    if l.kind == "call" and re.search(r"to_raw_value$", l.detail["callee"] or ""):
                        for l2 in tr.origins(b, l.detail["args"][0]):
                            if l2.kind == "call" and re.search(r"Response::<.*>::new$", l2.detail["callee"] or ""):
                                for l3 in tr.origins(b, l2.detail["args"][0]):
                                    if l3.kind == "call" and re.search(r"ResponsePayload::<.*>::(error|error_borrowed)$", l3.detail["callee"] or ""):
                                        err_json = True
                if err_json:
                    R.check(flag == ["Failed"], rule, "%s:flag#%d" % (fkey(b), ordn), "an error json is flagged Failed", "%s builds a response whose json is an error object but whose success flag is %s: is_success() can be true for an error reply, so a subscription whose accept response was replaced by an error (too big) still gets a live sink and its notifications go out" % (short(b.path), flag), "%s:%d" % (b.file, st["sp"][0]))
                else:
                    R.ok(rule, "%s:flag#%d" % (fkey(b), ordn), "flag %s for a payload-derived json" % flag, "%s:%d" % (b.file, st["sp"][0]))
    R.floor(rule, n, 3, "MethodResponse constructions")


def read_task_receive_is_cancel_safe(ctx, rule):
    """the client's read task multiplexes the transport receive with other events in a select loop; a WebSocket receive
    is not cancel-safe (header and payload are read over several awaits into a buffer owned by the future), so the
    in-flight receive must outlive a lost select: `TransportReceiverT::receive` is not polled as a branch of the loop
    itself but inside a stream/closure that is kept across iterations (stream::unfold) and polled with next()."""
    F, R = ctx.F, ctx.R
    b = F.one(r"^jsonrpsee_core::client::async_client::read_task::\{closure#0\}$")
    R.fn(b)
    direct = b.calls_to(r"TransportReceiverT::receive$")
    nested = [c for x in F.nested(b, include_self=False) for c in x.calls_to(r"TransportReceiverT::receive$")]
    # ... or in a named (async) fn handed to the stream constructor instead of a closure
    for c in b.calls:
        for a in c.args:
            k = op_const(a)
            if k is not None and "fn" in k:
                for pth in (k["fn"], k["fn"] + "::{closure#0}"):
                    x = F.bodies.get(pth)
                    if x is not None:
                        nested += x.calls_to(r"TransportReceiverT::receive$")
    kept = b.calls_to(r"stream::unfold$|stream::(poll_fn|repeat_with|once)$")
    R.check(not direct and bool(nested) and bool(kept), rule, "read_task:receive-kept-across-iterations", "the transport receive lives in a stream kept across loop iterations", "read_task polls receiver.receive() directly as a branch of its select loop (direct=%d, wrapped=%d): when another branch wins while a message is half received, the partial frame is dropped, the stream desynchronises and a response/notification the server sent is lost" % (len(direct), len(nested)), where(direct[0]) if direct else "%s:%d" % (b.file, b.lo))


XFORM = r"str::<impl str>::(to_ascii_lowercase|to_ascii_uppercase|to_lowercase|to_uppercase|trim\w*|replace\w*|strip_\w+)$|String::(make_ascii_lowercase|make_ascii_uppercase|truncate|retain|remove|pop|insert\w*)$|<\[u8\]>::(to_ascii_lowercase|to_ascii_uppercase)$|slice::<impl \[u8\]>::(to_ascii_lowercase|to_ascii_uppercase|make_ascii_lowercase)$"


def text_transforms(F, R, pats):
    """names of the case/trim/replace transformations called in the bodies matching pats (and closures nested in them)"""
    out = set()
    found = 0
    for pat in pats:
        for b in F.find(pat):
            for x in F.nested(b):
                found += 1
                R.fn(x)
                for c in x.calls_to(XFORM):
                    out.add((c.name() or "").split("::")[-1])
    if not found:
        raise AnchorLost("bodies matching %s" % (pats,))
    return out


SPAWN_SITES = {
    # function -> (max number of spawn sites, what is detached there and why that is sound for the lifetime properties)
    r"^jsonrpsee_core::server::rpc_module::RpcModule::<Context>::register_blocking_method::\{closure#0\}$": (1, "spawn_blocking: the handler; its JoinHandle is awaited by the call future"),
    r"^jsonrpsee_core::server::rpc_module::RpcModule::<Context>::register_subscription::\{closure#0\}$": (1, "the subscription's close task (holds the sink / permit until the handler is done)"),
    r"^jsonrpsee_server::transport::ws::background_task::\{closure#0\}$": (2, "the writer task (joined in graceful_shutdown) and the per-message task (holds the pending-call token)"),
    r"^jsonrpsee_server::server::Server::<HttpMiddleware, RpcMiddleware>::start$": (2, "the accept loop"),
    r"TowerServiceNoHttp<.*> as tower::Service<.*>>::call$": (1, "the WebSocket connection task (owns the ConnectionState)"),
    r"^jsonrpsee_server::server::process_connection$": (1, "the connection future (owns the stop handle clone)"),
}


def vetted_spawns(ctx, rule, crates=("jsonrpsee_server", "jsonrpsee_core")):
    """who may detach work: the server side spawns tasks in a closed set of places, each of which keeps the resource that
    bounds its lifetime (connection permit, pending-call token, stop handle) or is joined. Work detached anywhere else
    (a request handled on a spawned task while its permit is dropped by the caller; a connection task nobody joins)
    escapes max_connections / graceful stop accounting."""
    F, R = ctx.F, ctx.R
    n = 0
    per = {}
    for c in F.all_calls(r"^tokio::(task::)?spawn$|^tokio::task::spawn_blocking$|^tokio::task::spawn_local$|Handle::(spawn|spawn_blocking)$|JoinSet::<.*>::spawn\w*$"):
        b = c.body
        if b.crate not in crates or is_test_body(b) or re.search(r"^<?jsonrpsee_core::client::", b.path):
            continue
        n += 1
        site = None
        for pat, (mx, why) in SPAWN_SITES.items():
            if re.search(pat, b.path):
                site = (pat, mx, why)
        if site is None:
            R.bad(rule, "spawn-site:%s" % fkey(b), "%s detaches work with %s: this is not one of the vetted spawn sites, whose tasks keep the connection permit / pending-call token / stop handle or are joined - work detached here is not covered by the connection limit and by graceful stop" % (short(b.path), short(c.name() or "")), where(c))
            continue
        per[site[0]] = per.get(site[0], 0) + 1
        R.check(per[site[0]] <= site[1], rule, "spawn-site:%s#%d" % (fkey(b), per[site[0]]), "vetted spawn: %s" % site[2], "%s has more spawn sites (%d) than the %d vetted ones (%s)" % (short(b.path), per[site[0]], site[1], site[2]), where(c))
    R.floor(rule, n, 8, "spawn sites on the server side")


def soketto_inbound_limits(ctx, rule, want="max_request_body_size"):
    """everything that bounds what the WebSocket side *receives* (soketto's connection Builder: set_max_message_size,
    set_max_frame_size, ...) is configured from the request limit and from nothing else: the response limit must never
    decide which requests are accepted, and vice versa"""
    F, R = ctx.F, ctx.R
    tr = ctx.tracer()
    n = 0
    for c in F.all_calls(r"^soketto::connection::Builder::<.*>::set_\w+$"):
        b = c.body
        if b.crate != SERVER or is_test_body(b) or len(c.args) < 2:
            continue
        n += 1
        R.fn(b)
        leaves = tr.origins(b, c.args[1])
        good, bad, sk = classify_config_leaves(leaves, want, ("jsonrpsee_server",))
        opt = (c.name() or "").split("::")[-1]
        if bad or not good:
            R.bad(rule, "%s:%s" % (fkey(b), opt), "the WebSocket inbound limit %s in %s is not the configured %s: %s - a request is refused (or admitted) because of another setting" % (opt, short(b.path), want, "; ".join(w for _, w in bad) or "no origin in %s" % want), where(c))
        else:
            R.ok(rule, "%s:%s" % (fkey(b), opt), "%s is configured from %s" % (opt, want), where(c))
    R.floor(rule, n, 2, "soketto inbound-limit setters")


def manager_keys_not_derived(ctx, rule, floor=10):
    """the RequestManager's tables are addressed by the ids it was given: no method of the manager builds a *different*
    key from its argument (a number re-encoded as a string, a parsed string, a formatted id) to try a second lookup.
    `7` and `"7"` are different subscription ids; a lookup that treats them alike routes notifications of an unknown or
    closed id into a live subscription."""
    F, R = ctx.F, ctx.R
    tr = ctx.tracer(follow_callers=False, follow_fields=False)
    n = 0
    for b in F.real_bodies():
        if not re.search(r"^jsonrpsee_core::client::async_client::manager::RequestManager::\w+$", b.path) or is_test_body(b):
            continue
        bodies = F.nested(b)
        for x in bodies:
            for c in x.calls_to(r"HashMap::<.*>::(get|get_mut|remove|remove_entry|entry|contains_key|get_key_value)$"):
                if len(c.args) < 2:
                    continue
                n += 1
                R.fn(x)
                lv = tr.origins(x, c.args[1])
                derived = [l for l in lv if (l.kind == "agg" and re.search(r"(SubscriptionId|params::Id)$", l.detail.get("adt") or "")) or (l.kind == "call" and re.search(r"to_string$|str::<impl str>::parse$|fmt::format$|FromStr>::from_str$", l.detail["callee"] or ""))]
                R.check(not derived, rule, "%s:%s-key" % (fkey(x), (c.name() or "").split("::")[-1]), "%s looks its table up with the id it was given" % short(b.path), "%s looks a table up with a key it built itself (%s): ids that merely look alike (7 and \"7\") are treated as the same id" % (short(b.path), [leaf_str(l)[:60] for l in derived]), where(c))
        # one keyed lookup per table per method call would be too strict; but a *fallback* lookup chain is the tell-tale
        ors = [c for x in bodies for c in x.calls_to(r"Option::<.*>::(or_else|or|xor)$")]
        R.check(not ors, rule, "%s:no-fallback-lookup" % fkey(b), "%s has no fallback lookup" % short(b.path), "%s chains a second lookup after a miss (%s)" % (short(b.path), sorted({short(c.name()) for c in ors})), where(ors[0]) if ors else None)
        # ... and no method picks an entry by searching the table (oldest batch, first pending call, ...): an entry is
        # reached through the id the caller supplies, or not at all
        scans = [c for x in bodies for c in x.calls_to(r"(HashMap|BTreeMap)::<.*>::(keys|iter|values|iter_mut|values_mut|drain|retain|into_iter|into_keys|into_values|extract_if)$|Iterator>?::(min_by_key|max_by_key|min_by|max_by|find|find_map|min|max|last|nth|position)$")]
        R.check(not scans, rule, "%s:no-table-scan" % fkey(b), "%s reaches entries by key only" % short(b.path), "%s selects an entry by scanning a table (%s) instead of by the id of the message at hand: an answer that carries no usable id is attributed to whichever entry the scan picks - another call's or batch's slots are filled with it" % (short(b.path), sorted({short(c.name()) for c in scans})), where(scans[0]) if scans else None)
    # the same two bans where a method of the manager that the pinned tree does not have was expanded into its caller
    # (jrsa/inline.py): table operations on the manager's fields found outside the manager
    SCAN = r"(HashMap|BTreeMap)::<.*>::(keys|iter|values|iter_mut|values_mut|drain|retain|into_iter|into_keys|into_values|extract_if)$"
    for b in F.real_bodies():
        if b.crate != CORE or is_test_body(b) or not b.d.get("_inlined") or not b.path.startswith("jsonrpsee_core::client::async_client::") or re.search(r"::manager::RequestManager::", b.path):
            continue
        for c in b.calls_to(SCAN):
            if not c.args:
                continue
            lv = tr.origins(b, c.args[0])
            hit = any(l.kind == "field" and any((f_[0] or "").endswith("manager::RequestManager") for f_ in l.detail["fields"]) for l in lv)
            q0 = op_place(c.args[0])
            if not hit and q0 is not None:
                # `&mut (*guard).requests`: the reference is taken of a field of the manager
                for l0 in flow._local_copies_back(b, q0["l"], 4):
                    for bi_, si_, dpl_, src_ in b.defs.get(l0, []):
                        if src_[0] == "rv" and src_[1]["k"] == "ref" and any(isinstance(e, dict) and (e.get("o") or "").endswith("manager::RequestManager") for e in src_[1]["pl"].get("p", [])):
                            hit = True
            if hit:
                R.bad(rule, "%s:no-table-scan" % fkey(b), "%s (through a manager method that was expanded into it) selects an entry by scanning one of the request manager's tables (%s) instead of by the id of the message at hand: an answer that carries no usable id is attributed to whichever entry the scan picks" % (short(b.path), short(c.name())), where(c))
    R.floor(rule, n, floor, "keyed table operations in RequestManager")


def derived_impls_stay_derived(ctx, rule, items):
    """items: [(label, regex of the impl method's path)]. The comparison / hashing / cloning of these values is what the
    compiler derives - field by field over *both* operands. A hand-written replacement (case-insensitive hosts, a clone
    that pre-allocates) is where `self.host == self.host` or `a clone of an empty builder is not empty` slip in."""
    F, R = ctx.F, ctx.R
    n = 0
    for label, pat in items:
        bs = [b for p_, b in F.bodies.items() if re.search(pat, p_) and b.kind in ("Fn", "AssocFn")]
        if not bs:
            R.anchor_lost(rule, "impl %s" % label)
            continue
        n += 1
        for b in bs:
            R.fn(b)
            R.check(bool(b.d.get("from_expansion")), rule, "%s:derived" % label, "%s is the derived impl" % label, "%s is written by hand: it no longer is the field-by-field operation on both operands that the code around it relies on" % label, "%s:%d" % (b.file, b.lo))
    return n


def error_code_ints(ctx, b):
    """the i32 constants that reach the `code` argument of the ErrorObject constructors in `b` (directly or through locals)"""
    tr = ctx.tracer(follow_callers=False, follow_fields=False)
    out = set()
    for c in b.calls_to(r"ErrorObject::<.*>::(owned|borrowed)$"):
        if c.args:
            for l in tr.origins(b, c.args[0]):
                if l.kind == "const" and "int" in l.detail:
                    out.add(str(l.detail["int"]))
    for c in b.calls:
        for a in c.args:
            k = op_const(a)
            if k and "int" in k and k.get("ty") == "i32":
                out.add(str(k["int"]))
    return out


def builder_rebuilds_copy_fields_verbatim(ctx, rule, adt_rx, floor=2):
    """a builder method that changes the builder's *type* (installing a middleware) has to rebuild the value field by
    field: in every construction of the builder inside one of its own methods, a field taken from `self` comes from the
    field of the same name. (`max_response_size: self.max_request_size` in one of two sibling methods makes a configured
    limit apply or not depending on which otherwise unrelated builder call was made.)"""
    F, R = ctx.F, ctx.R
    tr = ctx.tracer(follow_callers=False, follow_fields=False, inline_calls=False)
    n = 0
    for b in F.real_bodies():
        if is_test_body(b) or not re.search(adt_rx, b.impl_self or ""):
            continue
        for bi, blk in enumerate(b.blocks):
            if bi not in b.reachable or blk.get("cleanup"):
                continue
            for st in blk["st"]:
                if st["s"] != "assign" or st["rv"]["k"] != "agg" or st["rv"].get("ak") != "adt" or not re.search(adt_rx, st["rv"].get("adt") or ""):
                    continue
                owner = st["rv"]["adt"]
                n += 1
                R.fn(b)
                wrong = []
                for fname, op in zip(st["rv"]["fields"], st["rv"]["ops"]):
                    for l in tr.origins(b, op):
                        if l.kind == "field" and l.detail["fields"]:
                            o_, f_ = l.detail["fields"][-1]
                            if o_ == owner and f_ != fname and len(l.detail["fields"]) == 1:
                                wrong.append("%s <- self.%s" % (fname, f_))
                R.check(not wrong, rule, "%s:rebuild-verbatim" % fkey(b), "%s copies every field it keeps from the field of the same name" % short(b.path), "%s rebuilds the builder with %s: after this call a configured value is replaced by another setting's value, unlike in its sibling methods" % (short(b.path), wrong), "%s:%d" % (b.file, st["sp"][0]))
    R.floor(rule, n, floor, "constructions of the builder inside its own methods")
    return n


def server_unsubscribe_key_is_the_decoded_id(ctx, rule):
    """the server's unsubscribe handler looks the subscription up under exactly the id it decoded from the params: the key
    is not rebuilt from it (a digit-only string turned into a number, a number formatted as a string). `accept` stores
    the key as the id provider produced it and writes that same value into the subscribe reply; a reader that normalises
    the echoed id no longer finds the entry (the subscription cannot be ended) or finds another one."""
    F, R = ctx.F, ctx.R
    tr = ctx.tracer(follow_callers=False, follow_fields=False)
    cb = F.one(r"^jsonrpsee_core::server::rpc_module::RpcModule::<Context>::verify_and_register_unsubscribe::\{closure#0\}$")
    R.fn(cb)
    n = 0
    for r in cb.calls_to(r"HashMap::<.*>::(remove|remove_entry|get|get_mut|contains_key|entry)$"):
        if len(r.args) < 2:
            continue
        for l in tr.origins(cb, r.args[1]):
            if l.kind == "agg" and (l.detail.get("adt") or "").endswith("SubscriptionKey"):
                ops = dict(zip(l.detail["fields"], l.detail["ops"]))
                ls = tr.origins(cb, ops["sub_id"])
                n += 1
                derived = [x for x in ls if (x.kind == "agg" and re.search(r"SubscriptionId$", x.detail.get("adt") or "")) or (x.kind == "call" and re.search(r"to_string$|str::<impl str>::parse$|fmt::format$|FromStr>::from_str$|from_str_radix$", x.detail["callee"] or ""))]
                R.check(not derived, rule, "unsubscribe:key-not-rebuilt", "the unsubscribe handler looks the table up with the id as decoded", "the unsubscribe handler looks the subscribers table up with an id it rebuilt (%s) instead of the id as decoded: `\"7\"` and `7` are different subscription ids, and the key `accept` stored is the one the subscribe reply carried" % [leaf_str(x)[:70] for x in derived], where(r))
    R.floor(rule, n, 1, "keyed lookups of the unsubscribe handler")


def wire_ids_derive_both(ctx, rule):
    """`Id` and `SubscriptionId` are written and read by the *derived* (untagged-enum) serde impls, which mirror each
    other by construction: a number goes out as a JSON number and comes back as Num, a string as Str. A hand-written
    impl on one side only (large numbers serialised as strings, ...) makes the id the peer echoes back a different key
    than the one stored."""
    F, R = ctx.F, ctx.R
    for ty in ("SubscriptionId", "Id"):
        for tr_ in ("Serialize", "Deserialize<'de>"):
            pat = r"^jsonrpsee_types::params::_::<impl jsonrpsee_types::params::_::_serde::%s for jsonrpsee_types::params::%s<'a>>::%s$" % (re.escape(tr_), ty, "serialize" if tr_ == "Serialize" else "deserialize")
            derived = F.find(pat)
            hand = [p_ for p_ in F.bodies if re.search(r"^<jsonrpsee_types::params::%s<.*> as .*%s.*>::(serialize|deserialize)$" % (ty, tr_.split("<")[0]), p_)]
            # ... and the derived impl is the plain one: no per-variant `serialize_with` / `deserialize_with` hook (a
            # lenient number parser that rounds 1.5 to 1 makes a foreign id equal to a pending one)
            for d_ in derived:
                hooks = [p_ for p_ in F.bodies if ("__DeserializeWith" in p_ or "__SerializeWith" in p_) and d_.path in p_]
                # for untagged enums serde calls the hook function directly: every call of the derived body is serde's
                # own machinery or std, never a function of this crate
                for x_ in F.nested(d_):
                    for c_ in x_.calls:
                        nm_ = c_.name() or ""
                        if re.search(r"^<?jsonrpsee_\w+::", nm_) and "_serde::" not in nm_:
                            hooks.append(nm_)
                R.check(not hooks, rule, "%s:%s-no-with-hook" % (ty, tr_.split("<")[0]), "%s for %s has no serialize_with / deserialize_with hook" % (tr_.split("<")[0], ty), "%s for %s routes a variant through a `%s` function: ids are no longer read / written exactly as the other side writes / reads them (e.g. a float id is rounded onto the id of a different pending call)" % (tr_.split("<")[0], ty, "deserialize_with" if "De" in tr_ else "serialize_with"), "%s:%d" % (d_.file, d_.lo))
            R.check(bool(derived) and not hand, rule, "%s:%s-derived" % (ty, tr_.split("<")[0]), "%s for %s is the derived impl" % (tr_.split("<")[0], ty), "%s for %s is not the derived impl any more (%s): the serialiser and the deserialiser of the id no longer mirror each other, so an id can come back from the peer as a different key than the one that was stored" % (tr_.split("<")[0], ty, [short(h) for h in hand] or "no derived impl found"), None)


def return_carriers(b):
    """locals whose value is moved, unchanged, into the return place: `_0 = move x`, also through the `Poll::Ready(x)` /
    `(p as Ready).0` pair that stands for the await of an inlined helper (jrsa/inline.py)"""
    carr = {0}
    ready = set()
    changed = True
    while changed:
        changed = False
        for blk in b.blocks:
            if blk.get("cleanup"):
                continue
            for st in blk["st"]:
                if st["s"] != "assign" or st["pl"].get("p"):
                    continue
                d = st["pl"]["l"]
                rv = st["rv"]
                if rv["k"] == "use":
                    q = op_place(rv["op"])
                    if q is None:
                        continue
                    if d in carr and not q.get("p") and q["l"] not in carr:
                        carr.add(q["l"])
                        changed = True
                    pr = q.get("p", [])
                    if d in carr and len(pr) == 2 and isinstance(pr[0], dict) and pr[0].get("d") == "Ready" and q["l"] not in ready:
                        ready.add(q["l"])
                        changed = True
                    if d in ready and not q.get("p") and q["l"] not in ready:
                        ready.add(q["l"])
                        changed = True
                elif rv["k"] == "agg" and rv.get("variant") == "Ready" and d in ready:
                    for o in rv["ops"]:
                        q = op_place(o)
                        if q is not None and not q.get("p") and q["l"] not in carr:
                            carr.add(q["l"])
                            changed = True
    return carr


def err_return_blocks(b):
    """blocks in which the function's return place - or a local that is moved into it unchanged - is given an `Err(..)`
    (by hand or by `?`)"""
    errs = set()
    carr = return_carriers(b) if getattr(b, "d", {}).get("_inlined") else {0}
    for bi, blk in enumerate(b.blocks):
        if bi not in b.reachable:
            continue
        for st in blk["st"]:
            if st["s"] == "assign" and st["pl"]["l"] in carr and not st["pl"].get("p") and st["rv"]["k"] == "agg" and st["rv"].get("variant") == "Err":
                errs.add(bi)
        t = blk["term"]
        if t and t["t"] == "call" and t.get("dest") and t["dest"]["l"] in carr and not t["dest"].get("p") and re.search(r"from_residual$", (op_const(t["f"]) or {}).get("fn", "")):
            errs.add(bi)
    return errs


def awaited_error_leaves_function(b, c):
    """(found, ok): the Err of the awaited call `c` leaves `b` as an Err on every path - through `?` or a hand-written
    `match`/`if let Err`. found=False when the result is not inspected at all."""
    vl, rb = awaited_value_local(b, c)
    if vl is None:
        return None, False
    errs = err_return_blocks(b)
    exits = {bi for bi, blk in enumerate(b.blocks) if blk["term"] and blk["term"]["t"] == "return"}
    holders = follow_value(b, vl)
    err_arms = []
    for br in b.calls_to(r"Try.*::branch$"):
        if any(arg_is_local(b, br.args[0], h) for h in holders):
            for sb, arms, other in flow.switch_on(b, br.dest["l"]):
                if arms.get("1") is not None:
                    err_arms.append(arms["1"])
    for sb, arms, other in flow.switch_on(b, vl):
        if arms.get("1") is not None:
            err_arms.append(arms["1"])
    if not err_arms and 0 in holders:
        return True, True   # the outcome is the function's own result (tail expression): the caller inspects it
    ok = bool(err_arms) and all(t in errs or flow.all_paths_pass(b, t, errs, exits) for t in err_arms)
    return bool(err_arms), ok


def result_outcome_arms(b, is_outcome_ty):
    """For every local of `b` whose type satisfies is_outcome_ty (a Result): the blocks entered when it is Ok / Err,
    whether the code matches on it (`match`, `if let`, `?`) or asks `is_ok()` / `is_err()`. -> (ok_targets, err_targets)"""
    oks, errs = set(), set()
    for l, loc in enumerate(b.locals):
        if not is_outcome_ty(loc["ty"]):
            continue
        for sb, arms, other in flow.switch_on(b, l):
            if arms.get("0") is not None:
                oks.add(arms["0"])
            if arms.get("1") is not None:
                errs.add(arms["1"])
        holders = follow_value(b, l)
        for br in b.calls_to(r"Try.*::branch$"):
            if any(arg_is_local(b, br.args[0], h) for h in holders):
                for sb, arms, other in flow.switch_on(b, br.dest["l"]):
                    if arms.get("0") is not None:
                        oks.add(arms["0"])
                    if arms.get("1") is not None:
                        errs.add(arms["1"])
        for q in b.calls_to(r"Result::<.*>::(is_ok|is_err)$"):
            pl = op_place(q.args[0]) if q.args else None
            if pl is None or not (flow._local_copies_back(b, pl["l"], 6) & holders):
                continue
            neg = (q.name() or "").endswith("is_err")
            for sb, arms, other in flow.switch_on(b, q.dest["l"]):
                t, f = arms.get("1"), arms.get("0")
                if t is not None:
                    (errs if neg else oks).add(t)
                if f is not None:
                    (oks if neg else errs).add(f)
    return oks, errs


EVENT_LOOPS = {
    # body -> (anchor call of the loop, {awaited callee regex: why it is fine to suspend there})
    r"^jsonrpsee_server::server::Server::<.*>::start_inner::\{closure#0\}$": (
        r"^jsonrpsee_server::server::try_accept_conn$",
        {r"^jsonrpsee_server::server::try_accept_conn$": "races accept() against the stop signal"},
    ),
    r"^jsonrpsee_server::transport::ws::background_task::\{closure#0\}$": (
        r"^jsonrpsee_server::transport::ws::try_recv$",
        {
            r"^jsonrpsee_server::transport::ws::try_recv$": "races the socket against stop, ping timer and pong timeout",
            r"^jsonrpsee_core::server::(helpers::)?MethodSink::send_error$": "answer to an oversized message; ends when the connection's writer ends",
        },
    ),
}


TEARDOWNS = {
    # what a connection waits for between "the loop ended" and "the slot is released": a closed list
    r"^jsonrpsee_server::transport::ws::graceful_shutdown::\{closure#0\}$": {
        r"StreamExt::for_each$": "drain of the pending-call tokens (ends when every handler has answered)",
        r"TryStreamExt::try_for_each$": "watching the socket for a disconnect while draining (one branch of the select)",
        r"oneshot::Sender::<.*>::closed$": "the writer task went away",
        r"^std::future::poll_fn$": "the select over the three above",
        r"^param:tokio::task::JoinHandle<\(\)>$": "join of the writer task (it was told to stop)",
        r"^tokio::(task::)?spawn$": "the same join handle, seen through a parameter struct back to the spawn that produced it",
    },
}


def teardown_waits_only_for_vetted_things(ctx, rule):
    """after its loop ended a WebSocket connection still holds its slot until graceful_shutdown returns. What that function
    may wait for is a closed list, each item bounded by the server's own actions (the handlers' answers, the writer task it
    has just told to stop). Waiting for the *peer* - e.g. reading the stream until the peer completes the closing handshake
    - never ends for a peer that was closed for inactivity, so its slot is never released."""
    F, R = ctx.F, ctx.R
    tr = ctx.tracer(follow_callers=False, follow_fields=False, inline_calls=False)
    n = 0
    for pat, vetted in TEARDOWNS.items():
        b = F.one(pat)
        R.fn(b)
        for c in b.calls_to(r"IntoFuture>?::into_future$"):
            n += 1
            names = set()
            for l in tr.origins(b, c.args[0]):
                if l.kind == "call":
                    names.add(l.detail.get("callee") or "?")
                elif l.kind in ("param", "field"):
                    pl = op_place(c.args[0])
                    names.add("param:" + (b.locals[pl["l"]]["ty"] if pl is not None else "?"))
                else:
                    names.add(leaf_str(l)[:60])
            ok = bool(names) and all(any(re.search(v, nm) for v in vetted) for nm in names)
            R.check(ok, rule, "%s:await:%s" % (fkey(b), "+".join(sorted(short(x) for x in names))[:80]), "the teardown waits at a vetted point (%s)" % ", ".join(sorted(short(x) for x in names)), "%s awaits %s: that is not one of the vetted waits of the connection teardown. The connection's slot is released only after this function returns, so a wait that depends on the peer (a silent peer closed for inactivity never answers) keeps the slot for ever" % (short(b.path), sorted(short(x) for x in names)), where(c))
    R.floor(rule, n, 4, "await points in the connection teardown")


CLIENT_LOOPS = {
    r"^jsonrpsee_core::client::async_client::read_task::\{closure#0\}$": (
        r"^std::future::poll_fn$",
        {r"^std::future::poll_fn$": "the select over shutdown / finished forwards / next message / inactivity timer"},
    ),
    r"^jsonrpsee_core::client::async_client::send_task::\{closure#0\}$": (
        r"^std::future::poll_fn$",
        {
            r"^std::future::poll_fn$": "the select over shutdown / front-end queue / ping timer",
            r"async_client::handle_frontend_messages$": "writes one front-end message (its failure ends the task)",
            r"client::TransportSenderT::send_ping$": "writes a ping (its failure ends the task)",
        },
    ),
}


def client_loops_suspend_only_where_vetted(ctx, rule):
    """the client's read task must keep reading: responses that have arrived complete their calls only if the loop gets back
    to its select. Inside the loops of read_task / send_task the suspension points are a closed, vetted list - in
    particular the read task never awaits room in the bounded queue towards the send task (it parks such forwards in
    `pending_unsubscribes`): with the send task stalled on the transport and the queue full, an inline `send(..).await`
    stops the reader, and calls whose responses are already on the wire time out."""
    event_loops_suspend_only_where_vetted(ctx, rule, CLIENT_LOOPS, "it neither reads further messages nor sees the shutdown signal, so calls whose responses have already arrived do not complete")


def event_loops_suspend_only_where_vetted(ctx, rule, table=None, consequence=None):
    """the accept loop and the per-connection WebSocket loop are what notices a new connection (and answers 429), a stop
    request, a vanished peer (and so frees the connection's slot). While such a loop is suspended on anything else it does
    none of that, so the places where it may await are a closed, vetted list (like the spawn sites): any other `.await`
    inside the loop - a peek on the fresh socket, a semaphore acquire for back-pressure - stalls admission or keeps the
    slot of a dead connection."""
    F, R = ctx.F, ctx.R
    tr = ctx.tracer(follow_callers=False, follow_fields=False, inline_calls=False)
    n = 0
    for pat, (anchor, vetted) in (table or EVENT_LOOPS).items():
        b = F.one(pat)
        R.fn(b)
        anchors = b.calls_to(anchor)
        if not anchors:
            raise AnchorLost("the loop's own wait (%s) in %s" % (anchor, b.path))
        a = anchors[0]
        loop = {x for x in b.reach_from(a.bb) if a.bb in b.reach_from(x)} | {a.bb}
        for c in b.calls_to(r"IntoFuture>?::into_future$"):
            if c.bb not in loop:
                continue
            if not str(c.exp or "").startswith("d:Await"):
                continue   # a branch future handed to a select!, not an `.await` of this loop
            n += 1
            lv = tr.origins(b, c.args[0])
            names = sorted({(l.detail.get("callee") or "?") if l.kind == "call" else leaf_str(l)[:60] for l in lv})
            ok = bool(names) and all(any(re.search(v, nm) for v in vetted) for nm in names)
            R.check(ok, rule, "%s:await:%s" % (fkey(b), "+".join(short(x) for x in names)[:80]), "the loop suspends at a vetted point (%s)" % ", ".join(short(x) for x in names), "%s awaits %s inside its loop: that is not one of the vetted suspension points (%s). While the loop waits there %s" % (short(b.path), [short(x) for x in names], ", ".join(short(v.strip("^$")) for v in vetted), consequence or "it does not accept / refuse new connections, does not see the stop signal and does not notice that the peer is gone, so the connection's slot is not released"), where(c))
    R.floor(rule, n, 3, "await points inside the accept / connection loops")


def request_ids_reserved_atomically(ctx, rule):
    """request ids are what a response is matched by, so two calls in flight never share one: CurrentId::next_n reserves
    its block of ids with a single atomic read-modify-write (fetch_add of n) - a load followed by a store hands the same
    id to two threads calling through one shared client (the second call is refused as a duplicate or, over HTTP, two
    callers accept each other's answers). Also: no function of the client core reads an atomic and writes it back."""
    F, R = ctx.F, ctx.R
    tr = ctx.tracer(follow_callers=False, follow_fields=False, inline_calls=False)
    b = F.one(r"^jsonrpsee_core::client::CurrentId::next_n$")
    R.fn(b)
    ops = [c for c in b.calls if re.search(r"atomic::Atomic\w*::<.*>::\w+$|atomic::Atomic\w+::\w+$", c.name() or "")]
    kinds = sorted((c.name() or "").split("::")[-1] for c in ops)
    ok = kinds == ["fetch_add"]
    if ok:
        lv = tr.origins(b, ops[0].args[1])
        ok = bool(lv) and all(l.kind == "param" and l.detail.get("idx") == 2 for l in lv)
    R.check(ok, rule, "next_n:single-fetch_add", "ids are reserved with one fetch_add(n)", "CurrentId::next_n does not reserve its ids with a single fetch_add(n) (atomic operations: %s): two threads calling through one client can be handed the same request id" % kinds, "%s:%d" % (b.file, b.lo))
    n = 0
    for x in F.real_bodies():
        if not re.search(r"^<?jsonrpsee_(core::client|http_client|client_transport)", x.path) or is_test_body(x):
            continue
        n += 1
        loads = [c for c in x.calls if re.search(r"atomic::Atomic\w*(::<.*>)?::load$", c.name() or "")]
        stores = [c for c in x.calls if re.search(r"atomic::Atomic\w*(::<.*>)?::store$", c.name() or "")]
        for ld in loads:
            for st in stores:
                la = tr.origins(x, ld.args[0])
                sa = tr.origins(x, st.args[0])
                same = {leaf_str(l) for l in la} & {leaf_str(l) for l in sa}
                sv = tr.origins(x, st.args[1])
                dep = any(l.kind == "call" and l.detail.get("bb") == ld.bb for l in sv) or any(l.kind == "arith" for l in sv)
                if same and dep and x.can_reach(ld.bb, st.bb):
                    R.bad(rule, "%s:load-then-store" % fkey(x), "%s reads an atomic and stores a value computed from it back: the update is not atomic, two threads can observe the same value" % short(x.path), where(st))
    R.ok(rule, "no-load-then-store", "no non-atomic read-modify-write in %d client bodies" % n)


def awaited_outcome_arms(b, c):
    """(ok_targets, err_targets) of the Result produced by the awaited call `c` in `b`: the blocks entered when it is found
    Ok / Err - by `match` / `if let`, by `?` (also behind map_err / map), or by is_ok() / is_err()."""
    vl, rb = awaited_value_local(b, c)
    if vl is None:
        return set(), set()
    holders = set(follow_value(b, vl))
    for _ in range(3):
        for m in b.calls_to(r"Result::<.*>::(map_err|map|or_else|and_then)$"):
            if m.dest is not None and m.args and any(arg_is_local(b, m.args[0], h) for h in holders):
                holders |= set(follow_value(b, m.dest["l"]))
    oks, errs = set(), set()
    for h in holders:
        for sb, arms, other in flow.switch_on(b, h):
            if arms.get("0") is not None:
                oks.add(arms["0"])
            if arms.get("1") is not None:
                errs.add(arms["1"])
    for br in b.calls_to(r"Try.*::branch$"):
        if any(arg_is_local(b, br.args[0], h) for h in holders):
            for sb, arms, other in flow.switch_on(b, br.dest["l"]):
                if arms.get("0") is not None:
                    oks.add(arms["0"])
                if arms.get("1") is not None:
                    errs.add(arms["1"])
    for q in b.calls_to(r"Result::<.*>::(is_ok|is_err)$"):
        pl = op_place(q.args[0]) if q.args else None
        if pl is None or not (flow._local_copies_back(b, pl["l"], 6) & holders):
            continue
        neg = (q.name() or "").endswith("is_err")
        for sb, arms, other in flow.switch_on(b, q.dest["l"]):
            t, f = arms.get("1"), arms.get("0")
            if t is not None:
                (errs if neg else oks).add(t)
            if f is not None:
                (oks if neg else errs).add(f)
    return oks, errs


def shutdown_is_a_select_branch(ctx, rule):
    """both background tasks of the client watch the shutdown channel *while* they wait for their other events: in the
    select of read_task and of send_task `close_tx.closed()` is one of the branches, and - the selects being `biased` - the
    first one, so that it is polled on every wake-up. Checked between messages only (`if close_tx.is_closed()`), or polled
    after a branch that is always ready under load, the task does not notice that the other task has ended: streams do
    not end with the connection, pending calls do not get the cause."""
    F, R = ctx.F, ctx.R
    n = 0
    for task in ("read_task", "send_task"):
        sel = []
        for b in F.find(r"^jsonrpsee_core::client::async_client::%s::\{closure#0\}::\{closure#\d+\}$" % task):
            for bi, blk in enumerate(b.blocks):
                t = blk["term"]
                if t and t["t"] == "switch" and len(t["arms"]) >= 2 and bi in b.reachable:
                    arms = [(v, tb) for v, tb in t["arms"]]
                    polled = {}
                    for v, tb in arms:
                        polled[v] = [c for c in b.calls if b.dominates(tb, c.bb) and re.search(r"::closed::\{closure#0\}$|::recv::\{closure#0\}$|Future>?::poll$|Stream>?::poll_next$", c.name() or c.callee or "")]
                    if sum(1 for v in polled if polled[v]) >= 2:
                        sel.append((b, bi, polled))
        if len(sel) != 1:
            R.anchor_lost(rule, "the select of %s (found %d candidates)" % (task, len(sel)))
            continue
        b, bi, polled = sel[0]
        R.fn(b)
        n += 1
        where_closed = sorted(v for v, cs in polled.items() if any(re.search(r"mpsc::(bounded::)?Sender::<.*>::closed::\{closure#0\}$", c.name() or "") for c in cs))
        unbiased = bool(b.calls_to(r"thread_rng_n$"))
        R.check(bool(where_closed) and (where_closed == ["0"] or unbiased), rule, "%s:shutdown-polled-first" % task,
                "%s polls the shutdown channel first on every wake-up" % task,
                ("%s does not wait on the shutdown channel in its select (no `close_tx.closed()` branch): when the other task ends while the peer is silent this task never wakes up, so subscription streams do not end and pending calls never get the cause" % task) if not where_closed else
                ("in %s's biased select the shutdown branch is polled after other branches (position %s): while an earlier branch is always ready - a busy front end - the stop signal is never seen and the client keeps running after the connection failed" % (task, where_closed)),
                "%s:%d" % ((F.parent_body(b) or b).file, (F.parent_body(b) or b).lo))
    R.floor(rule, n, 2, "selects of the client's background tasks")


def frontend_family(F):
    """handle_frontend_messages' coroutine body and the coroutine bodies of the async_client functions it awaits (an arm
    moved into a helper). -> (hfm, [helpers])"""
    hfm = F.one(r"^jsonrpsee_core::client::async_client::handle_frontend_messages::\{closure#0\}$")
    helpers = []
    for c in hfm.calls:
        nm = c.name() or ""
        if re.match(r"^jsonrpsee_core::client::async_client::(?!helpers::|manager::|utils::)\w+$", nm):
            tgt = F.bodies.get(nm + "::{closure#0}")
            if tgt is not None and tgt is not hfm and tgt not in helpers:
                helpers.append(tgt)
    return hfm, helpers

"""C12 — client batch results are positional (structural clauses, both clients)."""
import re

from .common import fkey, where, short, arg_is_local, enclosing_loop_next, follow_value, block_line, sub_is_guarded
from ..facts import op_place, op_const, AnchorLost, is_test_body
from .. import flow

PID = "C12"
LEVEL = "other"
EXPLANATION = (
    'Static analysis over MIR of the async (WS) client and the HTTP client. Decided: R1 in both clients the loop that '
    "creates the placeholder slots iterates over the *request's* id range (result of the id-range reservation) or "
    "over a range that was validated as the key of a pending batch (complete_pending_batch's Some arm dominates the "
    'loop), never over the reply; R2 a reply element is placed at slot id - start computed with checked_sub and a '
    "bounds-checked get_mut (no plain subtraction, no indexing operator), the id comes from the element's own id(), "
    'and a miss returns an error built from NotPendingRequest; R3 the id range is built with checked_add and the '
    'request entries take their ids from zip(id_range); R4 (HTTP client) the success/failure counters are not '
    'incremented per reply element; R5 every id of a batch is reserved from the allocator (one atomic fetch_add of '
    'the batch length), so no later request can carry an id of a batch that is still pending. R6 '
    'Id::try_parse_inner_as_number is exact (no float, no numeric `as` cast, strings parsed as u64 only); R7 the '
    'pending-batch table is keyed by the whole id range in insert and complete. NOT decided: behaviour under '
    'permutations as such.'
)
RULE_TEXT = "instances = placeholder loops, slot computations, range constructions, id reservations in the two clients"
TRUSTED = ["rustc MIR", "std Range/Vec/zip semantics", "AtomicUsize::fetch_add atomicity"]
ASSUMPTIONS = ["cfg(wasm32) client builder not analysed"]

HTTP = r"^<jsonrpsee_http_client::client::HttpClient<S> as jsonrpsee_core::client::ClientT>::batch_request::\{closure#0\}$"
WSCL = r"^<jsonrpsee_core::client::async_client::Client<L> as jsonrpsee_core::client::ClientT>::batch_request::\{closure#0\}$"
PBR = r"^jsonrpsee_core::client::async_client::helpers::process_batch_response$"


def _placeholder_pushes(F, body):
    out = []
    for b in F.nested(body):
        for c in b.calls_to(r"^jsonrpsee_types::ErrorObject::<'.*>::borrowed$|^jsonrpsee_types::error::ErrorObject::<'.*>::borrowed$"):
            k = op_const(c.args[0])
            if k and k.get("int") == "0":
                out.append((b, c))
    return out


def _iteration(F, body, b, c):
    """how the placeholder built at call c (in body b, possibly a closure nested in `body`) is repeated:
    returns (body holding the source, operand that is iterated, block reached once all placeholders exist) or None.
    Two spellings: a `for` loop around the construction, or `<source>.map(|_| placeholder)` consumed by extend/collect."""
    nx = enclosing_loop_next(b, c.bb)
    if nx is not None:
        done = None
        for sb, arms, other in flow.switch_on(b, nx.dest["l"]):
            if arms.get("0") is not None:
                done = arms.get("0")
        return b, nx.args[0], done, nx.bb
    if b.kind == "Closure":
        P = F.parent_body(b)
        if P is None:
            return None
        cl = None
        for bi, blk in enumerate(P.blocks):
            for st in blk["st"]:
                if st["s"] == "assign" and st["rv"]["k"] == "agg" and st["rv"].get("def") == b.path:
                    cl = st["pl"]["l"]
        if cl is None:
            return None
        holders = follow_value(P, cl)
        for m in P.calls_to(r"^std::iter::Iterator::map$"):
            pa = op_place(m.args[1])
            if pa is None or pa["l"] not in holders:
                continue
            res = follow_value(P, m.dest["l"])
            for cons in P.calls_to(r"Extend<.*>>::extend$|^std::iter::Extend::extend$|^std::iter::Iterator::collect$|Vec::<.*>::extend$"):
                if any(op_place(a) is not None and op_place(a)["l"] in res for a in cons.args):
                    return P, m.args[0], cons.target, cons.bb
    return None


def r1_sized_by_request(ctx):
    F, R = ctx.F, ctx.R
    tr = ctx.tracer(follow_callers=False, follow_fields=False, stop_at_call=r"next_batch_id_range$|generate_batch_id_range$")
    n = 0
    for label, pat in (("http", HTTP), ("ws", PBR)):
        body = F.one(pat)
        R.fn(body)
        ph = _placeholder_pushes(F, body)
        if not ph:
            R.anchor_lost("C12.R1", "placeholder construction (ErrorObject::borrowed(0, ..)) in %s" % body.path)
            continue
        for b, c in ph:
            n += 1
            key = "%s:placeholders" % label
            it = _iteration(F, body, b, c)
            if it is None:
                R.bad("C12.R1", key, "placeholders in %s are not created by iterating over the request's id range" % short(b.path), where(c))
                continue
            b, src_op, _done, loop_bb = it
            leaves = tr.origins(b, src_op)
            ok = False
            why = []
            for lf in leaves:
                if lf.kind == "call" and re.search(r"next_batch_id_range$|generate_batch_id_range$", lf.detail["callee"] or ""):
                    ok = True
                elif lf.kind == "param":
                    # a range parameter: accepted when it was validated as the key of a pending batch before the loop
                    pl = lf.detail["idx"]
                    val = [v for v in b.calls_to(r"RequestManager::complete_pending_batch$") if any(l.kind == "param" and l.detail["idx"] == pl for l in tr.origins(b, v.args[1]))]
                    good = False
                    for v in val:
                        for sb, arms, other in flow.switch_on(b, v.dest["l"]):
                            st = arms.get("1")
                            if st is not None and b.dominates(st, loop_bb):
                                good = True
                    if good:
                        ok = True
                    else:
                        why.append("range parameter `%s` is not validated against the pending batch before sizing the result" % lf.detail.get("name"))
                elif lf.kind in ("len",) or (lf.kind == "call" and re.search(r"::len$", lf.detail["callee"] or "")):
                    why.append("sized by the length of the reply")
                elif lf.kind == "agg":
                    # e.g. 0..rps.len(): look into the operands
                    wb = F.bodies[lf.where]
                    for o in lf.detail["ops"]:
                        for l2 in tr.origins(wb, o):
                            if l2.kind == "len" or (l2.kind == "call" and re.search(r"::len$", l2.detail["callee"] or "")):
                                why.append("sized by the length of the reply (%s)" % flow.leaf_str(l2))
                            elif l2.kind == "const":
                                pass
                            else:
                                why.append("sized by %s" % flow.leaf_str(l2))
                else:
                    why.append("sized by %s" % flow.leaf_str(lf))
            if why or not ok:
                R.bad("C12.R1", key, "%s client: result slots are %s; a short reply then yields a shorter result list" % (label, "; ".join(sorted(set(why))) or "not sized by the request's id range"), where(c))
            else:
                R.ok("C12.R1", key, "%s client: one placeholder per id of the request's range" % label, where(c))
    R.floor("C12.R1", n, 2, "placeholder loops (one per client)")
    # the result handed back is always the slot vector: every emission is dominated by the completed placeholder loop
    for label, pat, emit in (("http", HTTP, r"client::BatchResponse::<'.*>::new$"), ("ws", PBR, r"oneshot::Sender::<.*>::send$")):
        body = F.one(pat)
        ph = _placeholder_pushes(F, body)
        exits = []
        for b, c in ph:
            it = _iteration(F, body, b, c)
            if it is not None and it[0].path == body.path and it[2] is not None:
                exits.append(it[2])
        ems = body.calls_to(emit)
        R.check(bool(ems), "C12.R1", "%s:emission-site" % label, "%s client hands the result back" % label, "no result emission found in %s" % short(body.path), "%s:%d" % (body.file, body.lo))
        for e in ems:
            ok = any(body.dominates(x, e.bb) for x in exits)
            R.check(ok, "C12.R1", "%s:result-is-slot-vector#%d" % (label, sorted(x.bb for x in ems).index(e.bb)), "the result handed back went through the per-request placeholder slots", "%s client can hand back a result that did not go through the per-request slots (a path around the placeholder loop): with a repeated or missing id an entry is then filled with another entry's answer" % label, where(e))


def r2_slot_index(ctx):
    F, R = ctx.F, ctx.R
    tr = ctx.tracer(follow_callers=False, follow_fields=False)
    n = 0
    for label, pat in (("http", HTTP), ("ws", PBR)):
        body = F.one(pat)
        bodies = F.nested(body)
        subs = []   # (body, id operand, start operand, where): checked_sub calls and plain subtractions under an `id >= start` guard
        gets = []
        for b in bodies:
            for c in b.calls_to(r"^core::num::<impl u64>::checked_sub$"):
                subs.append((b, c.args[0], c.args[1], where(c)))
            gets += [(b, c) for c in b.calls_to(r"^core::slice::<impl \[T\]>::get_mut$|^std::vec::Vec::<.*>::get_mut$|^core::slice::<impl \[T\]>::get$")]
            # no *unguarded* plain subtraction, no indexing operator on the slot vector
            for bi, blk in enumerate(b.blocks):
                if blk.get("cleanup") or bi not in b.reachable:
                    continue
                for st in blk["st"]:
                    if st["s"] == "assign" and st["rv"]["k"] == "bin" and st["rv"]["op"].startswith("Sub") and not st["sp"][2] and _involves_reply_id(tr, b, st["rv"]):
                        if sub_is_guarded(b, bi, st["rv"]):
                            subs.append((b, st["rv"]["a"], st["rv"]["b"], "%s:%d" % (b.file, st["sp"][0])))
                        else:
                            R.bad("C12.R2", "%s:plain-sub" % label, "%s client computes an index with a plain subtraction that no `id >= start` test protects (a foreign id below the range start underflows)" % label, "%s:%d" % (b.file, st["sp"][0]))
            for c in b.calls_to(r"^std::ops::IndexMut::index_mut$|^std::ops::Index::index$"):
                if (c.self_ty or "").startswith("std::vec::Vec<") and not c.exp:
                    R.bad("C12.R2", "%s:indexing" % label, "%s client indexes the slot vector with [] (a foreign id panics instead of failing the call)" % label, where(c))
        if not subs or not gets:
            R.bad("C12.R2", "%s:checked-slot" % label, "%s client: slot computation is not a checked/guarded subtraction + get_mut (found %d subtraction(s), %d get_mut)" % (label, len(subs), len(gets)), "%s:%d" % (body.file, body.lo))
            continue
        for b, oa, ob, wh in subs:
            n += 1
            la = tr.origins(b, oa)
            ok_id = any(l.kind == "call" and re.search(r"try_parse_inner_as_number$", l.detail["callee"] or "") for l in la)
            R.check(ok_id, "C12.R2", "%s:index-from-element-id" % label, "slot index is computed from the reply element's own id", "the slot index does not come from the reply element's id: %s" % [flow.leaf_str(l) for l in la], wh)
            lb = tr.origins(b, ob)
            ok_start = any((l.kind == "field" and l.detail["fields"][-1][1] == "start") or "start" in " ".join(l.chain) for l in lb)
            R.check(ok_start, "C12.R2", "%s:index-relative-to-start" % label, "slot index is relative to the range start", "the slot index is not relative to the id range's start: %s" % [flow.leaf_str(l) for l in lb], wh)
        # a miss is an error
        miss = []
        for b in bodies:
            for bi, blk in enumerate(b.blocks):
                for st in blk["st"]:
                    if st["s"] == "assign" and st["rv"]["k"] == "agg" and st["rv"].get("variant") == "NotPendingRequest":
                        miss.append((b, bi))
        R.check(bool(miss), "C12.R2", "%s:miss-is-error" % label, "an id outside the batch fails the call (NotPendingRequest)", "%s client no longer fails the call for an id outside the batch" % label, "%s:%d" % (body.file, body.lo))
    R.floor("C12.R2", n, 2, "checked/guarded slot computations")


def _involves_reply_id(tr, b, rv):
    for o in (rv["a"], rv["b"]):
        for l in tr.origins(b, o):
            if l.kind == "call" and re.search(r"try_parse_inner_as_number$|::id$", l.detail["callee"] or ""):
                return True
    return False


def r3_range_and_zip(ctx):
    F, R = ctx.F, ctx.R
    g = F.one(r"^jsonrpsee_core::client::generate_batch_id_range$")
    R.fn(g)
    ca = g.calls_to(r"checked_add$")
    R.check(bool(ca), "C12.R3", "range:checked_add", "the id range end is computed with checked_add", "generate_batch_id_range no longer uses checked_add", "%s:%d" % (g.file, g.lo))
    for bi, blk in enumerate(g.blocks):
        if blk.get("cleanup"):
            continue
        for st in blk["st"]:
            if st["s"] == "assign" and st["rv"]["k"] == "bin" and st["rv"]["op"].startswith(("Add", "Sub", "Mul")) and not st["sp"][2]:
                R.bad("C12.R3", "range:plain-arith", "generate_batch_id_range uses unchecked arithmetic (%s)" % st["rv"]["op"], "%s:%d" % (g.file, st["sp"][0]))
    tr = ctx.tracer(follow_callers=False, follow_fields=False, stop_at_call=r"next_batch_id_range$|generate_batch_id_range$")
    n = 0
    for label, pat in (("http", HTTP), ("ws", WSCL)):
        body = F.one(pat)
        R.fn(body)
        zips = body.calls_to(r"^std::iter::Iterator::zip$")
        ok = False
        for z in zips:
            lv = tr.origins(body, z.args[1])
            if any(l.kind == "call" and re.search(r"next_batch_id_range$|generate_batch_id_range$", l.detail["callee"] or "") for l in lv):
                ok = True
        n += 1
        R.check(ok, "C12.R3", "%s:ids-from-zip" % label, "request entries take their ids from zip(id_range)", "%s client does not assign entry ids from the reserved id range" % label, "%s:%d" % (body.file, body.lo))
        # the Request.id aggregate operand comes from the zip element via into_id
        reqs = []
        for bi, blk in enumerate(body.blocks):
            for st in blk["st"]:
                if st["s"] == "assign" and st["rv"]["k"] == "agg" and st["rv"].get("adt", "").endswith("::Request") and "id" in st["rv"]["fields"]:
                    reqs.append(st)
        for st in reqs:
            op = st["rv"]["ops"][st["rv"]["fields"].index("id")]
            lv = tr.origins(body, op)
            ok2 = any(l.kind == "call" and re.search(r"IdKind::into_id$", l.detail["callee"] or "") for l in lv)
            R.check(ok2, "C12.R3", "%s:entry-id-into_id" % label, "entry id = id_kind.into_id(<range element>)", "a batch entry's id is not derived from the range element: %s" % [flow.leaf_str(l) for l in lv], "%s:%d" % (body.file, st["sp"][0]))
            for l in lv:
                if l.kind == "call" and re.search(r"IdKind::into_id$", l.detail["callee"] or ""):
                    l2 = tr.origins(body, l.detail["args"][1])
                    ok3 = any(x.kind == "call" and re.search(r"Iterator.*::next$", x.detail["callee"] or "") for x in l2) or any("next" in " ".join(x.chain) for x in l2)
                    R.check(ok3, "C12.R3", "%s:entry-id-from-loop-element" % label, "into_id's argument is the loop's range element", "into_id's argument is not the zip element: %s" % [flow.leaf_str(x) for x in l2], "%s:%d" % (body.file, st["sp"][0]))
    R.floor("C12.R3", n, 2, "clients")
    # WS: the pending batch is keyed by the same range (IsBatch.id_range)
    ws = F.one(WSCL)
    isb = []
    for bi, blk in enumerate(ws.blocks):
        for st in blk["st"]:
            if st["s"] == "assign" and st["rv"]["k"] == "agg" and st["rv"].get("adt", "").endswith("IsBatch"):
                isb.append(st)
    R.check(bool(isb), "C12.R3", "ws:IsBatch", "the async client tags the batch with IsBatch{id_range}", "the async client no longer tags the batch with its id range", "%s:%d" % (ws.file, ws.lo))
    for st in isb:
        lv = tr.origins(ws, st["rv"]["ops"][0])
        ok = any(l.kind == "call" and re.search(r"next_batch_id_range$|generate_batch_id_range$", l.detail["callee"] or "") for l in lv)
        R.check(ok, "C12.R3", "ws:IsBatch-range", "IsBatch.id_range is the reserved range", "IsBatch.id_range is not the reserved id range: %s" % [flow.leaf_str(l) for l in lv], "%s:%d" % (ws.file, st["sp"][0]))


def r4_counts(ctx):
    F, R = ctx.F, ctx.R
    # counters must not be incremented inside the loop over the reply elements where slots are assigned (HTTP client)
    body = F.one(HTTP)
    bodies = F.nested(body)
    bad = []
    for b in bodies:
        subs = b.calls_to(r"^core::num::<impl u64>::checked_sub$")
        for s in subs:
            nx = enclosing_loop_next(b, s.bb)
            if nx is None:
                continue
            for bi, blk in enumerate(b.blocks):
                if blk.get("cleanup") or bi not in b.reachable:
                    continue
                if not (b.dominates(nx.bb, bi) and b.can_reach(bi, nx.bb)):
                    continue
                for st in blk["st"]:
                    if st["s"] == "assign" and st["rv"]["k"] == "bin" and st["rv"]["op"].startswith("Add") and not st["sp"][2]:
                        ca = op_const(st["rv"]["b"])
                        if ca and ca.get("int") == "1":
                            bad.append((b, st))
    R.check(not bad, "C12.R4", "http:counts-not-per-reply-element", "success/failure counters are not incremented per reply element", "HTTP client increments a counter per reply element (a repeated id is counted twice, an unanswered entry never)", "%s:%d" % (body.file, bad[0][1]["sp"][0] if bad else body.lo))


def r5_allocator(ctx):
    F, R = ctx.F, ctx.R
    tr = ctx.tracer(follow_callers=False, follow_fields=False)
    n = 0
    for label, pat in (("http", HTTP), ("ws", WSCL)):
        body = F.one(pat)
        res = body.calls_to(r"RequestIdManager::next_batch_id_range$")
        single = body.calls_to(r"RequestIdManager::next_request_id$")
        n += 1
        R.check(bool(res) and not single, "C12.R5", "%s:reserves-range" % label, "batch ids are reserved from the allocator as a range", "%s client derives batch ids arithmetically from a single allocator step: the following request reuses an id of the pending batch" % label, "%s:%d" % (body.file, body.lo))
    nb = F.one(r"^jsonrpsee_core::client::RequestIdManager::next_batch_id_range$")
    R.fn(nb)
    calls = nb.calls_to(r"CurrentId::next_n$")
    R.check(bool(calls), "C12.R5", "next_batch_id_range:advances-by-len", "next_batch_id_range advances the allocator", "next_batch_id_range does not advance the allocator by the batch length", "%s:%d" % (nb.file, nb.lo))
    for c in calls:
        lv = tr.origins(nb, c.args[1])
        ok = any(l.kind == "param" and l.detail["idx"] == 2 for l in lv)
        R.check(ok, "C12.R5", "next_batch_id_range:len-arg", "the allocator is advanced by the batch length", "the allocator is not advanced by the batch length parameter: %s" % [flow.leaf_str(l) for l in lv], where(c))
    nn = F.one(r"^jsonrpsee_core::client::CurrentId::next_n$")
    fa = nn.calls_to(r"atomic::Atomic.*::fetch_add$")
    R.check(bool(fa), "C12.R5", "next_n:fetch_add", "ids are issued by one atomic fetch_add", "CurrentId::next_n is not a single atomic fetch_add", "%s:%d" % (nn.file, nn.lo))
    for c in fa:
        lv = tr.origins(nn, c.args[1])
        ok = lv and all(l.kind == "param" and l.detail["idx"] == 2 for l in lv)
        R.check(bool(ok), "C12.R5", "next_n:advance-amount", "fetch_add advances by n", "fetch_add does not advance by the requested amount: %s" % [flow.leaf_str(l) for l in lv], where(c))
    R.floor("C12.R5", n, 2, "clients")



def r6_exact_id_number(ctx):
    """the id -> slot mapping is exact: Id::try_parse_inner_as_number yields the Number payload itself or the result of an
    integer parse of the string; nothing lossy (float parse, `as` casts, saturating/wrapping conversions) sits in between,
    otherwise a foreign id ("-1", "0.9", "2.7") lands on a slot of the batch"""
    F, R = ctx.F, ctx.R
    f = F.one(r"^jsonrpsee_types::params::Id::<'_>::try_parse_inner_as_number$")
    bodies = F.nested(f)
    for b in bodies:
        R.fn(b)
    floats = []
    casts = []
    parses = []
    for b in bodies:
        for l, d in enumerate(b.locals):
            if re.search(r"\bf(32|64)\b", d["ty"]):
                floats.append((b, l))
        for bi, blk in enumerate(b.blocks):
            if blk.get("cleanup"):
                continue
            for st in blk["st"]:
                if st["s"] == "assign" and st["rv"]["k"] == "cast" and st["rv"].get("ck") in ("FloatToInt", "IntToFloat", "IntToInt", "FloatToFloat"):
                    casts.append((b, st))
        for c in b.calls_to(r"str::<impl str>::parse$|FromStr>::from_str$|from_str_radix$"):
            parses.append((b, c))
    R.check(not floats and not casts, "C12.R6", "no-lossy-conversion", "no float value and no numeric `as` cast in try_parse_inner_as_number", "Id::try_parse_inner_as_number converts through %s: a string id that is not a plain integer (\"-1\", \"0.9\", \"2.7\", \"nan\") is mapped onto a valid slot number instead of being rejected" % (["f32/f64 local in %s" % short(b.path) for b, _ in floats][:2] + ["`as` cast (%s) at line %d" % (st["rv"].get("ck"), st["sp"][0]) for _, st in casts][:2]), "%s:%d" % (f.file, f.lo))
    R.check(len(parses) >= 1 and all(c.ga and c.ga[-1] in ("u64",) for _, c in parses), "C12.R6", "parse-is-u64", "string ids are parsed as u64 only", "string ids are parsed as %s" % [c.ga for _, c in parses], "%s:%d" % (f.file, f.lo))
    # the Number arm returns the payload unchanged
    tr = ctx.tracer(follow_callers=False, follow_fields=False, inline_calls=False)
    oks = [(bi, st) for bi, blk in enumerate(f.blocks) for st in blk["st"] if st["s"] == "assign" and st["pl"]["l"] == 0 and st["rv"]["k"] == "agg" and st["rv"].get("variant") == "Ok"]
    for bi, st in oks:
        lv = tr.origins(f, st["rv"]["ops"][0])
        R.check(bool(lv) and all(l.kind == "field" for l in lv), "C12.R6", "number-arm-identity", "Id::Number(n) yields n", "the Number arm yields %s" % [flow.leaf_str(l) for l in lv], "%s:%d" % (f.file, st["sp"][0]))


def r7_batch_key_is_whole_range(ctx):
    """a pending batch is found by its whole id range: the table operations of insert_pending_batch /
    complete_pending_batch are keyed by the range parameter itself, not by a part of it (start only): the sizing of the
    result list relies on reply range == request range"""
    F, R = ctx.F, ctx.R
    tr = ctx.tracer(follow_callers=False, follow_fields=False, inline_calls=False)
    n = 0
    for name in ("insert_pending_batch", "complete_pending_batch"):
        m = F.one(r"^jsonrpsee_core::client::async_client::manager::RequestManager::%s$" % name)
        R.fn(m)
        ops = m.calls_to(r"HashMap::<.*>::(entry|remove|remove_entry|get|get_mut|contains_key|insert)$")
        for c in ops:
            n += 1
            lv = tr.origins(m, c.args[1])
            ok = bool(lv) and all(l.kind == "param" and "Range<u64>" in (l.detail.get("ty") or "") for l in lv)
            R.check(ok and c.ga and "Range<u64>" in c.ga[0], "C12.R7", "%s:%s-key" % (name, c.name().split("::")[-1]), "%s keys the pending-batch table by the whole id range" % name, "%s keys the pending-batch table by %s (table key type %s), not by the whole id range: a reply covering only part of the batch completes it and a shorter list is returned" % (name, [flow.leaf_str(l) for l in lv], c.ga[:1]), where(c))
    R.floor("C12.R7", n, 2, "pending-batch table operations")



def r8_frontend_keeps_positions(ctx, rule="C12.R8"):
    """the async client's front end turns the positional slot vector into the result list one entry per slot: in the loop
    over the slots every way round the loop appends exactly one entry to the result (or leaves the function with an
    error) - a branch that appends nothing shifts all later results down by one"""
    F, R = ctx.F, ctx.R
    b = F.one(WSCL)
    R.fn(b)
    loops = [c for c in b.calls if c.callee == "std::iter::Iterator::next" and c.dest and "RawResponse" in b.locals[c.dest["l"]]["ty"]]
    if len(loops) != 1:
        raise AnchorLost("the loop over the batch's slots in the async client's batch_request (found %d)" % len(loops))
    nx = loops[0]
    some_t = None
    for sb, arms, other in flow.switch_on(b, nx.dest["l"]):
        some_t = arms.get("1")
    if some_t is None:
        raise AnchorLost("Some arm of the slot loop")
    pushes = [c for c in b.calls_to(r"Vec::<.*>::push$") if b.dominates(some_t, c.bb) and b.can_reach(c.bb, nx.bb)]
    R.floor(rule, len(pushes), 1, "result appends in the slot loop")
    pb = {c.bb for c in pushes}
    every = flow.all_paths_pass(b, some_t, pb, {nx.bb}) and some_t != nx.bb
    R.check(every, rule, "ws:every-slot-yields-an-entry", "every way round the slot loop appends an entry", "the async client's batch_request can go round its slot loop without appending an entry: the result list gets shorter and every later entry moves to the previous position", where(nx))
    twice = [c for c in pushes if (b.reach_from(c.bb, avoid={nx.bb}) - {c.bb}) & pb]
    R.check(not twice, rule, "ws:one-entry-per-slot", "no way round the loop appends twice", "a slot can append two entries", where(twice[0]) if twice else None)
    # ... and every appended entry is counted once: the success / failure counters are what into_ok() / ok() trust
    w = {bb: 1 for bb in pb}
    incs = 0
    for bi, blk in enumerate(b.blocks):
        if blk.get("cleanup") or bi not in b.reachable or not (b.dominates(some_t, bi) and b.can_reach(bi, nx.bb)):
            continue
        for st in blk["st"]:
            if st["s"] == "assign" and st["rv"]["k"] == "bin" and st["rv"]["op"] in ("Add", "AddWithOverflow", "AddUnchecked"):
                k = op_const(st["rv"]["b"]) or op_const(st["rv"]["a"])
                if k is not None and str(k.get("int")) == "1":
                    w[bi] = w.get(bi, 0) - 1
                    incs += 1
    pc = flow.path_counts(b, some_t, w, stop={nx.bb})
    R.paths_enumerated += 1
    R.check(incs >= 1 and pc == (0, 0), rule, "ws:every-entry-counted-once", "every way round the slot loop counts the entry it appends exactly once", "the async client's batch_request can append an entry without counting it (or count without appending) (appends minus counter increments along the ways round the loop: %s): num_failed_calls()/into_ok() then disagree with the entries - a failed entry is dropped and later values shift" % (pc,), where(nx))



SHAPE_OPS = (r"Iterator::(filter|filter_map|skip|take|step_by|rev|flat_map|flatten|take_while|skip_while|map_while|dedup\w*|zip|chain|peekable|scan)$|"
             r"Vec::<.*>::(retain|retain_mut|dedup\w*|sort\w*|reverse|truncate|remove|swap_remove|drain|pop|insert|split_off|swap)$|slice::<impl \[T\]>::(sort\w*|reverse|swap|rotate_\w+)$")


def r9_slot_vector_travels_untouched(ctx):
    """between process_batch_response (which builds the positional slot vector, placeholders included) and the front end
    (R8) the vector is only handed on: the client's innermost service (async_client::rpc_service::RpcService::batch)
    neither filters, reorders nor rebuilds it - a filter drops the placeholder slots (their id is null) and every later
    answer moves to an earlier position"""
    F, R = ctx.F, ctx.R
    n = 0
    bad = []
    for b in F.find(r"async_client::rpc_service::RpcService as jsonrpsee_core::middleware::RpcServiceT>::batch"):
        for x in F.nested(b):
            n += 1
            R.fn(x)
            bad += [(x, c) for c in x.calls_to(SHAPE_OPS) if not c.exp]
    if not n:
        raise AnchorLost("async_client::rpc_service::RpcService::batch")
    R.check(not bad, "C12.R9", "ws:service-hands-slots-on", "RpcService::batch hands the slot vector on untouched", "the async client's RpcService::batch reshapes the result vector (%s): placeholder slots of unanswered entries are dropped or moved, the list gets shorter and later answers shift" % sorted({short(c.name() or "") for _, c in bad}), where(bad[0][1]) if bad else None)



def _borrowed(modname, fname):
    def run(ctx):
        import importlib
        mod = importlib.import_module("jrsa.rules." + modname)
        return getattr(mod, fname)(ctx)
    run.__name__ = "%s_%s" % (modname, fname)
    return run


# "the i-th being the outcome (value or error object) of the i-th request; success/failure counts match": what a reply
# element is taken for is decided by the Response parser's acceptance table (C15.R4/R5)
BORROWED = [_borrowed("c15", "r4_duplicate_guards"), _borrowed("c15", "r5_acceptance_table")]



def ratomic_ids_reserved_atomically(ctx):
    """two calls in flight never share a request id (ids are reserved with one atomic fetch_add)"""
    from .common import request_ids_reserved_atomically
    request_ids_reserved_atomically(ctx, "C12.ATOMIC")



def r10_ok_views_agree_with_the_entries(ctx):
    """BatchResponse::into_ok / ok hand out the plain values only when no entry failed: both are evaluated as decision
    tables over concrete entry lists ([Ok,Ok] -> Ok; [Ok,Err], [Err,Ok], [Err,Err] -> Err) with consistent counters."""
    from ..interp import Interp, Enum, Struct, Ref, Sym, ListVal, Unsupported
    F, R = ctx.F, ctx.R
    OKV = lambda v: Enum("std::result::Result", 0, "Ok", [v])
    ERRV = lambda v: Enum("std::result::Result", 1, "Err", [v])
    adt = F.adt("jsonrpsee_core::client::BatchResponse")
    if adt is None:
        raise AnchorLost("ADT BatchResponse")
    fields = [f["n"] for f in adt["variants"][0]["fields"]]
    for nm, by_ref in (("into_ok", False), ("ok", True)):
        b = F.one(r"^jsonrpsee_core::client::BatchResponse::<'a, R>::%s$" % nm)
        R.fn(b)
        for label, entries in (("all-ok", [OKV(Sym("a")), OKV(Sym("b"))]), ("first-failed", [ERRV(Sym("e")), OKV(Sym("b"))]), ("last-failed", [OKV(Sym("a")), ERRV(Sym("e"))]), ("all-failed", [ERRV(Sym("e")), ERRV(Sym("f"))])):
            nfail = sum(1 for e in entries if e.vname == "Err")
            vals = {"successful_calls": len(entries) - nfail, "failed_calls": nfail, "responses": ListVal(entries)}
            me = Struct("BatchResponse", [vals.get(f, Sym(f)) for f in fields], fields)
            try:
                got = Interp(F, default_sym=True, opaque_calls=True).run(b, [Ref([me]) if by_ref else me])
            except Unsupported as e:
                raise AnchorLost("BatchResponse::%s is not a plain decision over its entries / counters any more (%s)" % (nm, e))
            want = "Ok" if nfail == 0 else "Err"
            R.check(isinstance(got, Enum) and got.vname == want, "C12.R10", "%s:%s" % (nm, label), "BatchResponse::%s with %s -> %s" % (nm, label, want), "BatchResponse::%s with entries %s yields %r (expected %s): a batch with a failed or unanswered entry hands out a shorter, shifted list of plain values" % (nm, label, got, want), "%s:%d" % (b.file, b.lo))


def r11_reply_ids_are_not_rewritten(ctx):
    """results are slotted by the id each reply object carries: between the wire and the slotting code nothing assigns to a
    response's `id` (re-labelling an id-less answer `by position` attributes it to whichever call happens to sit at that
    index - another entry's answer is overwritten or a foreign object is handed out as an entry's result)."""
    F, R = ctx.F, ctx.R
    n = 0
    bad = []
    for b in F.real_bodies():
        if is_test_body(b) or not re.search(r"^<?jsonrpsee_(http_client|core::client|client_transport)", b.path):
            continue
        n += 1
        for bi, blk in enumerate(b.blocks):
            if blk.get("cleanup") or bi not in b.reachable:
                continue
            for st in blk["st"]:
                if st["s"] != "assign":
                    continue
                pp = st["pl"].get("p", [])
                fs = [e for e in pp if isinstance(e, dict) and "f" in e]
                if fs and fs[-1].get("n") == "id" and re.search(r"Response<", b.locals[st["pl"]["l"]]["ty"]):
                    bad.append((b, st["sp"][0]))
    for b, line in bad:
        R.fn(b)
        R.bad("C12.R11", "%s:assigns-response-id" % fkey(b), "%s assigns to the `id` of a response object: an answer is re-labelled before it is slotted, so it can fill (or overwrite) an entry it does not answer" % short(b.path), "%s:%d" % (b.file, line))
    if not bad:
        R.ok("C12.R11", "no-id-rewrite", "no assignment to a response's id in %d client bodies" % n)
    R.floor("C12.R11", n, 200, "client bodies scanned")


def rkeys_manager_keys_not_derived(ctx):
    """a pending batch is found through the ids of the reply at hand, never by scanning for `the oldest` / `the only` one"""
    from .common import manager_keys_not_derived
    manager_keys_not_derived(ctx, "C12.KEYS")


RULES = [r11_reply_ids_are_not_rewritten, r10_ok_views_agree_with_the_entries, rkeys_manager_keys_not_derived, ratomic_ids_reserved_atomically, r1_sized_by_request, r2_slot_index, r3_range_and_zip, r4_counts, r5_allocator, r6_exact_id_number, r7_batch_key_is_whole_range, r8_frontend_keeps_positions, r9_slot_vector_travels_untouched] + BORROWED

LEVEL_TEXT = (
    "Structural necessary conditions for positional batch results, decided from the type-checked program for both "
    "clients as sibling implementations: what the result vector is sized by, how a reply id becomes a slot (checked, "
    "bounded, relative to the range start), how ids are reserved and assigned. A violation of any of these yields a "
    "concrete reply (short, foreign id, repeated id, overlapping ids) on which the behaviour is wrong."
)
LEVEL_NOTE = "Trusted: rustc MIR; std collections and atomics. Not decided: the permutation behaviour itself."
TECHNIQUE = "MIR origin tracing + loop/dominance structure, sibling cross-check of the two clients"

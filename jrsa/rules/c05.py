"""C05 — client subscription stream: classifier agreement, routing chain, lag handling, single unsubscribe."""
import re

from .common import fkey, where, short, arg_is_local, enclosing_loop_next, follow_value, block_line, terminal_field, CORE
from ..facts import op_place, op_const, AnchorLost, is_test_body
from .. import flow

PID = "C05"
LEVEL = "other"
EXPLANATION = (
    'Static analysis over MIR of the async client. Decided: R1 the ordered list of deserialisation targets tried for '
    'a single `{` message equals the list tried for each element of a `[` message, every single-message attempt '
    'parses the whole message and every element attempt parses the loop element (never the enclosing array); R2 a '
    'subscription notification is routed sink <- as_subscription_mut(request id) <- '
    "get_request_id_by_subscription_id(sub id) <- the notification's own params.subscription, and the payload sent is "
    'its params.result; R3 SubscriptionSender::send maps Full to set_lagged + TooSlow and Closed to Closed, and both '
    'failure arms of process_subscription_response return Some(that subscription id) which the caller turns into '
    'FrontToBack::SubscriptionClosed; R4 unsubscribe requests are built only by build_unsubscribe_message, behind '
    'RequestManager::unsubscribe(..)? (which removes the reverse-index entry on its only mutating path), and '
    'Subscription::{unsubscribe,drop} take the kind with Option::take and enqueue exactly one message. R5 the read '
    'task forwards SubscriptionClosed/unsubscribe messages with the waiting send (parked as pending future), never '
    'try_send, and try_send on the request queue appears only in Drop for Subscription; R6 RequestManager::insert_* '
    'cannot refuse after having changed a table and never overwrite blindly; ARR the array arm processes every '
    'element. NOT decided: ordering under every schedule, buffer arithmetic.'
)
RULE_TEXT = "instances = classifier attempts, routing steps, failure arms, unsubscribe construction sites"
TRUSTED = ["rustc MIR", "tokio mpsc FIFO and try_send semantics", "serde_json"]
ASSUMPTIONS = ["single consumer of the per-subscription channel"]

HRM = r"^jsonrpsee_core::client::async_client::handle_backend_messages::handle_recv_message$"


def _norm_ty(t):
    t = re.sub(r"'[a-z_]+", "'_", t)
    return t


def _classifier_calls(body):
    out = []
    for c in body.calls_to(r"^serde_json::(de::)?(from_slice|from_str)$"):
        if len(c.ga) < 2:
            continue
        tgt = c.ga[-1]
        if not tgt.startswith("jsonrpsee_types::"):
            continue
        out.append(c)
    return out


def r1_classifier_agreement(ctx):
    from .common import client_message_handlers
    F, R = ctx.F, ctx.R
    fam = client_message_handlers(F)
    b = fam[0]
    tr = ctx.tracer(follow_callers=False, follow_fields=False)
    single, elem, other = [], [], []
    for hb in fam:
        R.fn(hb)
        for c in _classifier_calls(hb):
            lv = tr.origins(hb, c.args[0])
            kinds = set()
            for l in lv:
                if l.kind == "param" and l.detail["idx"] == 1:
                    kinds.add("whole")
                elif l.kind == "call" and re.search(r"RawValue::get$", l.detail["callee"] or ""):
                    # whose RawValue? must be the loop element
                    l2 = tr.origins(hb, l.detail["args"][0])
                    if any(x.kind == "call" and re.search(r"Iterator.*::next$|::next$", x.detail["callee"] or "") for x in l2) or any("next" in " ".join(x.chain) for x in l2):
                        kinds.add("element")
                    else:
                        kinds.add("other")
                else:
                    kinds.add("other")
            in_loop = enclosing_loop_next(hb, c.bb) is not None
            (elem if in_loop else single).append((c, kinds))
    R.floor("C05.R1", len(single) + len(elem), 8, "classifier attempts in handle_recv_message")

    def ordered(lst):
        # order along the else-if chain = dominance order (within the function the attempt lives in)
        return sorted(lst, key=lambda x: (fam.index(x[0].body), len(x[0].body.dom[x[0].bb])))

    s_types = [_norm_ty(c.ga[-1]) for c, _ in ordered(single)]
    e_types = [_norm_ty(c.ga[-1]) for c, _ in ordered(elem)]
    R.check(s_types == e_types, "C05.R1", "classifier-lists-agree", "single and array-element classification try the same %d types in the same order" % len(s_types), "a `{` message is classified as %s but an array element as %s" % ([short(t) for t in s_types], [short(t) for t in e_types]), "%s:%d" % (b.file, b.lo), {"single": s_types, "element": e_types})
    for c, kinds in single:
        R.check(kinds == {"whole"}, "C05.R1", "single:%s:input" % short(_norm_ty(c.ga[-1])), "single-message attempt parses the whole message", "a single-message attempt does not parse the message bytes (%s)" % sorted(kinds), where(c))
    for c, kinds in elem:
        R.check(kinds == {"element"}, "C05.R1", "element:%s:input" % short(_norm_ty(c.ga[-1])), "array-element attempt parses the loop element", "an array-element attempt parses %s instead of the element: a message of that kind packed in an array is never recognised" % ("the whole array" if "whole" in kinds else sorted(kinds)), where(c))
    # each successful attempt is handled by the same processor in both branches
    proc = {}
    for lst, label in ((single, "single"), (elem, "element")):
        for c, _ in lst:
            cb = c.body
            sws = flow.switch_on(cb, c.dest["l"])
            okb = None
            for sb, arms, other_ in sws:
                okb = arms.get("0", other_)
            handlers = set()
            if okb is not None:
                for h in cb.calls_to(r"async_client::helpers::process_|async_client::process_subscription_close_response$"):
                    if cb.dominates(okb, h.bb):
                        handlers.add(h.name().split("::")[-1])
            proc.setdefault(_norm_ty(c.ga[-1]), {})[label] = handlers
    for t, d in proc.items():
        if "single" in d and "element" in d:
            # a batch of responses is collected and processed after the loop, so Response may differ
            if "Response<" in t and "Notification" not in t:
                continue
            R.check(d["single"] == d["element"], "C05.R1", "handler:%s" % short(t), "%s handled by %s in both branches" % (short(t), sorted(d["single"])), "%s is handled by %s when alone but by %s inside an array" % (short(t), sorted(d["single"]), sorted(d["element"])), "%s:%d" % (b.file, b.lo))


def r2_routing(ctx):
    F, R = ctx.F, ctx.R
    b = F.one(r"^jsonrpsee_core::client::async_client::helpers::process_subscription_response$")
    R.fn(b)
    tr = ctx.tracer(follow_callers=False, follow_fields=False)
    sends = b.calls_to(r"SubscriptionSender::send$")
    R.floor("C05.R2", len(sends), 1, "sink sends in process_subscription_response")
    for s in sends:
        # sink <- as_subscription_mut(.., request_id)
        lv = tr.origins(b, s.args[0])
        asm = [l for l in lv if l.kind == "call" and re.search(r"RequestManager::as_subscription_mut$", l.detail["callee"] or "")]
        R.check(bool(asm), "C05.R2", "sink-from-as_subscription_mut", "the sink is the one registered for the request id", "the notification is sent to a sink that does not come from as_subscription_mut: %s" % [flow.leaf_str(l) for l in lv], where(s))
        for l in asm:
            l2 = tr.origins(b, l.detail["args"][1])
            rid = [x for x in l2 if x.kind == "call" and re.search(r"get_request_id_by_subscription_id$", x.detail["callee"] or "")]
            R.check(bool(rid), "C05.R2", "request-id-from-reverse-index", "the request id comes from the reverse index lookup", "as_subscription_mut's key does not come from get_request_id_by_subscription_id: %s" % [flow.leaf_str(x) for x in l2], where(s))
            for x in rid:
                l3 = tr.origins(b, x.detail["args"][1])
                ok = any(y.kind == "field" and [f[1] for f in y.detail["fields"]][-2:] == ["params", "subscription"] for y in l3)
                R.check(ok, "C05.R2", "lookup-key-is-own-sub-id", "the lookup key is the notification's own params.subscription", "the reverse lookup is not keyed by the notification's own subscription id: %s" % [flow.leaf_str(y) for y in l3], where(s))
        pv = tr.origins(b, s.args[1])
        okp = any(y.kind == "field" and [f[1] for f in y.detail["fields"]][-2:] == ["params", "result"] for y in pv)
        R.check(okp, "C05.R2", "payload-is-own-result", "the payload delivered is the notification's params.result", "the payload delivered is not the notification's own result: %s" % [flow.leaf_str(y) for y in pv], where(s))
    # nobody else writes to a subscription sink
    writers = set()
    for c in F.all_calls(r"RequestManager::as_subscription_mut$"):
        if c.body.crate == "jsonrpsee_core":
            writers.add(fkey(c.body))
    R.check(writers == {"jsonrpsee_core::client::async_client::helpers::process_subscription_response"}, "C05.R2", "single-writer", "only process_subscription_response obtains a subscription sink", "subscription sinks are obtained in %s" % sorted(writers), "%s:%d" % (b.file, b.lo))


def r3_lag_and_close(ctx):
    F, R = ctx.F, ctx.R
    snd = F.one(r"^jsonrpsee_core::client::SubscriptionSender::send$")
    R.fn(snd)
    ts = snd.calls_to(r"mpsc::Sender::<.*>::try_send$|mpsc::bounded::Sender::<.*>::try_send$")
    R.check(bool(ts), "C05.R3", "send:try_send", "delivery uses the bounded channel's try_send (never blocks the reader)", "SubscriptionSender::send no longer uses try_send", "%s:%d" % (snd.file, snd.lo))
    snd_all = F.nested(snd)   # the error mapping may live in a closure handed to map_err
    lag = [c for x in snd_all for c in x.calls_to(r"SubscriptionLagged::set_lagged$")]
    R.check(bool(lag), "C05.R3", "send:set_lagged", "a full buffer marks the subscription as lagged", "a full buffer no longer marks the subscription as lagged", "%s:%d" % (snd.file, snd.lo))
    # set_lagged only on the Full arm: the block building TooSlow is reached through it
    built = {}
    built_in = {}
    for x_ in snd_all:
        for bi, blk in enumerate(x_.blocks):
            for st in blk["st"]:
                if st["s"] == "assign" and st["rv"]["k"] == "agg" and st["rv"].get("adt", "").endswith("TrySubscriptionSendError"):
                    built[st["rv"]["variant"]] = bi
                    built_in[st["rv"]["variant"]] = x_
    R.check(set(built) == {"Closed", "TooSlow"}, "C05.R3", "send:error-kinds", "send reports Closed and TooSlow", "send builds error kinds %s" % sorted(built), "%s:%d" % (snd.file, snd.lo))
    for l in lag:
        if "TooSlow" in built:
            lb = l.body
            R.check(built_in["TooSlow"] is lb and lb.dominates(l.bb, built["TooSlow"]) and not ("Closed" in built and built_in["Closed"] is lb and lb.dominates(l.bb, built["Closed"])), "C05.R3", "send:lag-on-full-only", "set_lagged is on the Full arm only", "set_lagged is not confined to the Full arm", where(l))
    # process_subscription_response: both failure arms return Some(sub_id)
    b = F.one(r"^jsonrpsee_core::client::async_client::helpers::process_subscription_response$")
    tr = ctx.tracer(follow_callers=False, follow_fields=False)
    sends = b.calls_to(r"SubscriptionSender::send$")
    for s in sends:
        sws = flow.switch_on(b, s.dest["l"])
        err_t = None
        for sb, arms, other in sws:
            err_t = arms.get("1", other if "0" in arms else None)
        if err_t is None:
            R.anchor_lost("C05.R3", "match on SubscriptionSender::send's result")
            continue
        # every path from err_t to return assigns _0 = Some(sub_id)
        somes = []
        nones = []
        for bi in b.reach_from(err_t) | {err_t}:
            for st in b.blocks[bi]["st"]:
                if st["s"] == "assign" and st["pl"]["l"] == 0 and st["rv"]["k"] == "agg":
                    (somes if st["rv"]["variant"] == "Some" else nones).append((bi, st))
        dom_somes = [x for x in somes if b.dominates(err_t, x[0])]
        dom_nones = [x for x in nones if b.dominates(err_t, x[0])]
        R.check(len(dom_somes) >= 2 and not dom_nones, "C05.R3", "failed-send-closes", "both failed-delivery arms (Closed, TooSlow) return Some(sub_id)", "a failed delivery arm returns None: the subscription is neither closed nor unsubscribed (%d Some, %d None)" % (len(dom_somes), len(dom_nones)), where(s))
        for bi, st in dom_somes:
            lv = tr.origins(b, st["rv"]["ops"][0])
            ok = any(y.kind == "field" and [f[1] for f in y.detail["fields"]][-2:] == ["params", "subscription"] for y in lv)
            R.check(ok, "C05.R3", "closed-id-is-own@%d" % dom_somes.index((bi, st)), "the id reported for closing is the notification's own subscription id", "the id reported for closing is not the notification's subscription id", "%s:%d" % (b.file, st["sp"][0]))
    # caller turns it into FrontToBack::SubscriptionClosed(sub_id)
    from .common import client_message_handlers
    n_psr = 0
    n_cl = 0
    for h in client_message_handlers(F):
        cl = []
        for bi, blk in enumerate(h.blocks):
            for st in blk["st"]:
                if st["s"] == "assign" and st["rv"]["k"] == "agg" and st["rv"].get("variant") == "SubscriptionClosed":
                    cl.append((bi, st))
        n_psr += len(h.calls_to(r"helpers::process_subscription_response$"))
        n_cl += len(cl)
        # ... unconditionally: on the Some arm every path to the next element / the exit builds SubscriptionClosed
        through = {bi for bi, _ in cl}
        for c in h.calls_to(r"helpers::process_subscription_response$"):
            some_t = None
            for sb, arms, other in flow.switch_on(h, c.dest["l"]):
                some_t = arms.get("1")
            if some_t is None:
                R.anchor_lost("C05.R3", "match on process_subscription_response's result")
                continue
            targets = set(h.exits)
            nx = enclosing_loop_next(h, c.bb)
            if nx is not None:
                targets.add(nx.bb)
            ok = some_t in through or flow.all_paths_pass(h, some_t, through, targets)
            R.check(ok, "C05.R3", "close-forwarded-unconditionally@%s" % ("element" if nx is not None else "single"), "every returned subscription id is forwarded as SubscriptionClosed", "a subscription id returned for closing can be dropped without a SubscriptionClosed message (stream never ends, no unsubscribe)", where(c))
        for bi, st in cl:
            lv = tr.origins(h, st["rv"]["ops"][0])
            ok = any(y.kind == "call" and re.search(r"process_subscription_response$", y.detail["callee"] or "") for y in lv)
            R.check(ok, "C05.R3", "SubscriptionClosed-id@%s%d" % ("" if h is client_message_handlers(F)[0] else h.path.split("::")[-1] + ":", cl.index((bi, st))), "SubscriptionClosed carries the id returned by process_subscription_response", "SubscriptionClosed does not carry the returned subscription id", "%s:%d" % (h.file, st["sp"][0]))
    R.check(n_cl >= n_psr and n_psr >= 2, "C05.R3", "caller-emits-SubscriptionClosed", "each process_subscription_response site forwards the id as SubscriptionClosed", "%d process_subscription_response sites but %d SubscriptionClosed constructions" % (n_psr, n_cl), None)


def r4_single_unsubscribe(ctx):
    F, R = ctx.F, ctx.R
    tr = ctx.tracer(follow_callers=False, follow_fields=False)
    bum = F.one(r"^jsonrpsee_core::client::async_client::helpers::build_unsubscribe_message$")
    R.fn(bum)
    un = bum.calls_to(r"RequestManager::unsubscribe$")
    R.check(bool(un), "C05.R4", "build:guarded-by-unsubscribe", "build_unsubscribe_message goes through RequestManager::unsubscribe", "build_unsubscribe_message no longer goes through RequestManager::unsubscribe", "%s:%d" % (bum.file, bum.lo))
    # the request is built only after unsubscribe(..)? succeeded
    reqs = [(bi, st) for bi, blk in enumerate(bum.blocks) for st in blk["st"] if st["s"] == "assign" and st["rv"]["k"] == "agg" and st["rv"].get("adt", "").endswith("RequestMessage")]
    for u in un:
        cont = None
        for br in bum.calls_to(r"Try.*::branch$"):
            if arg_is_local(bum, br.args[0], u.dest["l"]):
                for sb, arms, other in flow.switch_on(bum, br.dest["l"]):
                    cont = arms.get("0")
        for bi, st in reqs:
            R.check(cont is not None and bum.dominates(cont, bi), "C05.R4", "build:after-unsubscribe-ok", "the unsubscribe request is built only when RequestManager::unsubscribe returned Some", "the unsubscribe request is built even when the subscription is not (or no longer) registered", "%s:%d" % (bum.file, st["sp"][0]))
    # parameter of the request = the subscription id returned by unsubscribe
    ins = bum.calls_to(r"ArrayParams::insert$")
    for c in ins:
        lv = tr.origins(bum, c.args[1])
        ok = any(l.kind == "call" and re.search(r"RequestManager::unsubscribe$", l.detail["callee"] or "") for l in lv) or any(l.kind == "param" and l.detail["idx"] == 3 for l in lv)
        R.check(ok, "C05.R4", "build:names-sub-id", "the unsubscribe request names that subscription id", "the unsubscribe request's parameter is not the subscription id: %s" % [flow.leaf_str(l) for l in lv], where(c))
    # RequestManager::unsubscribe removes the reverse-index entry
    mu = F.one(r"^jsonrpsee_core::client::async_client::manager::RequestManager::unsubscribe$")
    rem = [c for c in mu.calls_to(r"OccupiedEntry::<.*>::remove_entry$|OccupiedEntry::<.*>::remove$") if "SubscriptionId" in (c.self_ty or "") or "SubscriptionId" in " ".join(c.ga)]
    R.check(bool(rem), "C05.R4", "unsubscribe:removes-reverse-index", "RequestManager::unsubscribe removes the reverse-index entry (a second trigger finds nothing)", "RequestManager::unsubscribe keeps the reverse-index entry: a second close trigger sends a second unsubscribe", "%s:%d" % (mu.file, mu.lo))
    # who builds unsubscribe requests
    callers = {fkey(c.body) for c in F.all_calls(r"helpers::build_unsubscribe_message$") if c.body.crate == "jsonrpsee_core"}
    R.check(len(callers) >= 2, "C05.R4", "build:callers", "build_unsubscribe_message is used by %s" % sorted(callers), "build_unsubscribe_message has no callers", "%s:%d" % (bum.file, bum.lo))
    # Subscription::unsubscribe and Drop: take() + one message
    for pat, label, sendpat in (
        (r"^jsonrpsee_core::client::Subscription::<Notif>::unsubscribe::\{closure#0\}$", "unsubscribe", r"mpsc::.*Sender::<.*>::send$"),
        (r"^<jsonrpsee_core::client::Subscription<Notif> as std::ops::Drop>::drop$", "drop", r"mpsc::.*Sender::<.*>::try_send$"),
    ):
        b = F.one(pat)
        R.fn(b)
        take = [c for c in b.calls_to(r"Option::<.*>::take$")]
        snd = b.calls_to(sendpat)
        R.check(len(take) == 1, "C05.R4", "%s:take" % label, "Subscription::%s takes the kind out (a second call/drop finds None)" % label, "Subscription::%s does not take() the subscription kind: drop after unsubscribe sends a second message" % label, "%s:%d" % (b.file, b.lo))
        pc = flow.path_counts(b, 0, {c.bb: 1 for c in snd})
        R.check(pc is not None and pc[1] <= 1 and len(snd) == 1, "C05.R4", "%s:one-message" % label, "Subscription::%s enqueues at most one message on every path (%s)" % (label, pc), "Subscription::%s can enqueue %s messages" % (label, pc), "%s:%d" % (b.file, b.lo))
        for c in snd:
            lv = tr.origins(b, c.args[1])
            ok = any(l.kind == "agg" and l.detail.get("variant") in ("SubscriptionClosed", "UnregisterNotification") for l in lv)
            R.check(ok, "C05.R4", "%s:message-kind" % label, "the message is SubscriptionClosed/UnregisterNotification", "Subscription::%s sends %s" % (label, [flow.leaf_str(l) for l in lv]), where(c))


def r5_close_messages_are_not_lossy(ctx):
    """what the read task learns (a subscription lagged / closed -> SubscriptionClosed, an unsubscribe request to send) is
    forwarded to the send task with the waiting `send`, kept as a pending future until there is room - never with the
    lossy `try_send`; only the synchronous Drop of a Subscription may use try_send (the statement allows 'at most one'
    there)."""
    F, R = ctx.F, ctx.R
    tr = ctx.tracer(follow_callers=False, follow_fields=False)
    rt = F.one(r"^jsonrpsee_core::client::async_client::read_task::\{closure#0\}$")
    R.fn(rt)
    hb = rt.calls_to(r"async_client::handle_backend_messages$")
    if not hb:
        raise AnchorLost("handle_backend_messages call in read_task")
    lossy = [c for c in rt.calls_to(r"mpsc::.*Sender::<.*>::try_send$") if "FrontToBack" in " ".join(c.ga) + (c.self_ty or "") + rt.locals[op_place(c.args[0])["l"]]["ty"]]
    for c in lossy:
        R.bad("C05.R5", "read_task:lossy-forward", "the read task forwards a message to the send task with try_send: when the request queue is full the SubscriptionClosed/unsubscribe message is dropped, so a lagging or closed subscription never ends and no unsubscribe request is sent", where(c))
    sends = [c for c in rt.calls_to(r"mpsc::.*Sender::<.*>::send$") if "FrontToBack" in rt.locals[op_place(c.args[0])["l"]]["ty"]]
    pushed = rt.calls_to(r"MaybePendingFutures::<.*>::push$")
    ok = False
    for c in sends:
        if any(arg_is_local(rt, p_.args[1], c.dest["l"]) for p_ in pushed):
            ok = True
    R.check(ok and not lossy, "C05.R5", "read_task:forward-is-waiting-send", "messages from handle_backend_messages are forwarded with the waiting send, parked in the pending-futures set", "read_task does not park a waiting send for the messages produced by handle_backend_messages", where(hb[0]))
    # the loop over `messages` forwards every element: the send is inside the loop over the Ok(messages) vector
    # who may use the lossy try_send on the front-to-back queue at all
    allowed = re.compile(r"^<jsonrpsee_core::client::Subscription<Notif> as std::ops::Drop>::drop$")
    n = 0
    for c in F.all_calls(r"mpsc::.*Sender::<.*>::try_send$"):
        if c.body.crate != "jsonrpsee_core" or is_test_body(c.body):
            continue
        p0 = op_place(c.args[0])
        if p0 is None or "FrontToBack" not in c.body.locals[p0["l"]]["ty"]:
            continue
        n += 1
        R.check(bool(allowed.match(c.body.path)), "C05.R5", "try_send:%s" % fkey(c.body), "try_send on the request queue only in Drop for Subscription", "%s uses the lossy try_send on the client's request queue" % short(c.body.path), where(c))
    R.floor("C05.R5", n, 1, "try_send sites on the front-to-back queue")


def r6_refused_insert_is_pure(ctx):
    """RequestManager::insert_* either inserts (Ok) or leaves both tables untouched (Err): no table mutation can be followed
    by the refusal. A duplicate subscription id answered by the server must not disturb the live subscription's
    id -> request mapping, otherwise its notifications are dropped as 'not active'."""
    F, R = ctx.F, ctx.R
    n = 0
    MUT = r"HashMap::<.*>::(insert|remove|remove_entry|clear|retain)$|VacantEntry::<.*>::insert$|OccupiedEntry::<.*>::(insert|remove|remove_entry)$|Entry::<.*>::(or_insert|or_insert_with|or_default|and_modify|insert_entry)$"
    for m in F.find(r"^jsonrpsee_core::client::async_client::manager::RequestManager::insert_\w+$"):
        R.fn(m)
        muts = m.calls_to(MUT)
        errs = set()
        for bi, blk in enumerate(m.blocks):
            if bi not in m.reachable or blk.get("cleanup"):
                continue
            for st in blk["st"]:
                if st["s"] == "assign" and st["rv"]["k"] == "agg" and st["rv"].get("variant") == "Err" and st["rv"].get("adt", "").startswith("std::result::Result"):
                    errs.add(bi)
        if not errs:
            continue
        n += 1
        bad = [c for c in muts if any(m.can_reach(c.bb, e) for e in errs)]
        R.check(not bad, "C05.R6", "%s:refusal-is-pure" % m.path.split("::")[-1], "%s mutates nothing on the path that refuses" % m.path.split("::")[-1], "%s changes a table (%s) and can still refuse afterwards: a refused duplicate overwrites the live entry, the live subscription's notifications are then dropped and its unsubscribe finds nothing" % (short(m.path), sorted({short(c.name()) for c in bad})), where(bad[0]) if bad else None)
        # overwriting inserts are not used at all where a refusal exists
        over = [c for c in m.calls_to(r"HashMap::<.*>::insert$")]
        for c in over:
            R.check(any(m.dominates(x.bb, c.bb) for x in m.calls_to(r"HashMap::<.*>::contains_key$")), "C05.R6", "%s:no-blind-overwrite" % m.path.split("::")[-1], "overwriting insert only after a contains_key test", "%s uses the overwriting HashMap::insert without a prior vacancy test" % short(m.path), where(c))
    R.floor("C05.R6", n, 3, "RequestManager::insert_* functions with a refusal path")



def r7_classifiers_are_plain(ctx):
    """SubscriptionResponse / SubscriptionError / Notification are tried in turn by the client: plain derived decoders"""
    from .common import wire_decoders_plain
    wire_decoders_plain(ctx, "C05.R7", (("SubscriptionPayload", r"jsonrpsee_types::response::SubscriptionPayload<'a, T>"), ("SubscriptionPayloadError", r"jsonrpsee_types::response::SubscriptionPayloadError<'a, T>"), ("Notification", r"jsonrpsee_types::request::Notification<'a, T>")), 3)


def r8_client_builder_fields(ctx):
    """the configured per-subscription buffer (and every other client setting) survives builder transformations"""
    from .common import builder_field_crossing
    builder_field_crossing(ctx, "C05.R8", r"^jsonrpsee_(ws_client|http_client|core::client|wasm_client)::", 3)
    from .common import setter_arg_crossing
    setter_arg_crossing(ctx, "C05.R8b", r"^<?jsonrpsee_(ws_client|http_client|core::client|wasm_client)::", 3)


def r9_lagged_is_reported_as_lagged(ctx):
    """a stream that ended because the consumer lagged is reported as Lagged whenever it is asked, before or after it was
    drained: in Subscription::close_reason `ConnectionClosed` is answered only where has_lagged() was false"""
    F, R = ctx.F, ctx.R
    b = F.one(r"^jsonrpsee_core::client::Subscription::<Notif>::close_reason$")
    R.fn(b)
    hl = b.calls_to(r"has_lagged$")
    cc = [(bi, st) for bi, blk in enumerate(b.blocks) if bi in b.reachable and not blk.get("cleanup") for st in blk["st"] if st["s"] == "assign" and st["rv"]["k"] == "agg" and st["rv"].get("variant") == "ConnectionClosed"]
    lg = [(bi, st) for bi, blk in enumerate(b.blocks) if bi in b.reachable and not blk.get("cleanup") for st in blk["st"] if st["s"] == "assign" and st["rv"]["k"] == "agg" and st["rv"].get("variant") == "Lagged"]
    if len(hl) != 1 or not cc or not lg:
        raise AnchorLost("has_lagged / ConnectionClosed / Lagged in Subscription::close_reason")
    false_arms, true_arms = set(), set()
    for l in follow_value(b, hl[0].dest["l"]):
        for sb, arms, other in flow.switch_on(b, l):
            if arms.get("0") is not None:
                false_arms.add(arms["0"])
            if arms.get("1") is not None:
                true_arms.add(arms["1"])
    for bi, st in cc:
        R.check(any(b.dominates(t, bi) for t in false_arms), "C05.R9", "close_reason:closed-only-if-not-lagged", "ConnectionClosed is reported only when the stream did not lag", "Subscription::close_reason can answer ConnectionClosed although the stream lagged (the lag test does not come first): after a lagged stream was drained to its end the lag is misreported as a closed connection", "%s:%d" % (b.file, st["sp"][0]))
    for bi, st in lg:
        R.check(any(b.dominates(t, bi) for t in true_arms), "C05.R9", "close_reason:lagged-iff-flag", "Lagged is reported on the has_lagged() branch", "Lagged is not tied to has_lagged()", "%s:%d" % (b.file, st["sp"][0]))


def r10_sub_ids_spelled_alike(ctx):
    """the client stores the subscription id the server returned (insert_subscription) and looks notifications up by the id
    they carry (get_request_id_by_subscription_id / process_subscription_response): no one-sided text transformation"""
    from .common import text_transforms
    F, R = ctx.F, ctx.R
    M = r"^jsonrpsee_core::client::async_client::"
    w = text_transforms(F, R, (M + r"manager::RequestManager::insert_subscription$", M + r"helpers::process_single_response$"))
    r = text_transforms(F, R, (M + r"manager::RequestManager::get_request_id_by_subscription_id$", M + r"helpers::process_subscription_response$", M + r"(helpers::)?process_subscription_close_response$", M + r"manager::RequestManager::(unsubscribe|remove_subscription)$"))
    R.check(w == r, "C05.R10", "sub-id-spelling:writer-reader-agree", "subscription ids are stored and looked up in the same spelling", "the client stores subscription ids transformed by %s but looks them up transformed by %s" % (sorted(w) or "nothing", sorted(r) or "nothing"), None)


def r11_response_attempt_unconditional(ctx):
    """classification is by decoding, in a fixed order, never by sniffing the raw bytes (= C15.R9)"""
    from . import c15
    c15.r9_client_tries_response_first(ctx)


def r12_stream_ends_only_when_channel_ends(ctx):
    """a subscription stream ends when its channel ends (close notification, connection end, lag) - not because one
    payload failed to decode: in <Subscription as Stream>::poll_next the `is_closed` flag is only ever set to the constant
    `true`, and only in the same block that produces the `None` item (channel exhausted); every other way through the
    function yields Some(..) and leaves the flag alone"""
    F, R = ctx.F, ctx.R
    b = F.one(r"^<jsonrpsee_core::client::Subscription<Notif> as futures_util::Stream>::poll_next$")
    R.fn(b)
    writes = []
    for bi, blk in enumerate(b.blocks):
        if blk.get("cleanup") or bi not in b.reachable:
            continue
        for st in blk["st"]:
            if st["s"] == "assign" and st["pl"].get("p") and isinstance(st["pl"]["p"][-1], dict) and st["pl"]["p"][-1].get("n") == "is_closed":
                writes.append((bi, st))
    R.check(bool(writes), "C05.R12", "poll_next:closed-flag-written", "poll_next records the end of the channel", "poll_next never sets is_closed", "%s:%d" % (b.file, b.lo))
    for bi, st in writes:
        k = op_const(st["rv"]["op"]) if st["rv"]["k"] == "use" else None
        const_true = bool(k) and k.get("bool") is True
        none_here = any(s2["s"] == "assign" and s2["rv"]["k"] == "agg" and s2["rv"].get("variant") == "None" and s2["rv"].get("adt", "").startswith("std::option::Option") for s2 in b.blocks[bi]["st"])
        R.check(const_true and none_here, "C05.R12", "poll_next:closed-only-at-channel-end#%d" % [x[0] for x in writes].index(bi), "is_closed = true exactly where the item is None (channel ended)", "poll_next sets is_closed from %s%s: the stream is marked closed on a path that is not the end of the channel (e.g. after a payload that failed to decode), so later notifications are silently dropped" % ("a computed value" if not const_true else "const true", "" if none_here else " in a block that does not yield None"), "%s:%d" % (b.file, st["sp"][0]))
    # and nothing short-circuits the channel: the poll of rx is unconditional
    pn = b.calls_to(r"StreamExt::poll_next_unpin$|Stream::poll_next$")
    R.check(len(pn) == 1 and flow.all_paths_pass(b, 0, {pn[0].bb}, b.exits) , "C05.R12", "poll_next:channel-always-polled", "every call polls the channel", "poll_next can return without polling the notification channel (a `fuse` on is_closed): once the flag is set no buffered notification is delivered any more", "%s:%d" % (b.file, b.lo))


def rarr_every_element(ctx):
    """an array message is processed element by element to the end"""
    from .common import array_elements_all_processed
    array_elements_all_processed(ctx.F, ctx.R, "C05.ARR")



def rcancel_receive_is_cancel_safe(ctx):
    """the read task never drops a half-received message"""
    from .common import read_task_receive_is_cancel_safe
    read_task_receive_is_cancel_safe(ctx, "C05.CANCEL")




def r13_channel_is_the_only_buffer(ctx):
    """`the stream ends when the consumer falls more than the configured buffer behind`: lag is detected by the bounded
    channel being full when the read task try_sends, so nothing between the channel and the consumer may hold
    notifications: SubscriptionReceiver / Subscription have no collection or payload-typed field besides the channel, and
    SubscriptionReceiver::poll_next hands out the result of one mpsc poll_recv (never poll_recv_many / try_recv loops into
    a private queue - items parked there free channel slots while still unread)."""
    F, R = ctx.F, ctx.R
    tr = ctx.tracer(follow_callers=False, follow_fields=False, inline_calls=False)
    n = 0
    HOLDS = r"Vec<|VecDeque<|BinaryHeap<|LinkedList<|HashMap<|BTreeMap<|RawValue|serde_json::Value|SmallVec<|\[.*; \d+\]|std::string::String|FuturesUnordered|Option<.*(Notif|RawValue)"
    for adt_name in ("jsonrpsee_core::client::SubscriptionReceiver", "jsonrpsee_core::client::Subscription"):
        adt = F.adt(adt_name)
        if adt is None:
            raise AnchorLost("ADT %s" % adt_name)
        for v in adt["variants"]:
            for f in v["fields"]:
                n += 1
                is_channel = bool(re.search(r"^tokio::sync::mpsc::(bounded::)?(Receiver|Sender)<", f["ty"]))
                R.check(is_channel or not re.search(HOLDS, f["ty"]), "C05.R13", "%s.%s:not-a-buffer" % (adt_name.split("::")[-1], f["n"]), "%s.%s (%s) holds no notifications" % (adt_name.split("::")[-1], f["n"], f["ty"][:60]), "%s has a field `%s: %s` besides its channel that can hold notifications: items parked there have left the bounded channel, so the read task no longer sees a consumer that is more than the configured buffer behind (no Lagged, no unsubscribe)" % (adt_name.split("::")[-1], f["n"], f["ty"][:80]), None)
    b = F.one(r"^<jsonrpsee_core::client::SubscriptionReceiver as futures_util::Stream>::poll_next$")
    R.fn(b)
    takes = b.calls_to(r"mpsc::(bounded::)?Receiver::<.*>::(poll_recv|poll_recv_many|try_recv|recv_many|recv|blocking_recv)$")
    kinds = sorted((c.name() or "").split("::")[-1] for c in takes)
    lv = tr.origins(b, {"cp": {"l": 0}})
    direct = bool(lv) and all(l.kind == "call" and re.search(r"Receiver::<.*>::poll_recv$", l.detail.get("callee") or "") for l in lv)
    R.check(kinds == ["poll_recv"] and direct, "C05.R13", "receiver:one-item-per-poll", "poll_next returns the result of one poll_recv", "SubscriptionReceiver::poll_next does not hand out the result of a single poll_recv (channel operations: %s): items are taken out of the bounded channel ahead of the consumer" % kinds, "%s:%d" % (b.file, b.lo))
    R.floor("C05.R13", n, 6, "fields of the client-side subscription types")



def r14_classifiers_accept_any_payload(ctx):
    """which kind of message an object is does not depend on what its payload looks like: every classification attempt of
    the client decodes the payload position (result / error reason / params) as raw JSON - `Box<RawValue>`, `&RawValue`,
    `Option<Box<RawValue>>`, `Value`. A concrete payload type (`SubscriptionError<String>`) makes the attempt fail for
    other payloads - a close notification with a structured reason falls through to the next kind and is dropped, so the
    subscription is never removed."""
    from .common import client_message_handlers
    F, R = ctx.F, ctx.R
    n = 0
    RAW = r"^(&|&mut )?serde_json::value::RawValue$|^std::boxed::Box<serde_json::value::RawValue>$|^std::borrow::Cow<'_?\w*, serde_json::value::RawValue>$|^serde_json::Value$|^std::option::Option<(std::boxed::Box<serde_json::value::RawValue>|&serde_json::value::RawValue|serde_json::Value)>$"
    for hb in client_message_handlers(F):
        for c in _classifier_calls(hb):
            n += 1
            ty = c.ga[-1]
            # innermost generic argument (after lifetimes) of the nested wire types
            inner = ty
            while True:
                m = re.match(r"^jsonrpsee_types::[\w:]+<(?:'_?\w*, )*(.*)>$", inner)
                if not m:
                    break
                inner = m.group(1)
            R.check(bool(re.search(RAW, inner)), "C05.R14", "classifier:%s:payload-is-raw" % short(_norm_ty(ty))[:60], "the %s attempt accepts any payload" % short(ty)[:50], "the client's classification attempt %s fixes the payload type to `%s`: messages of that kind with another payload shape are not recognised and fall through to the next kind (a server-side close with a structured reason is dropped as an unknown notification - the subscription stays registered and its stream never ends)" % (short(ty)[:80], inner), where(c))
    R.floor("C05.R14", n, 8, "classification attempts of the client")



def r15_routing_does_not_end_subscriptions(ctx):
    """`closure for lagging sends exactly one unsubscribe request`: the unsubscribe request is built from the manager's
    entry by the send task (build_unsubscribe_message) when it handles the SubscriptionClosed message. The routing
    function process_subscription_response therefore only *reports* the id of a subscription that must be closed - it
    does not take the entry out of the manager itself (the later SubscriptionClosed would then find nothing and no
    unsubscribe would be written)."""
    F, R = ctx.F, ctx.R
    b = F.one(r"^jsonrpsee_core::client::async_client::helpers::process_subscription_response$")
    R.fn(b)
    muts = [c for x in F.nested(b) for c in x.calls_to(r"RequestManager::(remove_subscription|unsubscribe|insert_\w+|complete_\w+|remove_\w+)$")]
    R.check(not muts, "C05.R15", "process_subscription_response:read-only", "routing a notification leaves the manager's tables alone", "process_subscription_response changes the request manager (%s): a subscription that is removed here is gone by the time the send task handles its SubscriptionClosed message, so no unsubscribe request is written and the server keeps the subscription" % sorted({short(c.name()) for c in muts}), where(muts[0]) if muts else "%s:%d" % (b.file, b.lo))


def r16_every_notification_kind_counts_as_content(ctx):
    """`single vs array makes no difference`: an array is refused as an empty batch only if it held nothing the client
    recognises. In the element loop every successful non-response attempt (subscription item, subscription close, plain
    notification) marks the array as non-empty (`got_notif = true`) - a kind that forgets to, makes an array holding only
    that kind tear the connection down (EmptyBatchRequest), ending every other stream too."""
    from .common import client_message_handlers
    F, R = ctx.F, ctx.R
    n = 0
    for hb in client_message_handlers(F):
        flags = []
        for l, defs in hb.defs.items():
            if hb.locals[l]["ty"] != "bool" or not hb.locals[l].get("user"):
                continue
            trues = [bi for bi, si, dpl, src in defs if src[0] == "rv" and src[1]["k"] == "use" and (op_const(src[1]["op"]) or {}).get("bool") is True and enclosing_loop_next(hb, bi) is not None]
            if trues:
                flags.append((l, set(trues)))
        elems = [c for c in _classifier_calls(hb) if enclosing_loop_next(hb, c.bb) is not None]
        if not elems:
            continue
        if not flags:
            R.anchor_lost("C05.R16", "the `a notification was seen` flag of the element loop in %s" % hb.path)
            continue
        marks = set().union(*[t for _, t in flags])
        for c in elems:
            ty = _norm_ty(c.ga[-1])
            if "Response<" in ty and "Notification" not in ty:
                continue   # responses are collected into the batch range instead
            n += 1
            nx = enclosing_loop_next(hb, c.bb)
            okt = None
            for sb, arms, other in flow.switch_on(hb, c.dest["l"]):
                okt = arms.get("0", other)
            ok = okt is not None and (okt in marks or flow.all_paths_pass(hb, okt, marks, {nx.bb} | set(hb.exits)))
            R.check(ok, "C05.R16", "element:%s:counts-as-content" % short(ty)[:60], "a recognised %s marks the array as non-empty" % short(ty)[:40], "an array element recognised as %s does not mark the array as non-empty: an array that holds only such elements is refused as an empty batch and the connection is torn down, although the same message sent alone is handled" % short(ty)[:80], where(c))
    R.floor("C05.R16", n, 3, "non-response element kinds")


def rkeys_manager_keys_not_derived(ctx):
    """ids are matched exactly"""
    from .common import manager_keys_not_derived
    manager_keys_not_derived(ctx, "C05.KEYS")



def rsel_shutdown_is_a_select_branch(ctx):
    """the background tasks notice the other task's end while they wait"""
    from .common import shutdown_is_a_select_branch
    shutdown_is_a_select_branch(ctx, "C05.SEL")


def r17_an_accepted_subscription_is_registered_or_cancelled(ctx):
    """once the server has accepted a subscribe call (a success response whose result decodes as a subscription id) the
    client either owns the subscription (insert_subscription) or cancels it (the unsubscribe built when the caller is gone,
    R4): on every path from the decoded id to the end of the function the subscription is handed to the request manager.
    A shortcut that returns first (`the caller already gave up, nothing to set up`) leaves the server pushing
    notifications for a subscription the client will never unsubscribe - `merely dropping the stream sends exactly one
    unsubscribe` becomes zero."""
    F, R = ctx.F, ctx.R
    n = 0
    for b in F.real_bodies():
        if b.crate != CORE or is_test_body(b) or not b.path.startswith("jsonrpsee_core::client::async_client::"):
            continue
        ins = b.calls_to(r"RequestManager::insert_subscription$")
        if not ins:
            continue
        dec = [c for c in b.calls_to(r"^serde_json::(de::)?from_str$") if any("SubscriptionId" in g for g in (c.ga or []))]
        for d in dec:
            n += 1
            R.fn(b)
            ok_t = None
            for sb, arms, other in flow.switch_on(b, d.dest["l"]):
                ok_t = arms.get("0")
            if ok_t is None:
                # `serde_json::from_str::<SubscriptionId>(..)?` - the outcome is inspected by the `?`
                for br in b.calls_to(r"Try>?::branch$"):
                    if any(arg_is_local(b, br.args[0], h) for h in follow_value(b, d.dest["l"])):
                        for sb, arms, other in flow.switch_on(b, br.dest["l"]):
                            ok_t = arms.get("0")
            if ok_t is None:
                R.anchor_lost("C05.R17", "the match on the decoded subscription id in %s" % b.path)
                continue
            through = {c.bb for c in ins}
            ok = ok_t in through or flow.all_paths_pass(b, ok_t, through)
            R.check(ok, "C05.R17", "%s:accepted->registered" % fkey(b), "an accepted subscription always reaches insert_subscription", "%s can return after the server accepted the subscription without registering it (a path from the decoded subscription id leaves the function before insert_subscription): the server keeps sending notifications, the client neither yields them nor ever sends the unsubscribe request" % short(b.path), "%s:%d" % (b.file, block_line(b, ok_t)))
    R.floor("C05.R17", n, 1, "decodes of the accepted subscription id next to insert_subscription")


# an unsubscribe request (like any request) is on record before it is written: its reply - which the server does send -
# otherwise matches nothing pending and ends the connection, and with it every other stream, for none of the listed
# reasons (= C03.R3)
def r18_requests_are_on_record_before_they_are_written(ctx):
    from . import c03
    c03.r3_insert_before_send(ctx)


def rids_subscription_ids_are_read_as_written(ctx):
    """a notification is routed by its subscription id exactly as the server wrote it: SubscriptionId's decoder is the
    derived one, no lenient number parsing (7.5 is not subscription 7) (= C15.IDS)"""
    from .common import wire_ids_derive_both
    wire_ids_derive_both(ctx, "C05.IDS")


def r19_notification_handlers_see_plain_notifications_only(ctx):
    """a subscription's notifications go to that subscription: only `process_notification` looks a notification handler
    up (`as_notification_handler_mut`). A look-up from the subscription path (`a handler registered for the method gets
    the raw notification`) diverts everything the server sends for the id away from its stream, which neither ends nor lags."""
    F, R = ctx.F, ctx.R
    n = 0
    for c in F.all_calls(r"RequestManager::as_notification_handler_mut$"):
        if c.body.crate != CORE or is_test_body(c.body):
            continue
        n += 1
        root = F.root_fn(c.body)
        R.check(bool(re.search(r"async_client::helpers::process_notification$", root.path)), "C05.R19", "handler-lookup:%s" % fkey(c.body), "notification handlers are looked up by process_notification", "%s looks a notification handler up: messages that belong to a subscription id can be handed to a method-level handler instead of the subscription's stream" % short(root.path), where(c))
    R.floor("C05.R19", n, 1, "look-ups of notification handlers")


def r20_each_frame_is_received_into_a_fresh_buffer(ctx):
    """a message is what the server sent, not that plus leftovers: soketto's `receive` *appends* to the buffer it is given,
    so the WebSocket transport hands it a fresh `Vec::new()` for every message (a buffer kept in the Receiver must be
    cleared on every arm - text, binary, ping - or the next message arrives glued to the previous one and is unparseable)"""
    F, R = ctx.F, ctx.R
    tr = ctx.tracer(follow_callers=False, follow_fields=False)
    n = 0
    for b in F.real_bodies():
        if b.crate != "jsonrpsee_client_transport" or is_test_body(b):
            continue
        for c in b.calls_to(r"soketto::(connection::)?Receiver::<.*>::receive(_data)?$"):
            if len(c.args) < 2:
                continue
            n += 1
            R.fn(b)
            lv = tr.origins(b, c.args[1])
            fresh = [l for l in lv if l.kind == "call" and re.search(r"Vec::<.*>::(new|with_capacity)$", l.detail["callee"] or "") and l.where == b.path]
            R.check(bool(fresh) and len(fresh) == len(lv), "C05.R20", "%s:fresh-buffer" % fkey(b), "the receive buffer is created for this message", "%s receives into a buffer that outlives the message (%s): soketto appends, so what is left in it from an earlier frame is delivered again in front of the next message" % (short(b.path), [flow.leaf_str(l)[:60] for l in lv if l not in fresh]), where(c))
    R.floor("C05.R20", n, 1, "soketto receive calls in the client transport")


def r21_the_subscription_buffer_is_as_configured(ctx):
    """`falls more than the configured buffer behind` is detected by the bounded channel being full: its capacity is the
    configured number, unchanged (rounded up to a power of two, a buffer of 5 lags at 8)"""
    F, R = ctx.F, ctx.R
    tr = ctx.tracer(follow_callers=False, follow_fields=False, inline_calls=False)
    b = F.one(r"^jsonrpsee_core::client::subscription_channel$")
    R.fn(b)
    ch = b.calls_to(r"mpsc::channel$")
    R.floor("C05.R21", len(ch), 1, "channel constructions in subscription_channel")
    for c in ch:
        lv = tr.origins(b, c.args[0])
        ok = bool(lv) and all(l.kind == "param" for l in lv)
        R.check(ok, "C05.R21", "capacity-is-the-parameter", "the channel's capacity is the configured buffer size", "subscription_channel sizes the buffer with %s instead of the configured number: the lag threshold differs from the configured one" % [flow.leaf_str(l)[:60] for l in lv], where(c))


RULES = [r20_each_frame_is_received_into_a_fresh_buffer, r21_the_subscription_buffer_is_as_configured, r19_notification_handlers_see_plain_notifications_only, rids_subscription_ids_are_read_as_written, r17_an_accepted_subscription_is_registered_or_cancelled, r18_requests_are_on_record_before_they_are_written, rsel_shutdown_is_a_select_branch, r1_classifier_agreement, r2_routing, r3_lag_and_close, r4_single_unsubscribe, r5_close_messages_are_not_lossy, r6_refused_insert_is_pure, r7_classifiers_are_plain, r8_client_builder_fields, r9_lagged_is_reported_as_lagged, r10_sub_ids_spelled_alike, r11_response_attempt_unconditional, r12_stream_ends_only_when_channel_ends, r13_channel_is_the_only_buffer, r14_classifiers_accept_any_payload, r15_routing_does_not_end_subscriptions, r16_every_notification_kind_counts_as_content, rarr_every_element, rcancel_receive_is_cancel_safe, rkeys_manager_keys_not_derived]

LEVEL_TEXT = (
    "Structural necessary conditions of the client's notification demultiplexing decided from the type-checked program: "
    "agreement of the single-message and array-element classifiers (what each attempt parses, in which order, handled by "
    "what), the provenance chain from a notification's own subscription id to the sink it is written to, the failure-arm "
    "mapping that turns lag/closure into exactly one SubscriptionClosed, and the single construction site of unsubscribe "
    "requests. The tests never pack a close notification in an array; the rule covers every attempt."
)
LEVEL_NOTE = "Trusted: rustc MIR; tokio mpsc; serde_json. Not decided: per-schedule ordering, buffer arithmetic."
TECHNIQUE = "sibling cross-check of classifier chains + MIR origin tracing + path counting"

"""C20 — params builders emit JSON that parses back to what was inserted (structural clauses)."""
import re

from .common import (fkey, where, short, arg_is_local, follow_value, block_line, CORE)
from ..facts import op_place, op_const, AnchorLost, is_test_body
from .. import flow

PID = "C20"
LEVEL = "other"
EXPLANATION = (
    "Static analysis over MIR of core::params / core::traits. Decided: R1 (rollback) in ParamsBuilder::{insert, "
    "insert_named} every path that wrote into the buffer and then returns an error passes a truncation back to the length "
    "recorded before the insert (recorded before the opening token is written, so a failed first insert leaves an empty "
    "builder); the separator is appended only on the success path; R2 build(): an empty buffer means `no params` (None); "
    "otherwise the trailing separator is replaced by the end token, or the end token is appended (decision by comparing "
    "the last byte with `,`); start/end tokens are `[`/`]` for positional and `{`/`}` for named; values and names are "
    "written by serde_json::to_writer into the builder's own buffer, a name is followed by `:`; R3 (exhaustiveness) "
    "ToRpcParams is implemented for tuples of every arity 1..=16, for slices, Vec, arrays and serde_json::Map, and every one "
    "of these impls is serde_json::value::to_raw_value(&self).map(Some); ArrayParams/ObjectParams delegate to the builder; "
    "R4 BatchRequestBuilder::build refuses an empty batch and insert stores to_rpc_params() of the value. "
    "NOT decided: that the emitted bytes parse back to the inserted values (serde_json)."
)
RULE_TEXT = "instances = error exits of the two insert functions, build()'s table, token constants, ToRpcParams impls"
TRUSTED = ["rustc MIR", "serde_json::to_writer / to_raw_value emit valid JSON for a successful Serialize"]
ASSUMPTIONS = []

PB = r"^jsonrpsee_core::params::params_builder::ParamsBuilder::"


def _buf_field(p):
    return any(isinstance(e, dict) and e.get("n") == "bytes" for e in p.get("p", []))


def r1_rollback(ctx):
    F, R = ctx.F, ctx.R
    tr = ctx.tracer(follow_callers=False, follow_fields=False)
    for name in ("insert", "insert_named"):
        b = F.one(PB + name + "$")
        R.fn(b)
        bodies = F.nested(b)
        writes = []
        for x in bodies:
            for c in x.calls_to(r"^serde_json::(ser::)?to_writer$"):
                writes.append((x, c))
        R.check(len(writes) == (2 if name == "insert_named" else 1), "C20.R1", "%s:writes" % name, "%s serialises %s into the buffer" % (name, "the name and the value" if name == "insert_named" else "the value"), "%s has %d to_writer sites" % (name, len(writes)), "%s:%d" % (b.file, b.lo))
        trunc = b.calls_to(r"Vec::<.*>::truncate$")
        R.check(len(trunc) >= 1, "C20.R1", "%s:has-rollback" % name, "%s rolls the buffer back on error" % name, "%s never truncates the buffer: after a Serialize impl fails midway the partial bytes stay and build() emits invalid JSON (and panics on it)" % name, "%s:%d" % (b.file, b.lo))
        # failure arms: wherever the outcome of a serialisation (a Result<(), serde_json::Error>) is found to be Err -
        # by match / if let / `?` / is_ok() / is_err()
        from .common import result_outcome_arms
        oks, errs = result_outcome_arms(b, lambda ty: ty.startswith("std::result::Result<(), serde_json::Error>"))
        errs = sorted(errs)
        R.check(bool(errs), "C20.R1", "%s:reports-error" % name, "%s inspects the outcome of the serialisation" % name, "%s never looks at the outcome of the serialisation (no failure arm)" % name, "%s:%d" % (b.file, b.lo))
        exits_ = {bi for bi, blk in enumerate(b.blocks) if blk["term"] and blk["term"]["t"] == "return"}
        okret = {bi for bi, blk in enumerate(b.blocks) if bi in b.reachable for st in blk["st"] if st["s"] == "assign" and st["pl"]["l"] == 0 and not st["pl"].get("p") and st["rv"]["k"] == "agg" and st["rv"].get("variant") == "Ok"}
        swallowed = [e for e in errs if (b.reach_from(e) | {e}) & okret]
        R.check(not swallowed, "C20.R1", "%s:failure-is-reported" % name, "a failed serialisation is returned as an error", "%s can return Ok(..) after the serialisation failed" % name, "%s:%d" % (b.file, block_line(b, swallowed[0]) if swallowed else b.lo))
        first_write = None
        for c in b.calls:
            if re.search(r"to_writer$|Result::<.*>::and_then$|ParamsBuilder::maybe_initialize$", c.name() or ""):
                if first_write is None or b.dominates(c.bb, first_write.bb):
                    first_write = c
        tb = {t.bb for t in trunc}
        for e in errs:
            ok = e in tb or flow.all_paths_pass(b, e, tb, exits_)
            R.check(ok, "C20.R1", "%s:error-exit-rolled-back@%d" % (name, errs.index(e)), "every failure arm of %s passes the truncation" % name, "%s can return an error without rolling the buffer back" % name, "%s:%d" % (b.file, block_line(b, e)))
        # the truncation length was recorded before anything was written (incl. the opening token)
        for t in trunc:
            lv = tr.origins(b, t.args[1])
            ok_len = bool(lv) and all(l.kind == "call" and re.search(r"Vec::<.*>::len$", l.detail["callee"] or "") for l in lv)
            R.check(ok_len, "C20.R1", "%s:truncates-to-recorded-length" % name, "the buffer is truncated to a recorded length", "%s truncates to %s" % (name, [flow.leaf_str(l) for l in lv]), where(t))
            for l in lv:
                if l.kind == "call":
                    lb = l.detail["bb"]
                    mi = b.calls_to(r"ParamsBuilder::maybe_initialize$")
                    R.check(bool(mi) and all(b.dominates(lb, m.bb) and lb != m.bb for m in mi) and (first_write is None or b.dominates(lb, first_write.bb)), "C20.R1", "%s:length-recorded-before-any-write" % name, "the length is recorded before the opening token / any value is written", "%s records the rollback length after something was already written (a failed first insert would leave a dangling opening token)" % name, where(t))
                    la = tr.origins(b, l.detail["args"][0])
                    R.check(any(x.kind == "field" and x.detail["fields"][-1][1] == "bytes" for x in la), "C20.R1", "%s:length-of-own-buffer" % name, "the recorded length is the buffer's", "the recorded length is not the buffer's length", where(t))
        # separator only on the success path: the push(',') is not reachable from an error-building block and vice versa
        seps = []
        for c in b.calls_to(r"Vec::<.*>::push$"):
            k = op_const(c.args[1])
            if k and k.get("int") == "44":
                seps.append(c)
        R.check(len(seps) == 1, "C20.R1", "%s:one-separator" % name, "%s appends one separator" % name, "%s appends %d separators" % (name, len(seps)), "%s:%d" % (b.file, b.lo))
        for s_ in seps:
            R.check(all(s_.bb not in (b.reach_from(e) | {e}) for e in errs) and all(not b.can_reach(s_.bb, e) for e in errs) and all(not b.dominates(t.bb, s_.bb) for t in trunc), "C20.R1", "%s:separator-on-success-only" % name, "the separator is written only after the value was serialised successfully", "%s writes the separator on a path that still fails or was rolled back" % name, where(s_))
        # writers target the builder's own buffer
        for x, c in writes:
            lv = tr.origins(x, c.args[0])
            ok = any(l.kind == "field" and l.detail["fields"][-1][1] == "bytes" for l in lv) or any("bytes" in " ".join(l.chain) for l in lv)
            R.check(ok, "C20.R1", "%s:writes-into-own-buffer#%d" % (name, writes.index((x, c))), "serialisation goes into the builder's buffer", "%s serialises into %s" % (name, [flow.leaf_str(l) for l in lv]), where(c))
    # insert_named: name, then ':' then value
    b = F.one(PB + "insert_named$")
    colon = []
    for x in F.nested(b):
        for c in x.calls_to(r"Vec::<.*>::push$"):
            k = op_const(c.args[1])
            if k and k.get("int") == "58":
                colon.append(c)
    R.check(len(colon) == 1, "C20.R1", "insert_named:colon", "a name is followed by `:`", "insert_named writes %d `:` tokens" % len(colon), "%s:%d" % (b.file, b.lo))


def r2_build(ctx):
    F, R = ctx.F, ctx.R
    tr = ctx.tracer(follow_callers=False, follow_fields=False)
    b = F.one(PB + "build$")
    R.fn(b)
    ie = b.calls_to(r"Vec::<.*>::is_empty$|slice::<impl \[T\]>::is_empty$")
    # `match self.bytes.last_mut() { None => return None, .. }` tests for emptiness just as well
    alt = [] if ie else b.calls_to(r"slice::<impl \[T\]>::(last|last_mut|first|first_mut)$")
    R.check(len(ie) + len(alt) == 1, "C20.R2", "build:empty-test", "build tests for an empty buffer", "build has %d is_empty tests" % len(ie), "%s:%d" % (b.file, b.lo))
    for c in ie + alt:
        t_true = None
        for sb, arms, other in flow.switch_on(b, c.dest["l"]):
            t_true = arms.get("0") if c in alt else (other if "0" in arms else arms.get("1"))
        none_ok = False
        if t_true is not None:
            for bi in {x for x in (b.reach_from(t_true) | {t_true}) if b.dominates(t_true, x)}:
                for st in b.blocks[bi]["st"]:
                    if st["s"] == "assign" and st["pl"]["l"] == 0 and st["rv"]["k"] == "agg" and st["rv"].get("variant") == "None":
                        none_ok = True
        R.check(none_ok, "C20.R2", "build:empty->None", "an empty builder means `no params`", "an empty builder does not yield None", where(c))
        fs = b.calls_to(r"RawValue::from_string$")
        R.check(bool(fs) and all(t_true is None or not b.dominates(t_true, f.bb) for f in fs), "C20.R2", "build:json-only-when-nonempty", "JSON is produced only for a non-empty buffer", "build produces JSON from an empty buffer", where(c))
    # last byte compared with ','; replaced by end, else end pushed
    cmp44 = False
    for bi, blk in enumerate(b.blocks):
        for st in blk["st"]:
            if st["s"] == "assign" and st["rv"]["k"] == "bin" and st["rv"]["op"] == "Eq":
                for o in (st["rv"]["a"], st["rv"]["b"]):
                    k = op_const(o)
                    if k and k.get("int") == "44":
                        cmp44 = True
        t = blk["term"]
        if t and t["t"] == "switch":
            if any(v == "44" for v, _ in t["arms"]):
                cmp44 = True
    R.check(cmp44, "C20.R2", "build:trailing-separator-test", "build inspects the last byte for a trailing `,`", "build no longer tests the last byte against `,`", "%s:%d" % (b.file, b.lo))
    pushes = b.calls_to(r"Vec::<.*>::push$")
    okp = False
    for c in pushes:
        lv = tr.origins(b, c.args[1])
        if any(l.kind == "field" and l.detail["fields"][-1][1] == "end" for l in lv) or any("end" in " ".join(l.chain) for l in lv):
            okp = True
    wr_end = False
    for bi, blk in enumerate(b.blocks):
        for st in blk["st"]:
            if st["s"] == "assign" and any(isinstance(e, dict) and ("i" in e or "ci" in e) for e in st["pl"].get("p", [])) or (st["s"] == "assign" and "*" in st["pl"].get("p", []) and st["rv"]["k"] in ("use", "cast")):
                lv = tr.origins(b, st["rv"]["op"]) if st["rv"]["k"] in ("use", "cast") else []
                if any(l.kind == "field" and l.detail["fields"][-1][1] == "end" for l in lv):
                    wr_end = True
    R.check(okp and wr_end, "C20.R2", "build:end-token-both-ways", "the end token replaces a trailing separator, else it is appended", "build no longer handles both endings (replace=%s, append=%s): `[1,` or `[]`-less output" % (wr_end, okp), "%s:%d" % (b.file, b.lo))
    # tokens
    want = {"positional": (91, 93), "named": (123, 125)}
    for nm, (s_, e_) in want.items():
        cb = F.one(PB + nm + "$")
        got = None
        for c in cb.calls_to(r"ParamsBuilder::new$"):
            ks = [op_const(a) for a in c.args]
            if all(k is not None and "int" in k for k in ks):
                got = tuple(int(k["int"]) for k in ks)
        R.check(got == (s_, e_), "C20.R2", "%s:tokens" % nm, "%s params are wrapped in %s%s" % (nm, chr(s_), chr(e_)), "%s builder uses tokens %s" % (nm, got), "%s:%d" % (cb.file, cb.lo))
    mi = F.one(PB + "maybe_initialize$")
    pm = mi.calls_to(r"Vec::<.*>::push$")
    oks = False
    for c in pm:
        lv = tr.origins(mi, c.args[1])
        if any(l.kind == "field" and l.detail["fields"][-1][1] == "start" for l in lv):
            oks = True
    R.check(oks and bool(mi.calls_to(r"Vec::<.*>::is_empty$")), "C20.R2", "maybe_initialize:start-once", "the start token is written once, when the buffer is empty", "maybe_initialize no longer writes the start token exactly when the buffer is empty", "%s:%d" % (mi.file, mi.lo))


def r3_impls(ctx):
    F, R = ctx.F, ctx.R
    impls = [i for i in F.impls if (i.get("trait") or "").endswith("traits::ToRpcParams") and i["crate"] == CORE]
    selfs = [i["self"] for i in impls]
    arities = set()
    for s_ in selfs:
        if s_.startswith("("):
            inner = s_.strip("()")
            parts = [p for p in inner.split(",") if p.strip()]
            arities.add(len(parts))
    R.check(arities == set(range(1, 17)), "C20.R3", "tuple-arities", "ToRpcParams for tuples of arity 1..=16", "ToRpcParams is missing for tuple arities %s" % sorted(set(range(1, 17)) - arities), None)
    for label, rx in (("slice", r"^&\[P\]$"), ("Vec", r"^std::vec::Vec<P>$"), ("array", r"^\[P; N\]$"), ("Map", r"serde_json::Map<"), ("ArrayParams", r"params::ArrayParams$"), ("ObjectParams", r"params::ObjectParams$")):
        R.check(any(re.search(rx, s_) for s_ in selfs), "C20.R3", "impl:%s" % label, "ToRpcParams for %s" % label, "ToRpcParams is no longer implemented for %s" % label, None)
    n = 0
    for b in F.real_bodies():
        if b.crate != CORE or not b.path.endswith("::to_rpc_params") or not (b.impl_trait or "").endswith("ToRpcParams") or is_test_body(b):
            continue
        if "params::ArrayParams" in (b.impl_self or "") or "params::ObjectParams" in (b.impl_self or ""):
            ok = bool(b.calls_to(r"ParamsBuilder::build$"))
            R.check(ok, "C20.R3", "body:%s" % fkey(b), "delegates to ParamsBuilder::build", "%s does not delegate to the builder" % short(b.path), "%s:%d" % (b.file, b.lo))
            continue
        n += 1
        tv = b.calls_to(r"^serde_json::value::to_raw_value$|^serde_json::to_raw_value$")
        ok = len(tv) == 1
        if ok:
            lv = ctx.tracer(follow_callers=False, follow_fields=False).origins(b, tv[0].args[0])
            ok = bool(lv) and all(l.kind == "param" and l.detail["idx"] == 1 for l in lv)
        R.check(ok, "C20.R3", "body:%s" % (fkey(b) + ":" + (b.impl_self or "")[:40]), "to_raw_value(&self)", "%s for %s is not serde_json::value::to_raw_value(&self)" % (short(b.path), b.impl_self), "%s:%d" % (b.file, b.lo))
    R.floor("C20.R3", n, 20, "blanket ToRpcParams bodies")


def r4_batch_builder(ctx):
    F, R = ctx.F, ctx.R
    b = F.one(r"^jsonrpsee_core::params::BatchRequestBuilder::<'a>::build$")
    R.fn(b)
    ie = b.calls_to(r"Vec::<.*>::is_empty$")
    built = [st["rv"]["variant"] for blk in b.blocks for st in blk["st"] if st["s"] == "assign" and st["pl"]["l"] == 0 and st["rv"]["k"] == "agg"]
    R.check(len(ie) == 1 and sorted(built) == ["Err", "Ok"], "C20.R4", "batch-build:empty-refused", "an empty batch builder is refused", "BatchRequestBuilder::build no longer refuses an empty batch", "%s:%d" % (b.file, b.lo))
    ins = F.one(r"^jsonrpsee_core::params::BatchRequestBuilder::<'a>::insert$")
    R.fn(ins)
    tp = [c for c in ins.calls if (c.callee or "").endswith("ToRpcParams::to_rpc_params")]
    ps = ins.calls_to(r"Vec::<.*>::push$")
    R.check(len(tp) == 1 and len(ps) == 1, "C20.R4", "batch-insert:stores-params", "insert stores (method, to_rpc_params(value))", "BatchRequestBuilder::insert changed (to_rpc_params=%d push=%d)" % (len(tp), len(ps)), "%s:%d" % (ins.file, ins.lo))
    if tp and ps:
        cont = None
        for br in ins.calls_to(r"Try.*::branch$"):
            if arg_is_local(ins, br.args[0], tp[0].dest["l"]):
                for sb, arms, other in flow.switch_on(ins, br.dest["l"]):
                    cont = arms.get("0")
        if cont is None:
            # `match value.to_rpc_params() { Ok(p) => p, Err(e) => return Err(e) }` instead of `?`
            for sb, arms, other in flow.switch_on(ins, tp[0].dest["l"]):
                cont = arms.get("0")
        R.check(cont is not None and ins.dominates(cont, ps[0].bb), "C20.R4", "batch-insert:push-only-on-success", "an entry is stored only when its params serialised", "a batch entry is stored although its params failed to serialise", where(ps[0]))



def r5_builders_wrap_their_own_kind(ctx):
    """every way of creating an ObjectParams gives it the `{`..`}` builder and every way of creating an ArrayParams the
    `[`..`]` one (new(), Default, Clone of such a value): ObjectParams always writes `"name":value` pairs, so on a
    positional builder the first insert already produces invalid JSON and build() panics"""
    F, R = ctx.F, ctx.R
    tr = ctx.tracer(follow_callers=False, follow_fields=False, inline_calls=False)
    n = 0
    for ty, ctor in (("ObjectParams", "named"), ("ArrayParams", "positional")):
        for b in F.real_bodies():
            if b.crate != CORE or is_test_body(b):
                continue
            for bi, blk in enumerate(b.blocks):
                if blk.get("cleanup") or bi not in b.reachable:
                    continue
                for st in blk["st"]:
                    if st["s"] == "assign" and st["rv"]["k"] == "agg" and st["rv"].get("adt") == "jsonrpsee_core::params::%s" % ty:
                        if b.path.endswith("::clone") and (b.impl_trait or "").endswith("Clone"):
                            continue
                        n += 1
                        R.fn(b)
                        lv = tr.origins(b, st["rv"]["ops"][0])
                        # look through one crate-local wrapper (e.g. a `Default for ParamsBuilder` that picks a kind)
                        flat = []
                        for l in lv:
                            tgt = F.bodies.get(l.detail.get("callee") or "") if l.kind == "call" else None
                            if tgt is not None and tgt.crate == CORE and not re.search(r"ParamsBuilder::(named|positional|new)$", tgt.path):
                                flat += tr.origins(tgt, {"cp": {"l": 0}})
                            else:
                                flat.append(l)
                        lv = flat
                        ok = bool(lv) and all(l.kind == "call" and re.search(r"params_builder::ParamsBuilder::%s$" % ctor, l.detail["callee"] or "") for l in lv)
                        R.check(ok, "C20.R5", "%s:%s" % (ty, fkey(b)), "%s wraps ParamsBuilder::%s()" % (short(b.path), ctor), "%s creates an %s around %s instead of ParamsBuilder::%s(): the first insert then yields invalid JSON and build() panics" % (short(b.path), ty, [flow.leaf_str(l)[:70] for l in lv], ctor), "%s:%d" % (b.file, st["sp"][0]))
    R.floor("C20.R5", n, 2, "constructions of ObjectParams / ArrayParams")



def rgen_generated_clients(ctx):
    """the stubs #[rpc(client)] generates put every argument they are given into the builder (checked over the generated
    corpus of C17: positional and by-name, Option arguments included)"""
    from . import c17
    n = c17.client_encodes_every_argument(ctx, "C20.GEN")
    nk = c17.client_kind_matches_declaration(ctx, "C20.GEN")
    ctx.R.floor("C20.GEN.kind", nk, 30, "corpus declarations with parameters whose encoding kind was compared with the declaration")
    ctx.R.floor("C20.GEN", n, 50, "generated client stubs")


def rkey_named_keys_are_json_strings(ctx):
    """named: the same key/value pairs - the key reaches the buffer through serde_json's string serialiser only (= C17.W6)"""
    from . import c17
    import types
    return c17.w6_runtime_key_encoding(ctx)


def r6_builders_do_not_panic(ctx):
    """`building never panics`: no function of core::params can panic on what the caller puts in - the only vetted
    panic site is ParamsBuilder::build's `expect` on RawValue::from_string of bytes the builder itself produced (covered
    by R1's rollback). An assertion on the caller's input (an empty member name is a legal JSON key) is a panic in debug
    builds."""
    F, R = ctx.F, ctx.R
    n = 0
    VETTED = {r"^jsonrpsee_core::params::params_builder::ParamsBuilder::build$": 1}
    for b in F.real_bodies():
        if not re.search(r"^<?jsonrpsee_core::params::", b.path) or is_test_body(b):
            continue
        n += 1
        ps = [c for c in b.calls if re.search(r"^core::panicking::|^std::rt::begin_panic|::expect$|::unwrap$|assert_failed|::unwrap_unchecked$|^std::process::(abort|exit)$", c.name() or "")]
        allowed = max([v for k, v in VETTED.items() if re.search(k, b.path)] or [0])
        R.check(len(ps) <= allowed, "C20.R6", "%s:no-panic" % fkey(b), "%s has no panic site beyond the vetted ones (%d)" % (short(b.path), allowed), "%s can panic (%s): building parameters must report failures as errors, never panic on the caller's input" % (short(b.path), sorted({short(c.name()) for c in ps})), where(ps[-1]) if ps else None)
    R.floor("C20.R6", n, 15, "bodies of core::params")


def r7_transports_send_the_text_they_are_given(ctx):
    """the text the builders produced is the text on the wire: both client transports hand the serialised message to the
    network layer as it is - the operand of the HTTP request's body() and of the WebSocket send_text() is the transport
    function's own `body` parameter, identity-only (a re-encoding step in between - escaping non-ASCII characters by
    hand - can change what the server decodes although both texts are valid JSON)."""
    F, R = ctx.F, ctx.R
    tr = ctx.tracer(follow_callers=False, follow_fields=False, inline_calls=False)
    n = 0
    for pat, callpat, label in ((r"^jsonrpsee_http_client::transport::HttpTransportClient::<.*>::inner_send::\{closure#0\}$", r"http::request::Builder::body$", "HTTP"),
                                (r"jsonrpsee_client_transport::ws::Sender<T> as jsonrpsee_core::client::TransportSenderT>::send::\{closure#0\}$", r"^soketto::(connection::)?Sender::<.*>::send_text(_owned)?$", "WebSocket")):
        b = F.one(pat)
        R.fn(b)
        cs = b.calls_to(callpat)
        if not cs:
            raise AnchorLost("the %s transport's hand-over of the message text (%s)" % (label, callpat))
        for c in cs:
            n += 1
            lv = tr.origins(b, c.args[1])
            ok = bool(lv) and all(l.kind == "param" and l.detail.get("name") == "body" for l in lv)
            R.check(ok, "C20.R7", "%s:sends-body-verbatim" % label, "the %s transport sends the text it was given" % label, "the %s client transport does not send the serialised message as it was given (%s): the params text produced by the builders is re-encoded on the way out, so the server can decode other values than the ones inserted" % (label, [flow.leaf_str(l)[:60] for l in lv]), where(c))
    R.floor("C20.R7", n, 2, "hand-over sites of the client transports")


def r8_builders_hand_out_their_bytes(ctx):
    """what the builders wrote is what the caller gets: (a) ParamsBuilder::build turns its byte buffer into the RawValue's
    text by reinterpreting the bytes as UTF-8 (String::from_utf8 / from_utf8_unchecked of the `bytes` field) - a per-byte
    `char::from` widens every byte to a Latin-1 code point and mangles all non-ASCII text while the result stays valid
    JSON; (b) ToRpcParams for ArrayParams / ObjectParams is `Ok(self.0.build())` with no further, fallible step (a
    post-check that reads names as borrowed `&str` rejects every name that needs a JSON escape); (c) nothing in
    core::params decodes a string as a borrowed `&str` (= C15.R7)."""
    F, R = ctx.F, ctx.R
    tr = ctx.tracer(follow_callers=False, follow_fields=False, inline_calls=False)
    b = F.one(PB + "build$")
    R.fn(b)
    fs = b.calls_to(r"RawValue::from_string$")
    R.floor("C20.R8", len(fs), 1, "RawValue::from_string in ParamsBuilder::build")
    for c in fs:
        lv = tr.origins(b, c.args[0])
        conv = [l for l in lv if l.kind == "call" and re.search(r"String::from_utf8(_unchecked)?$", l.detail.get("callee") or "")]
        ok = bool(lv) and len(conv) == len(lv)
        if ok:
            for l in conv:
                src = tr.origins(b, l.detail["args"][0])
                ok = ok and bool(src) and all((x.kind in ("field", "param") and "bytes" in flow.leaf_str(x)) or "bytes" in " ".join(x.chain) for x in src)
        R.check(ok, "C20.R8", "build:text-is-the-buffer", "build() hands out the buffer's bytes as UTF-8 text", "ParamsBuilder::build does not turn its byte buffer into text by String::from_utf8(_unchecked) of `bytes` (%s): the serialised values are re-encoded on the way out - non-ASCII characters come out as other characters" % [flow.leaf_str(l)[:60] for l in lv], where(c))
    for ty in ("ArrayParams", "ObjectParams"):
        for x in F.find(r"^<jsonrpsee_core::params::%s as jsonrpsee_core::traits::ToRpcParams>::to_rpc_params$" % ty):
            R.fn(x)
            calls = [c for y in F.nested(x) for c in y.calls if not c.exp]
            builds = [c for c in calls if re.search(r"ParamsBuilder::build$", c.name() or "")]
            others = [c for c in calls if c not in builds]
            R.check(len(builds) == 1 and not others, "C20.R8", "%s:to_rpc_params-is-build" % ty, "%s::to_rpc_params is build() and nothing else" % ty, "%s::to_rpc_params does more than hand out build()'s result (%s): a step after the builder can fail or alter params that every insert accepted" % (ty, sorted({short(c.name()) for c in others})), "%s:%d" % (x.file, x.lo))
    from . import c15
    n = c15._borrowed_str_scan(F, R, r"^<?jsonrpsee_core::(params|traits)", "C20.R8")
    R.ok("C20.R8", "no-borrowed-str", "%d deserialisation sites inspected in core::params / core::traits" % n)


def rmacro_rpc_params_reports_failures(ctx):
    """`an insert that fails reports an error`: the rpc_params! macro (analysed at its use sites in the corpus) inserts every
    argument once and does not continue past a failed insert - the Err arm of each ArrayParams::insert never reaches the
    function's return (today: it panics with the parameter's name). A discarded insert result silently drops the value and
    shifts the following ones one position to the left."""
    F, R = ctx.F, ctx.R
    n = 0
    for b in F.find(r"^verif_corpus::uses_rpc_params_\d+$"):
        R.fn(b)
        want = int(b.path.rsplit("_", 1)[1])
        ins = b.calls_to(r"params::ArrayParams::insert$")
        R.check(len(ins) == want, "C20.MACRO", "%s:one-insert-per-argument" % b.path.split("::")[-1], "rpc_params! with %d arguments performs %d inserts" % (want, want), "rpc_params! with %d arguments performs %d inserts" % (want, len(ins)), "%s:%d" % (b.file, b.lo))
        exits = {bi for bi, blk in enumerate(b.blocks) if blk["term"] and blk["term"]["t"] == "return"}
        for k, c in enumerate(sorted(ins, key=lambda c: c.bb)):
            n += 1
            errs = [arms["1"] for sb, arms, other in flow.switch_on(b, c.dest["l"]) if arms.get("1") is not None] if c.dest is not None else []
            ok = bool(errs) and all(not ((b.reach_from(t) | {t}) & exits) for t in errs)
            R.check(ok, "C20.MACRO", "%s:insert#%d-failure-not-ignored" % (b.path.split("::")[-1], k), "a failed insert does not let rpc_params! return", "rpc_params! %s of ArrayParams::insert for argument %d: a parameter that fails to serialise is dropped silently, the params are built without it and the later values move one position to the left" % ("continues after a failed" if errs else "ignores the result", k), where(c))
    R.floor("C20.MACRO", n, 2, "ArrayParams::insert sites in rpc_params! expansions")


def rser_request_envelope_keeps_params(ctx):
    """what the builders produced is what goes on the wire: the request envelope's derived serialiser omits `params` only
    when it is None (never by looking at the encoded text - an empty `[]` / `{}` is a value) (= C15.R12)"""
    from . import c15
    c15.r12_derived_writers_mirror_their_readers(ctx)


def r9_builder_wrappers_forward_every_value(ctx):
    """`ArrayParams::insert` / `ObjectParams::insert` hand the value to the builder - every value, unconditionally: one
    call (ParamsBuilder::insert / insert_named), no branch. A shortcut keyed on the *type* (zero-sized values `all encode
    as null`) emits something else than the value's own serialisation: `[T; 0]` is `[]`, an empty struct `{}`, a marker
    type with a hand-written Serialize whatever that writes."""
    F, R = ctx.F, ctx.R
    n = 0
    for nm, inner in (("ArrayParams", r"ParamsBuilder::insert$"), ("ObjectParams", r"ParamsBuilder::insert_named$")):
        b = F.one(r"^jsonrpsee_core::params::%s::insert$" % nm)
        R.fn(b)
        n += 1
        calls = [c for c in b.calls if not c.exp]
        fwd = [c for c in calls if re.search(inner, c.name() or "")]
        other = [c for c in calls if c not in fwd]
        sw = [bi for bi, blk in enumerate(b.blocks) if bi in b.reachable and not blk.get("cleanup") and blk["term"] and blk["term"]["t"] == "switch"]
        R.check(len(fwd) == 1 and not other and not sw, "C20.R9", "%s::insert:forwards" % nm, "%s::insert is one unconditional call of the builder" % nm, "%s::insert is no longer a plain forward to the builder (%d forwards, other calls %s, %d branches): some values are not encoded by their own Serialize impl" % (nm, len(fwd), sorted({short(c.name()) for c in other})[:4], len(sw)), "%s:%d" % (b.file, b.lo))
    R.floor("C20.R9", n, 2, "insert wrappers")


def r10_builder_clone_is_derived(ctx):
    """a clone of a builder encodes what the original encodes - in particular a clone of an empty builder is empty (`no
    params`): Clone for ParamsBuilder / ArrayParams / ObjectParams is derived"""
    from .common import derived_impls_stay_derived
    derived_impls_stay_derived(ctx, "C20.R10", [("Clone for ParamsBuilder", r"^<jsonrpsee_core::params::params_builder::ParamsBuilder as std::clone::Clone>::clone$"), ("Clone for ArrayParams", r"^<jsonrpsee_core::params::ArrayParams as std::clone::Clone>::clone$"), ("Clone for ObjectParams", r"^<jsonrpsee_core::params::ObjectParams as std::clone::Clone>::clone$")])


LIB_RULES = [r10_builder_clone_is_derived, r9_builder_wrappers_forward_every_value, r8_builders_hand_out_their_bytes, r7_transports_send_the_text_they_are_given, r6_builders_do_not_panic, rser_request_envelope_keeps_params, rkey_named_keys_are_json_strings, r1_rollback, r2_build, r3_impls, r4_batch_builder, r5_builders_wrap_their_own_kind]
CONFIGS_QUICK = ["libs-all", "corpus"]
CONFIGS_THOROUGH = ["libs-all", "facade-full", "corpus"]


def _only(cfgs, rule):
    def run(ctx):
        if ctx.config in cfgs:
            return rule(ctx)
    run.__name__ = rule.__name__
    return run


RULES = [_only(("libs-all", "facade-full"), r) for r in LIB_RULES] + [_only(("corpus",), rgen_generated_clients), _only(("corpus",), rmacro_rpc_params_reports_failures)]

LEVEL_TEXT = (
    "Structural necessary conditions decided from the type-checked program: rollback on every error exit of both insert "
    "functions (to a length recorded before anything was written), the exact table of build(), the token constants, and "
    "exhaustiveness + uniform body of all ToRpcParams impls (tuple arities 1..16 checked from the impl facts). That the "
    "bytes parse back to the inserted values is serde_json's contract and is not decided."
)
LEVEL_NOTE = "Trusted: rustc MIR; serde_json emits valid JSON for a successful Serialize. Not decided: parse-back equality."
TECHNIQUE = "error-exit dominance (rollback) + constant/table extraction + impl exhaustiveness over trait-impl facts"

"""C08 — no response payload above max_response_body_size is ever sent (structural clauses)."""
import re

from .common import (classify_config_leaves, fkey, where, chain_str, arg_is_local, short, SERVER, CORE, controlling_comparisons,
                     normalise_guard, sum_atoms, callback_invocations, terminal_field, follow_value)
from ..facts import op_place, op_const, AnchorLost, is_test_body
from .. import flow

PID = "C08"
LEVEL = "other"
WANT = "max_response_body_size"
EXPLANATION = (
    'Static structural analysis over MIR. Decided for every path of the current source: R1 the size operand of every '
    "MethodResponse::{response,subscription_response} construction originates (identity-only) from the callback's "
    'MaxResponseSize parameter or a field named max_response_body_size; the chain ServerConfig.max_response_body_size '
    '-> RpcService::new (every site) -> RpcService.max_response_body_size -> callback argument is followed at each '
    "callback invocation in RpcService::call; R2 the bounded writer's guard has normal form `buffered + incoming <= "
    'max_len` and the response serializer writes through it; R3 BatchResponseBuilder::append refuses iff `entry + '
    'buffered + 1 > max`, with -32011 / Id::Null, and its limit originates from RpcService.max_response_body_size; R4 '
    "the oversize single result is answered with OVERSIZED_RESPONSE_CODE and the call's own id. CFG "
    "max_response_body_size reaches ServerConfig verbatim. NOT decided: byte-exactness of serde_json's output vs. the "
    'accounting; behaviour for concrete sizes.'
)
RULE_TEXT = "instances = response-constructor sites, callback invocations, RpcService::new sites, guard comparisons, sum atoms; non-trivial = needed an origin trace or a guard normalisation"
TRUSTED = ["rustc MIR + trait resolution", "serde_json::to_writer writes only through io::Write::write"]
ASSUMPTIONS = ["user middleware layered over RpcService is outside the analysed program"]

CTOR = r"method_response::MethodResponse::(response|subscription_response)$|^jsonrpsee_core::server::MethodResponse::(response|subscription_response)$"


def r1_size_provenance(ctx):
    F, R = ctx.F, ctx.R
    tr = ctx.tracer()
    sites = [c for c in F.all_calls(CTOR) if c.body.crate in (CORE, SERVER)]
    R.floor("C08.R1", len(sites), 7, "MethodResponse::response/subscription_response sites")
    for c in sites:
        b = c.body
        if re.search(CTOR, b.path):
            continue  # a constructor wrapping the other one: its callers are sites themselves
        R.fn(b)
        key = fkey(b) + ":size-origin"
        leaves = tr.origins(b, c.args[2])
        bad = []
        good = 0
        for lf in leaves:
            if lf.kind == "param":
                # a callback closure's parameter (slot argument) or an intermediate function parameter
                # (its callers are traced too)
                good += 1
            elif lf.kind == "field":
                owner, name = terminal_field(lf)
                if name == WANT or (name == "max_response_size" and (owner or "").endswith("::MethodSink")):
                    good += 1  # MethodSink carries the limit; its constructions are checked below (sink-ctor)
                else:
                    bad.append((lf, "bounded by field `%s` of %s, which is not the configured response limit" % (name, short(owner))))
            elif lf.kind == "const":
                if fkey(lf.where).endswith("MethodSink::new"):
                    continue  # the unbounded constructor: who may call it is checked below (sink-ctor)
                bad.append((lf, "bounded by a constant (%s), not by the configured response limit" % flow.leaf_str(lf)))
            elif lf.kind == "arith":
                bad.append((lf, "arithmetic (%s) on the response limit changes the boundary" % lf.detail["op"]))
            else:
                bad.append((lf, "untraceable bound: %s" % flow.leaf_str(lf)))
        if bad:
            # one violation per site; list every offending origin
            R.bad("C08.R1", key, "response size bound at %s: %s" % (short(b.path), "; ".join(sorted({w for _, w in bad}))), where(c), {"origins": [chain_str(l) for l, _ in bad][:6]})
        else:
            R.ok("C08.R1", key, "response size bound originates from the callback's MaxResponseSize parameter / %s" % WANT, where(c), {"leaves": [flow.leaf_str(l) for l in leaves][:6]})
    # MethodSink constructions: the unbounded constructor only in the sanctioned serverless helper; the bounded one
    # receives the configured response limit
    SANCTIONED_UNBOUNDED = {
        "jsonrpsee_core::server::rpc_module::Methods::inner_call::{closure#0}": "serverless test helper of RpcModule, explicitly unbounded response size",
    }
    for c in F.all_calls(r"^jsonrpsee_core::server::MethodSink::new$|^jsonrpsee_core::server::helpers::MethodSink::new$"):
        if c.body.crate not in (CORE, SERVER):
            continue
        k = fkey(c.body)
        R.check(k in SANCTIONED_UNBOUNDED, "C08.R1", k + ":sink-ctor-unbounded", "unbounded MethodSink only in the sanctioned serverless helper (%s)" % SANCTIONED_UNBOUNDED.get(k), "a connection sink is built with MethodSink::new (limit u32::MAX): subscribe-accept responses on it are not bounded by max_response_body_size", where(c))
    nwl = [c for c in F.all_calls(r"MethodSink::new_with_limit$") if c.body.crate in (CORE, SERVER)]
    for c in nwl:
        leaves = tr.origins(c.body, c.args[1])
        good, badl, sk = classify_config_leaves(leaves, WANT, ("jsonrpsee_server",))
        key = fkey(c.body) + ":sink-ctor-limit"
        if badl or not good:
            R.bad("C08.R1", key, "MethodSink::new_with_limit's limit: %s" % ("; ".join(w for _, w in badl) or "no origin in a field named %s" % WANT), where(c))
        else:
            R.ok("C08.R1", key, "connection sink limit originates from %s" % WANT, where(c))
    ws_sinks = len(nwl) + len([c for c in F.all_calls(r"MethodSink::new$") if c.body.crate == SERVER])
    R.floor("C08.R1.sinks", ws_sinks, 2, "connection sink constructions in the server")
    # callback invocations in the server's RpcService::call pass RpcService.max_response_body_size
    call = F.one(r"^<jsonrpsee_server::middleware::rpc::RpcService as jsonrpsee_core::middleware::RpcServiceT>::call$")
    R.fn(call)
    inv = callback_invocations(call)
    n = 0
    size_pos = {"Async": 3, "Sync": 2, "Unsubscription": 3}
    for i in inv:
        v = i["variant"][1] if i["variant"] else None
        if v not in size_pos or i["ops"] is None:
            continue
        n += 1
        leaves = tr.origins(call, i["ops"][size_pos[v]])
        good, bad, sk = classify_config_leaves(leaves, WANT, ("jsonrpsee_server",))
        key = "RpcService::call:%s-size-arg" % v
        if bad or not good:
            R.bad("C08.R1", key, "%s callback's size argument: %s" % (v, "; ".join(w for _, w in bad) or "no origin in a field named %s" % WANT), where(i["call"]))
        else:
            R.ok("C08.R1", key, "%s callback is invoked with RpcService.%s" % (v, WANT), where(i["call"]))
    R.floor("C08.R1.invocations", n, 3, "callback invocations with a size argument in RpcService::call")
    # RpcService::new sites
    news = [c for c in F.all_calls(r"^jsonrpsee_server::middleware::rpc::RpcService::new$") if c.body.crate == SERVER]
    R.floor("C08.R1.new", len(news), 4, "RpcService::new sites")
    for c in news:
        R.fn(c.body)
        leaves = tr.origins(c.body, c.args[1])
        good, bad, sk = classify_config_leaves(leaves, WANT, ("jsonrpsee_server",))
        key = fkey(c.body) + ":RpcService::new-size"
        if bad or not good:
            R.bad("C08.R1", key, "RpcService::new's response limit: %s" % ("; ".join(w for _, w in bad) or "no origin in a field named %s" % WANT), where(c))
        else:
            R.ok("C08.R1", key, "RpcService::new receives ServerConfig.%s" % WANT, where(c))
    # RpcService::new stores its parameter in the same-named field
    nb = F.one(r"^jsonrpsee_server::middleware::rpc::RpcService::new$")
    trl = ctx.tracer(follow_callers=False, follow_fields=False)
    for bi, blk in enumerate(nb.blocks):
        for st in blk["st"]:
            if st["s"] == "assign" and st["rv"]["k"] == "agg" and st["rv"].get("adt", "").endswith("rpc::RpcService"):
                rv = st["rv"]
                i = rv["fields"].index(WANT) if WANT in rv["fields"] else None
                if i is None:
                    raise AnchorLost("field %s of RpcService" % WANT)
                lv = trl.origins(nb, rv["ops"][i])
                ok = any(l.kind == "param" and l.detail["idx"] == 2 for l in lv) and all(l.kind == "param" for l in lv)
                R.check(ok, "C08.R1", "RpcService::new:stores-param", "RpcService::new stores its size parameter in %s" % WANT, "RpcService::new does not store its size parameter in %s: %s" % (WANT, [flow.leaf_str(l) for l in lv]), "%s:%d" % (nb.file, st["sp"][0]))


def _guard(ctx, body, write_call, rule, key, limit_field, expected_atoms, expect_rel="<="):
    R = ctx.R
    tr = ctx.tracer(follow_callers=False, follow_fields=False)
    cmps = controlling_comparisons(body, write_call.bb)
    rel = None
    for cmp in cmps:
        la = tr.origins(body, cmp["a"])
        lb = tr.origins(body, cmp["b"])
        a_is_limit = any(l.kind == "field" and terminal_field(l)[1] == limit_field for l in la)
        b_is_limit = any(l.kind == "field" and terminal_field(l)[1] == limit_field for l in lb)
        if a_is_limit == b_is_limit:
            continue
        rel = normalise_guard(cmp, a_is_limit)
        size_op = cmp["b"] if a_is_limit else cmp["a"]
        lim_leaves = la if a_is_limit else lb
        ok_lim = all(l.kind == "field" and terminal_field(l)[1] == limit_field for l in lim_leaves)
        R.check(ok_lim, rule, key + ":limit-identity", "the guard compares against %s itself" % limit_field, "the guard's limit operand is not %s unchanged: %s" % (limit_field, [flow.leaf_str(l) for l in lim_leaves]), where(write_call))
        R.check(rel == expect_rel, rule, key + ":guard-form", "write happens iff size %s limit" % rel, "guard normal form is `size %s limit`, expected `size %s limit` (off-by-one or inverted guard)" % (rel, expect_rel), where(write_call))
        atoms = sorted(sum_atoms(body, tr, size_op))
        R.check(atoms == sorted(expected_atoms), rule, key + ":size-sum", "size = %s" % atoms, "the guarded size is %s, expected %s" % (atoms, sorted(expected_atoms)), where(write_call))
    if rel is None:
        R.bad(rule, key + ":unguarded", "the buffer write is not controlled by a comparison against %s" % limit_field, where(write_call))


def r2_bounded_writer(ctx):
    F, R = ctx.F, ctx.R
    w = F.one(r"^<&mut jsonrpsee_core::server::method_response::BoundedWriter as std::io::Write>::write$")
    R.fn(w)
    ext = w.calls_to(r"^std::vec::Vec::<.*>::(extend_from_slice|extend|push|append)$")
    R.floor("C08.R2", len(ext), 1, "buffer writes in BoundedWriter::write")
    for c in ext:
        _guard(ctx, w, c, "C08.R2", "BoundedWriter::write", "max_len", [("len", "field:buf"), ("len", "param:buf")])
    # serializer writes through the bounded writer built from the size parameter
    rp = F.one(r"^jsonrpsee_core::server::method_response::MethodResponse::response$")
    R.fn(rp)
    tr = ctx.tracer(follow_callers=False, follow_fields=False)
    bw = rp.calls_to(r"BoundedWriter::new$")
    tw = rp.calls_to(r"^serde_json::to_writer$|^serde_json::ser::to_writer$")
    if not bw or not tw:
        raise AnchorLost("BoundedWriter::new / serde_json::to_writer in MethodResponse::response")
    for c in bw:
        lv = tr.origins(rp, c.args[0])
        ok = all(l.kind == "param" and l.detail["idx"] == 3 for l in lv) and lv
        R.check(bool(ok), "C08.R2", "response:writer-limit", "BoundedWriter::new(max_response_size parameter)", "the bounded writer's limit is not the max_response_size parameter unchanged: %s" % [flow.leaf_str(l) for l in lv], where(c))
    holders = set()
    for c in bw:
        holders |= follow_value(rp, c.dest["l"])
    for c in tw:
        ok = any(arg_is_local(rp, c.args[0], h) for h in holders)
        R.check(ok, "C08.R2", "response:serialises-into-bounded", "the response is serialised into the bounded writer", "the response is serialised into something else than the bounded writer", where(c))
    # every reply built by response() went through the bounded serialisation (no early return around it)
    for c in tw:
        okp = flow.all_paths_pass(rp, 0, {c.bb}, rp.exits)
        R.check(okp, "C08.R2", "response:always-bounded", "every path through MethodResponse::response serialises into the bounded writer", "a path through MethodResponse::response returns without the bounded serialisation (e.g. an early return for error payloads): such a reply is sent whatever its size", where(c))
    # the bytes sent are the writer's bytes
    ib = rp.calls_to(r"BoundedWriter::into_bytes$")
    R.check(bool(ib), "C08.R2", "response:uses-writer-bytes", "the success response is built from the bounded writer's bytes", "the success response is not built from the bounded writer's bytes", "%s:%d" % (rp.file, rp.lo))


def r3_batch(ctx):
    F, R = ctx.F, ctx.R
    ap = F.one(r"^jsonrpsee_core::server::method_response::BatchResponseBuilder::append$")
    R.fn(ap)
    pushes = ap.calls_to(r"^std::string::String::push_str$")
    R.floor("C08.R3", len(pushes), 1, "push_str sites in BatchResponseBuilder::append")
    for c in pushes:
        _guard(ctx, ap, c, "C08.R3", "append", "max_response_size", [("len", "field:json"), ("len", "field:result"), ("const", 1)])
    # what is written per accepted entry is exactly what the guard accounted: the entry's json and one separator byte
    tr0 = ctx.tracer(follow_callers=False, follow_fields=False)
    ps = ap.calls_to(r"^std::string::String::push_str$")
    pc_ = ap.calls_to(r"^std::string::String::push$")
    for c in ps:
        lv = tr0.origins(ap, c.args[1])
        okj = any(l.kind == "call" and re.search(r"RawValue::get$", l.detail["callee"] or "") for l in lv) or any(l.kind == "field" and l.detail["fields"][-1][1] == "json" for l in lv)
        R.check(okj, "C08.R3", "append:writes-entry-json", "append writes the entry's json", "append writes something else than the entry's json: %s" % [flow.leaf_str(l) for l in lv], where(c))
    w1 = {}
    for c in ps:
        w1[c.bb] = w1.get(c.bb, 0) + 1
    w2 = {}
    for c in pc_:
        w2[c.bb] = w2.get(c.bb, 0) + 1
    oks = [bi for bi, blk in enumerate(ap.blocks) for st in blk["st"] if st["s"] == "assign" and st["pl"]["l"] == 0 and st["rv"]["k"] == "agg" and st["rv"].get("variant") == "Ok"]
    if oks:
        a1 = flow.path_counts(ap, 0, w1, stop=set(oks))
        a2 = flow.path_counts(ap, 0, w2, stop=set(oks))
        R.paths_enumerated += 2
        R.check(a1 == (1, 1) and a2 == (1, 1), "C08.R3", "append:bytes-written-match-accounting", "an accepted entry writes its json once and exactly one separator byte (accounted by the `+ 1`)", "an accepted entry writes json %s times and %s single bytes: the bytes written differ from the `json + buffered + 1` the guard accounted" % (a1, a2), "%s:%d" % (ap.file, ap.lo))
    fin = F.one(r"^jsonrpsee_core::server::method_response::BatchResponseBuilder::finish$")
    R.fn(fin)
    rs = fin.calls_to(r"RawValue::from_string$")
    if not rs:
        raise AnchorLost("RawValue::from_string in BatchResponseBuilder::finish")
    wf = {}
    for c in fin.calls_to(r"^std::string::String::push$"):
        wf[c.bb] = wf.get(c.bb, 0) + 1
    for c in fin.calls_to(r"^std::string::String::pop$"):
        wf[c.bb] = wf.get(c.bb, 0) - 1
    for c in fin.calls_to(r"^std::string::String::(push_str|insert|insert_str|extend)$"):
        wf[c.bb] = wf.get(c.bb, 0) + 1000
    net = flow.path_counts(fin, 0, wf, stop={rs[0].bb})
    R.paths_enumerated += 1
    R.check(net == (0, 0), "C08.R3", "finish:no-unaccounted-growth", "finish() replaces the trailing separator by `]`: the array is exactly as long as what append accounted", "finish() changes the buffer length by %s bytes that append's size guard never accounted: a batch reply one byte above the limit is sent" % (net,), where(rs[0]))
    nwl0 = F.one(r"^jsonrpsee_core::server::method_response::BatchResponseBuilder::new_with_limit$")
    init = nwl0.calls_to(r"^std::string::String::push$")
    R.check(len(init) == 1 and not nwl0.calls_to(r"^std::string::String::push_str$"), "C08.R3", "new_with_limit:one-initial-byte", "the builder starts with the single `[` byte (covered by the buffered-length term)", "the builder's initial content changed (%d pushes)" % len(init), "%s:%d" % (nwl0.file, nwl0.lo))
    # refusal: -32011 with Id::Null
    rej = ap.calls_to(r"reject_too_big_batch_response$")
    R.check(bool(rej), "C08.R3", "append:refusal-code", "refusal is built with reject_too_big_batch_response (-32011)", "append never builds the -32011 refusal", "%s:%d" % (ap.file, ap.lo))
    tr = ctx.tracer(follow_callers=False, follow_fields=False)
    for e in ap.calls_to(r"MethodResponse::error$"):
        lv = tr.origins(ap, e.args[0])
        ok = any(l.kind == "agg" and l.detail.get("variant") == "Null" for l in lv)
        R.check(ok, "C08.R3", "append:refusal-id-null", "the batch refusal carries Id::Null", "the batch refusal does not carry Id::Null", where(e))
    rb = F.one(r"^jsonrpsee_types::error::reject_too_big_batch_response$")
    from .common import error_code_ints
    R.check(error_code_ints(ctx, rb) == {"-32011"}, "C08.R3", "reject_too_big_batch_response:code", "reject_too_big_batch_response uses -32011", "reject_too_big_batch_response does not use TOO_BIG_BATCH_RESPONSE_CODE = -32011", "%s:%d" % (rb.file, rb.lo))
    # limit of the builder
    trf = ctx.tracer()
    nl = [c for c in F.all_calls(r"BatchResponseBuilder::new_with_limit$") if c.body.crate == SERVER]
    R.floor("C08.R3.limit", len(nl), 1, "BatchResponseBuilder::new_with_limit sites in the server")
    for c in nl:
        R.fn(c.body)
        leaves = trf.origins(c.body, c.args[0])
        good, bad, sk = classify_config_leaves(leaves, WANT, ("jsonrpsee_server",))
        key = fkey(c.body) + ":batch-limit"
        if bad or not good:
            R.bad("C08.R3", key, "batch response limit: %s" % ("; ".join(w for _, w in bad) or "no origin in a field named %s" % WANT), where(c))
        else:
            R.ok("C08.R3", key, "batch builder limit originates from %s" % WANT, where(c))
    nwl = F.one(r"^jsonrpsee_core::server::method_response::BatchResponseBuilder::new_with_limit$")
    for bi, blk in enumerate(nwl.blocks):
        for st in blk["st"]:
            if st["s"] == "assign" and st["rv"]["k"] == "agg" and st["rv"].get("adt", "").endswith("BatchResponseBuilder"):
                rv = st["rv"]
                i = rv["fields"].index("max_response_size")
                lv = tr.origins(nwl, rv["ops"][i])
                ok = lv and all(l.kind == "param" and l.detail["idx"] == 1 for l in lv)
                R.check(bool(ok), "C08.R3", "new_with_limit:stores-param", "new_with_limit stores its parameter as the limit", "new_with_limit does not store its parameter unchanged: %s" % [flow.leaf_str(l) for l in lv], "%s:%d" % (nwl.file, st["sp"][0]))


def r4_oversize_reply(ctx):
    F, R = ctx.F, ctx.R
    rp = F.one(r"^jsonrpsee_core::server::method_response::MethodResponse::response$")
    tr = ctx.tracer(follow_callers=False, follow_fields=False)
    # every Response::new in response() carries the id parameter
    rn = rp.calls_to(r"^jsonrpsee_types::Response::<.*>::new$|^jsonrpsee_types::response::Response::<.*>::new$")
    R.floor("C08.R4", len(rn), 3, "Response::new sites in MethodResponse::response")
    for c in rn:
        lv = tr.origins(rp, c.args[1])
        ok = lv and all(l.kind == "param" and l.detail["idx"] == 1 for l in lv)
        R.check(bool(ok), "C08.R4", "response:id@bb-%s" % _ordinal(rn, c), "reply is built with the call's id", "a reply in MethodResponse::response is not built with the call's id: %s" % [flow.leaf_str(l) for l in lv], where(c))
    # oversize code
    eo = rp.calls_to(r"ErrorObject::<'.*>::borrowed$")
    found = False
    for c in eo:
        for lf in tr.origins(rp, c.args[0]):
            if lf.kind == "const" and lf.detail.get("name", "").endswith("OVERSIZED_RESPONSE_CODE") and lf.detail.get("int") == "-32008":
                found = True
    R.check(found, "C08.R4", "response:oversize-code", "the oversize replacement uses OVERSIZED_RESPONSE_CODE (-32008)", "the oversize replacement does not use OVERSIZED_RESPONSE_CODE = -32008", "%s:%d" % (rp.file, rp.lo))
    # it is chosen on the is_io() branch
    io = rp.calls_to(r"^serde_json::Error::is_io$|serde_json::error::Error::is_io$")
    R.check(bool(io), "C08.R4", "response:is_io", "the replacement is selected by serde_json::Error::is_io", "MethodResponse::response no longer distinguishes the writer's I/O error", "%s:%d" % (rp.file, rp.lo))
    for c in io:
        sws = flow.switch_on(rp, c.dest["l"])
        for sb, arms, other in sws:
            t_true = other if "0" in arms else arms.get("1")
            for e in eo:
                R.check(t_true is not None and rp.dominates(t_true, e.bb), "C08.R4", "response:oversize-on-io", "the -32008 error is built on the is_io() branch", "the -32008 error is not built on the is_io() branch", where(e))


def _ordinal(lst, c):
    return sorted(x.bb for x in lst).index(c.bb)



SIBLINGS = (("server", r"TowerServiceNoHttp<.*> as tower::Service<.*>>::call$"), ("ws::connect", r"^jsonrpsee_server::transport::ws::connect$"), ("http::call_with_service_builder", r"^jsonrpsee_server::transport::http::call_with_service_builder$"))


def r5_unbounded_constructor_gets_fixed_errors(ctx):
    """`MethodResponse::error` serialises without a size limit; that is sound only because everything handed to it is one of
    the library's fixed, small error objects: an ErrorCode constant, a `reject_*` helper, `ErrorObject::borrowed` of
    constants, prepare_error's code, or an invalid batch entry's parts. An error object that carries run-time data
    (`ErrorObject::owned(.., Some(data))`: a panic message, user input) must go through the bounded constructors."""
    F, R = ctx.F, ctx.R
    tr = ctx.tracer(follow_callers=False, follow_fields=False)
    OKCALL = r"jsonrpsee_types::error::reject_\w+$|ErrorObject::<'.*>::borrowed$|server::(helpers::)?prepare_error$|BatchEntryErr::<'.*>::into_parts$"
    n = 0
    for c in F.all_calls(r"MethodResponse::error$"):
        b = c.body
        if b.crate not in (CORE, SERVER) or is_test_body(b):
            continue
        if re.search(r"MethodResponse::subscription_error$", b.path):
            continue   # forwards its own parameter; its callers are bounded by R1
        n += 1
        R.fn(b)
        lv = tr.origins(b, c.args[1])
        bad = []
        for l in lv:
            if l.kind == "agg" and (l.detail.get("adt") or "").endswith("ErrorCode"):
                continue
            if l.kind == "call" and re.search(OKCALL, l.detail["callee"] or ""):
                continue
            if l.kind == "const":
                continue
            if l.kind == "call" and re.search(r"ErrorObject::<'.*>::owned$", l.detail["callee"] or "") and len(l.detail["args"]) >= 3:
                # owned(code, message, None): no run-time data attached; the message must be a constant as well
                wb = F.bodies[l.where]
                d3 = tr.origins(wb, l.detail["args"][2])
                m3 = tr.origins(wb, l.detail["args"][1])
                if d3 and all(x.kind == "agg" and x.detail.get("variant") == "None" for x in d3) and m3 and all(x.kind in ("const",) or (x.kind == "call" and re.search(r"ErrorCode::message$", x.detail["callee"] or "")) for x in m3):
                    continue
            bad.append(flow.leaf_str(l)[:80])
        R.check(bool(lv) and not bad, "C08.R5", "%s:error@%d" % (fkey(b), sorted(x.bb for x in b.calls_to(r"MethodResponse::error$")).index(c.bb)), "the unbounded MethodResponse::error gets a fixed library error object", "%s hands MethodResponse::error an error object built from %s: this constructor applies no size limit, so run-time data in the error (a panic message, echoed input) produces a response larger than max_response_body_size" % (short(b.path), bad), where(c))
    R.floor("C08.R5", n, 10, "MethodResponse::error sites")


def r6_batch_policy_not_derived_from_the_response_limit(ctx):
    """`the response limit never changes which requests are accepted`: the batch policy handed to handle_rpc_call is the
    configured batch_requests_config, verbatim - every leaf of its provenance is that configuration field (or a parameter
    fed from it), never a value built on the way (a Limit computed from max_response_body_size refuses batches whose
    reply would fit, and refuses them with the request-side error)."""
    from .c07 import _report_leaves
    F, R = ctx.F, ctx.R
    tr = ctx.tracer()
    n = 0
    for c in F.all_calls(r"^jsonrpsee_server::server::handle_rpc_call$"):
        if is_test_body(c.body) or len(c.args) < 3:
            continue
        n += 1
        R.fn(c.body)
        _report_leaves(R, "C08.R6", "%s:batch-policy-origin" % fkey(c.body), "batch policy passed to handle_rpc_call", where(c), tr.origins(c.body, c.args[2]), want="batch_requests_config")
    R.floor("C08.R6", n, 2, "callers of handle_rpc_call")


def r7_only_append_refuses_a_batch_reply(ctx):
    """`a batch reply that would exceed the limit becomes -32011; any reply that fits is sent unchanged`: whether the reply
    fits is decided where its bytes are counted - reject_too_big_batch_response is built by BatchResponseBuilder::append
    and nowhere else (refusing the whole batch because one entry was replaced by its -32008 error loses that entry's id
    and the other entries although the array would have fitted)."""
    F, R = ctx.F, ctx.R
    n = 0
    for c in F.all_calls(r"reject_too_big_batch_response$"):
        if c.body.crate not in (SERVER, CORE) or is_test_body(c.body):
            continue
        n += 1
        R.fn(c.body)
        R.check(bool(re.search(r"BatchResponseBuilder::append$", c.body.path)), "C08.R7", "too-big-batch-site:%s" % fkey(c.body), "-32011 is built where the reply's bytes are counted (append)", "%s answers `batch response too large` (-32011) on its own, without the reply having been measured by BatchResponseBuilder::append: a batch whose reply fits is refused, the entries' ids and the other entries' results are lost" % short(c.body.path), where(c))
    R.floor("C08.R7", n, 1, "sites that build the -32011 refusal")


def rhyper_vetted_transport_options(ctx):
    """`the limit concerns responses only`: no option of the hyper connection builder is derived from it (hyper's
    `max_buf_size` also caps the request head it is willing to parse) - the builder carries the vetted closed list of
    options only (= C11.R6)"""
    from . import c11
    c11.r6_vetted_transport_options(ctx)


def rsib_entry_points_agree(ctx):
    """the high-level server and the low-level entry points feed the shared machinery from the same settings"""
    from .common import sibling_config_agreement
    sibling_config_agreement(ctx, "C08.SIB", SIBLINGS, 6)


def rcfg_config_verbatim(ctx):
    """the configured `max_response_body_size` reaches the ServerConfig unchanged (setter stores its argument, build()/Clone copy it)"""
    from .common import config_field_integrity
    config_field_integrity(ctx, "C08.CFG", "max_response_body_size")



def rflag_success_flag_matches_json(ctx):
    """is_success() agrees with what was serialised (error replacements are flagged Failed)"""
    from .common import response_flag_matches_json
    response_flag_matches_json(ctx, "C08.FLAG")



def rin_inbound_limits_from_request_limit(ctx):
    """what the WebSocket side may receive is bounded by max_request_body_size only"""
    from .common import soketto_inbound_limits
    soketto_inbound_limits(ctx, "C08.INBOUND")


RULES = [r1_size_provenance, r2_bounded_writer, r3_batch, r4_oversize_reply, r5_unbounded_constructor_gets_fixed_errors, r6_batch_policy_not_derived_from_the_response_limit, r7_only_append_refuses_a_batch_reply, rhyper_vetted_transport_options, rsib_entry_points_agree, rcfg_config_verbatim, rflag_success_flag_matches_json, rin_inbound_limits_from_request_limit]

LEVEL_TEXT = (
    "Structural necessary conditions decided exactly from the type-checked program: provenance of every response-size "
    "bound from the configured response limit through the callback slots, the normal form and operands of the two size "
    "guards (single response writer, batch accumulator) including the exact-fit boundary, error codes and ids of the "
    "replacement errors. Tests sample sizes; these rules cover every constructor site and both guards for all values."
)
LEVEL_NOTE = "Trusted: rustc MIR; serde_json writes only via io::Write. Not decided: equality of accounted and emitted byte counts for every value."
TECHNIQUE = "MIR origin tracing across callback slots + guard normal-form extraction"

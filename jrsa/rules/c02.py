"""C02 — a batch is answered by one array with exactly one reply per call entry (structural clauses)."""
import re

from .common import (fkey, where, short, arg_is_local, enclosing_loop_next, follow_value, block_line, terminal_field, callback_invocations,
                     awaited_value_local, controlling_comparisons, normalise_guard, closures_in_variant, SERVER, CORE)
from .c01 import classification_sites, _single_region, HRC, CTOR, hrc_parts
from ..facts import op_place, op_const, AnchorLost, is_test_body
from .. import flow

PID = "C02"
LEVEL = "other"
EXPLANATION = (
    "Static analysis over MIR. Decided: R1 in handle_rpc_call's batch region RpcServiceT::batch is dominated by "
    'batch_config != Disabled and by a length guard with normal form `len > max -> refuse` (so `len <= max` '
    'proceeds); the refusal exits build Id::Null errors with -32005 / -32010 and reach no RpcServiceT method; an '
    'unparsable array is ParseError with Id::Null; R2 the ordered list of classification attempts per batch entry '
    'equals the list for a single message and every attempt parses the loop element; an unclassifiable entry becomes '
    'InvalidRequest with its recovered id or Id::Null; R3 in RpcService::batch each loop-body path appends exactly '
    "once for a Call entry (the awaited call result) and for an Err entry (with the entry's id), zero times for a "
    'Notification; after the loop `is_empty && got_notification` -> notification() else from_batch(finish()); '
    'finish() on an empty builder yields InvalidRequest with Id::Null; R4 no path from RpcService::batch through the '
    'Subscription callback slot reaches a direct write to the connection queue. CFG the configured BatchRequestConfig '
    'reaches ServerConfig verbatim (every write of the field takes a parameter or the same-named field; fresh '
    'variants only in default()). NOT decided: equality with the stand-alone response; permutations.'
)
RULE_TEXT = "instances = guards and refusal exits in the batch region, classification attempts, append counts per loop-body path, reachability queries from batch"
TRUSTED = ["rustc MIR + trait resolution", "serde_json"]
ASSUMPTIONS = ["user middleware is outside the analysed program"]

BATCH = r"^<jsonrpsee_server::middleware::rpc::RpcService as jsonrpsee_core::middleware::RpcServiceT>::batch::\{closure#0\}$"


def _null_id(tr, b, op):
    return any(l.kind == "agg" and l.detail.get("variant") == "Null" for l in tr.origins(b, op))


def r1_gate_before_work(ctx):
    F, R = ctx.F, ctx.R
    (sb_, single), (b, batch) = hrc_parts(F)
    R.fn(b)
    tr = ctx.tracer(follow_callers=False, follow_fields=False)
    disp = [c for c in b.calls if re.search(r"RpcServiceT::batch$", c.callee or "")]
    R.check(len(disp) == 1, "C02.R1", "one-batch-dispatch", "one RpcServiceT::batch site", "%d RpcServiceT::batch sites in handle_rpc_call" % len(disp), "%s:%d" % (b.file, b.lo))
    if not disp:
        return
    d = disp[0]
    # (a) Disabled arm refuses with -32005 / Id::Null and reaches no service method
    sw_cfg = None
    for bi, blk in enumerate(b.blocks):
        t = blk["term"]
        if t and t["t"] == "switch" and bi in b.reachable and b.dominates(batch, bi):
            p = op_place(t["discr"])
            if p is None:
                continue
            for l in flow._local_copies_back(b, p["l"], 6):
                for bj, sj, dpl, src in b.defs.get(l, []):
                    if src[0] == "rv" and src[1]["k"] == "discr":
                        tys = {b.locals[x]["ty"] for x in flow._local_copies_back(b, src[1]["pl"]["l"], 6)}
                        if any(ty_.endswith("server::BatchRequestConfig") for ty_ in tys) and sw_cfg is None:
                            sw_cfg = (bi, t)
    if sw_cfg is None:
        raise AnchorLost("match on batch_config in handle_rpc_call")
    bi, t = sw_cfg
    adt = F.adt("jsonrpsee_server::server::BatchRequestConfig")
    if adt is None:
        raise AnchorLost("ADT BatchRequestConfig")
    vidx = {v["n"]: str(i) for i, v in enumerate(adt["variants"])}
    arms = {v: tb for v, tb in t["arms"]}
    dis_t = arms.get(vidx["Disabled"], t["otherwise"])
    reach_dis = b.reach_from(dis_t, avoid=[a for v, a in arms.items() if a != dis_t]) | {dis_t}
    R.check(d.bb not in reach_dis, "C02.R1", "disabled:no-dispatch", "with batching disabled no entry is executed", "RpcServiceT::batch is reachable on the Disabled arm", where(d))
    svc = [c for c in b.calls if re.search(r"RpcServiceT::(call|notification|batch)$", c.callee or "") and c.bb in reach_dis and b.dominates(dis_t, c.bb)]
    R.check(not svc, "C02.R1", "disabled:no-service", "the Disabled arm reaches no RpcServiceT method", "the Disabled arm reaches %s" % [where(c) for c in svc], "%s:%d" % (b.file, block_line(b, dis_t)))
    errs = [c for c in b.calls_to(CTOR) if b.dominates(dis_t, c.bb)]
    okc = False
    for c in errs:
        lv = tr.origins(b, c.args[1])
        for l in lv:
            if l.kind == "call" and re.search(r"ErrorObject::<'.*>::borrowed$", l.detail["callee"] or ""):
                for x in tr.origins(b, l.detail["args"][0]):
                    if x.kind == "const" and x.detail.get("int") == "-32005":
                        okc = True
        R.check(_null_id(tr, b, c.args[0]), "C02.R1", "disabled:id-null", "the -32005 refusal carries Id::Null", "the batches-disabled refusal does not carry Id::Null", where(c))
    R.check(okc, "C02.R1", "disabled:-32005", "batching disabled is answered -32005", "the Disabled arm does not answer BATCHES_NOT_SUPPORTED_CODE (-32005)", "%s:%d" % (b.file, block_line(b, dis_t)))
    # (b) length guard
    cmps = controlling_comparisons(b, d.bb)
    rel = None
    for cmp in cmps:
        la = tr.origins(b, cmp["a"])
        lb = tr.origins(b, cmp["b"])
        a_len = any(l.kind == "call" and re.search(r"Vec::<.*>::len$", l.detail["callee"] or "") for l in la)
        b_len = any(l.kind == "call" and re.search(r"Vec::<.*>::len$", l.detail["callee"] or "") for l in lb)
        if a_len == b_len:
            continue
        rel = normalise_guard(cmp, limit_is_a=b_len)
        lim = la if b_len else lb
        names = set()
        for l in lim:
            names.add(flow.leaf_str(l))
        ok_lim = all((l.kind == "field" and "Limit" in " ".join(l.chain)) or l.kind == "const" or "Limit" in " ".join(l.chain) for l in lim)
        R.check(ok_lim, "C02.R1", "limit:operand", "the batch length is compared with the configured limit", "the batch length is compared with %s" % sorted(names), where(d))
    R.check(rel == "<=", "C02.R1", "limit:guard-form", "entries are executed iff len <= max_len", "batch length guard has normal form `len %s max` (expected `len <= max`: a batch of exactly the limit must run, one above must not)" % rel, where(d))
    rej = b.calls_to(r"reject_too_big_batch_request$")
    R.check(len(rej) == 1, "C02.R1", "limit:-32010", "an over-long batch is answered with reject_too_big_batch_request (-32010)", "%d reject_too_big_batch_request sites" % len(rej), "%s:%d" % (b.file, b.lo))
    for r in rej:
        for c in b.calls_to(CTOR):
            if any(l.kind == "call" and l.detail["bb"] == r.bb for l in tr.origins(b, c.args[1])):
                R.check(_null_id(tr, b, c.args[0]), "C02.R1", "limit:id-null", "the -32010 refusal carries Id::Null", "the too-big-batch refusal does not carry Id::Null", where(c))
                R.check(not b.can_reach(c.bb, d.bb), "C02.R1", "limit:no-dispatch", "after the refusal nothing is executed", "RpcServiceT::batch is reachable after the too-big refusal", where(c))
    rb = F.one(r"^jsonrpsee_types::error::reject_too_big_batch_request$")
    from .common import error_code_ints
    ok10 = error_code_ints(ctx, rb) == {"-32010"}
    R.check(ok10, "C02.R1", "limit:code-value", "reject_too_big_batch_request uses -32010", "reject_too_big_batch_request does not use -32010", "%s:%d" % (rb.file, rb.lo))
    # (c) unparsable array
    parse = [c for c in b.calls_to(r"^serde_json::(de::)?from_slice$") if c.ga and c.ga[-1].startswith("std::vec::Vec<")]
    R.check(len(parse) == 1, "C02.R1", "array:parse", "the array is parsed once into raw entries", "%d array parses" % len(parse), "%s:%d" % (b.file, b.lo))
    for p in parse:
        err_t = None
        for sb, arms2, other in flow.switch_on(b, p.dest["l"]):
            err_t = arms2.get("1", other if "0" in arms2 else None)
        if err_t is None:
            R.anchor_lost("C02.R1", "match on the array parse")
            continue
        errs = [c for c in b.calls_to(CTOR) if b.dominates(err_t, c.bb)]
        good = False
        for c in errs:
            lv = tr.origins(b, c.args[1])
            if any(l.kind == "agg" and l.detail.get("variant") == "ParseError" for l in lv) and _null_id(tr, b, c.args[0]):
                good = True
        R.check(good, "C02.R1", "array:unparsable->-32700-null", "an unparsable array is ParseError with Id::Null", "an unparsable array is not answered ParseError/Id::Null", "%s:%d" % (b.file, block_line(b, err_t)))
        R.check(b.dominates(p.bb, d.bb), "C02.R1", "array:dispatch-after-parse", "dispatch happens only after the array parsed", "RpcServiceT::batch does not depend on the array parse", where(d))
    R.check(b.dominates(bi, d.bb), "C02.R1", "config:dominates-dispatch", "the batch_config match dominates the dispatch", "RpcServiceT::batch is reachable without consulting batch_config", where(d))


def r2_classifier_agreement(ctx):
    F, R = ctx.F, ctx.R
    (sbody, _se), (b, _be) = hrc_parts(F)
    R.fn(sbody)
    tr = ctx.tracer(follow_callers=False, follow_fields=False)
    sites = classification_sites(F, b)
    single = [(c, k) for c, k in classification_sites(F, sbody) if enclosing_loop_next(sbody, c.bb) is None]
    elem = [(c, k) for c, k in sites if enclosing_loop_next(b, c.bb) is not None]
    loop_form = bool(elem)
    if not elem:
        # `entries.into_iter().map(|e| classify(e)).collect()`: the element code is the closure handed to Iterator::map
        for x in F.nested(b):
            if x is b:
                continue
            s2 = classification_sites(F, x)
            mapped = [c for c in b.calls_to(r"iter::Iterator::map$|Iterator>::map$") if any(l.kind == "closure" and l.detail.get("def") == x.path for a in c.args[1:2] for l in tr.origins(b, a))]
            if s2 and mapped:
                elem = s2
                b = x
                R.fn(x)
                break
    so = [k for c, k in sorted(single, key=lambda x: len(sbody.dom[x[0].bb]))]
    eo = [k for c, k in sorted(elem, key=lambda x: len(b.dom[x[0].bb]))]
    R.check(so == eo == ["call", "notif", "invalid"], "C02.R2", "classifier-lists-agree", "batch entries are classified like single messages (Request, Notification, id recovery)", "a single message is classified %s but a batch entry %s" % (so, eo), "%s:%d" % (b.file, b.lo))
    for c, k in elem:
        lv = tr.origins(b, c.args[0])
        ok = False
        for l in lv:
            if l.kind == "call" and re.search(r"RawValue::get$", l.detail["callee"] or ""):
                l2 = tr.origins(b, l.detail["args"][0])
                if any("next" in " ".join(x.chain) or (x.kind == "call" and re.search(r"::next$", x.detail["callee"] or "")) for x in l2):
                    ok = True
                if not loop_form and any(x.kind == "param" and x.detail.get("idx", 0) >= 2 for x in l2):
                    ok = True   # the closure's own argument is the element
        R.check(ok, "C02.R2", "element:%s:input" % k, "the %s attempt parses the loop element" % k, "the %s attempt of a batch entry does not parse that entry: %s" % (k, [flow.leaf_str(l) for l in lv]), where(c))
    ee = sorted(elem, key=lambda x: len(b.dom[x[0].bb]))
    for (c1, k1), (c2, k2) in zip(ee, ee[1:]):
        err_t = None
        for sb, arms, other in flow.switch_on(b, c1.dest["l"]):
            err_t = arms.get("1", other if "0" in arms else None)
        R.check(err_t is not None and b.dominates(err_t, c2.bb), "C02.R2", "element:%s-then-%s" % (k1, k2), "%s attempt only after the %s attempt failed" % (k2, k1), "the %s attempt of a batch entry is not confined to the failure arm of the %s attempt" % (k2, k1), where(c2))
    # each classification pushes exactly one entry of the right kind
    pushes = b.calls_to(r"^std::vec::Vec::<.*>::push$") if loop_form else [None]
    kinds = {}
    for p in pushes:
        if p is not None and enclosing_loop_next(b, p.bb) is None:
            continue
        lv = tr.origins(b, p.args[1]) if p is not None else tr.origins(b, {"cp": {"l": 0}})
        if p is None:
            p = b.calls[0]
        for l in lv:
            if l.kind == "agg":
                wb = F.bodies[l.where]
                if l.detail["variant"] == "Ok":
                    for x in tr.origins(wb, l.detail["ops"][0]):
                        if x.kind == "agg":
                            kinds[(p.bb, x.detail["variant"])] = x.detail["variant"]
                elif l.detail["variant"] == "Err":
                    kinds[(p.bb, "Err")] = "Err"
    R.check(sorted(kinds.values()) == ["Call", "Err", "Notification"], "C02.R2", "element:entry-kinds", "each entry becomes exactly one of Call / Notification / Err", "batch entries are pushed as %s" % sorted(kinds.values()), "%s:%d" % (b.file, b.lo))
    w = {bb: 1 for bb in kinds}
    nx = None
    for bb in kinds:
        nx = enclosing_loop_next(b, bb)
    if nx is not None:
        some_t = None
        for sb, arms, other in flow.switch_on(b, nx.dest["l"]):
            some_t = arms.get("1")
        if some_t is not None:
            pc = flow.path_counts(b, some_t, w, stop={nx.bb})
            R.paths_enumerated += 1
            R.check(pc == (1, 1), "C02.R2", "element:one-entry-per-element", "every array element yields exactly one batch entry", "an array element yields %s batch entries" % (pc,), where(nx))
    # the Err entry: InvalidRequest + recovered id or Null
    for c, k in elem:
        if k != "invalid":
            continue
        for bb, kind in kinds.items():
            if kind != "Err":
                continue
            be = [x for x in b.calls_to(r"BatchEntryErr::<'.*>::new$") if b.dominates(c.bb, x.bb)]
            R.check(bool(be), "C02.R2", "invalid:entry-built", "an unclassifiable entry becomes a BatchEntryErr", "no BatchEntryErr is built after the id recovery", where(c))
            for x in be:
                idl = list(tr.origins(b, x.args[0]))
                # `from_str(..).map(|inv| inv.id).unwrap_or(Id::Null)`: look through the combinators
                for _ in range(4):
                    more = []
                    for l in idl:
                        if l.kind == "call" and re.search(r"(Option|Result)::<.*>::(map|map_or|map_or_else|unwrap_or|unwrap_or_else|unwrap_or_default|ok|and_then)$", l.detail.get("callee") or ""):
                            for a_ in l.detail.get("args") or []:
                                more += tr.origins(F.bodies[l.where], a_)
                    new_ = [m for m in more if m not in idl]
                    if not new_:
                        break
                    idl += new_
                ok = any(l.kind == "call" and l.detail["bb"] == c.bb for l in idl) or any("id" in " ".join(l.chain) for l in idl)
                okn = any(l.kind == "agg" and l.detail.get("variant") == "Null" for l in idl)
                if not okn:
                    # the fallback may be the default of an `unwrap_or(Id::Null)` the trace walked through
                    for u in b.calls_to(r"(Option|Result)::<.*>::unwrap_or$"):
                        if len(u.args) > 1 and any(l.kind == "agg" and l.detail.get("variant") == "Null" for l in tr.origins(b, u.args[1])):
                            okn = True
                R.check(ok and okn, "C02.R2", "invalid:id-recovered-or-null", "the invalid entry's id is the recovered id, else Id::Null", "the invalid entry's id is %s" % [flow.leaf_str(l) for l in idl], where(x))
                el = tr.origins(b, x.args[1])
                R.check(any(l.kind == "agg" and l.detail.get("variant") == "InvalidRequest" for l in el), "C02.R2", "invalid:-32600", "an invalid entry is answered InvalidRequest", "an invalid batch entry is answered with %s" % [flow.leaf_str(l) for l in el], where(x))


def r3_append_discipline(ctx):
    F, R = ctx.F, ctx.R
    b = F.one(BATCH)
    R.fn(b)
    tr = ctx.tracer(follow_callers=False, follow_fields=False)
    apps = b.calls_to(r"BatchResponseBuilder::append$")
    R.floor("C02.R3", len(apps), 1, "append sites in RpcService::batch")
    nxs = {enclosing_loop_next(b, a.bb) for a in apps}
    nxs.discard(None)
    if len(nxs) != 1:
        raise AnchorLost("the entry loop of RpcService::batch")
    nx = nxs.pop()
    some_t = none_t = None
    for sb, arms, other in flow.switch_on(b, nx.dest["l"]):
        some_t = arms.get("1")
        none_t = arms.get("0")
    if some_t is None:
        raise AnchorLost("match on the entry iterator in RpcService::batch")
    # classify loop-body paths by the entry kind switch
    calls = [c for c in b.calls if re.search(r"RpcServiceT::call$", c.callee or "") or re.search(r"rpc::RpcService as .*RpcServiceT>::call$", c.name() or "")]
    notifs = [c for c in b.calls if re.search(r"RpcServiceT::notification$", c.callee or "") or re.search(r"rpc::RpcService as .*RpcServiceT>::notification$", c.name() or "")]
    R.check(len(calls) == 1 and len(notifs) == 1, "C02.R3", "arms", "one call site and one notification site in the loop", "%d call / %d notification sites in RpcService::batch" % (len(calls), len(notifs)), "%s:%d" % (b.file, b.lo))
    w = {}
    for a in apps:
        w[a.bb] = w.get(a.bb, 0) + 1
    if calls:
        c = calls[0]
        # paths through the call site: exactly one append until the next iteration / return
        pc = flow.path_counts(b, c.bb, w, stop={nx.bb} | set(b.exits))
        R.paths_enumerated += 1
        R.check(pc == (1, 1), "C02.R3", "call-entry:one-append", "a Call entry appends exactly one response", "a Call entry appends %s responses" % (pc,), where(c))
        vl, rblk = awaited_value_local(b, c)
        for a in apps:
            if b.dominates(c.bb, a.bb):
                lv = tr.origins(b, a.args[1])
                ok = any(l.kind == "call" and l.detail["bb"] == c.bb for l in lv)
                R.check(ok, "C02.R3", "call-entry:appends-call-result", "what is appended is the awaited result of that call", "the response appended for a Call entry is not the result of executing it: %s" % [flow.leaf_str(l) for l in lv], where(a))
    if notifs:
        n = notifs[0]
        pc = flow.path_counts(b, n.bb, w, stop={nx.bb} | set(b.exits))
        R.paths_enumerated += 1
        R.check(pc == (0, 0), "C02.R3", "notification-entry:no-append", "a Notification entry appends nothing", "a Notification entry appends %s responses" % (pc,), where(n))
    errs = [c for c in b.calls_to(CTOR)]
    for e in errs:
        if enclosing_loop_next(b, e.bb) is None:
            continue
        pc = flow.path_counts(b, e.bb, w, stop={nx.bb} | set(b.exits))
        R.paths_enumerated += 1
        R.check(pc == (1, 1), "C02.R3", "err-entry:one-append", "an invalid entry appends exactly one response", "an invalid entry appends %s responses" % (pc,), where(e))
        lv = tr.origins(b, e.args[0])
        ok = any(l.kind == "call" and re.search(r"BatchEntryErr::<'.*>::into_parts$", l.detail["callee"] or "") for l in lv)
        R.check(ok, "C02.R3", "err-entry:own-id", "the invalid entry is answered with its own recovered id", "the reply to an invalid entry does not carry the entry's id: %s" % [flow.leaf_str(l) for l in lv], where(e))
    # every loop-body path: total appends <= 1 and the three arms are exclusive
    pc = flow.path_counts(b, some_t, w, stop={nx.bb} | set(b.exits))
    R.paths_enumerated += 1
    R.check(pc is not None and pc[1] <= 1, "C02.R3", "entry:at-most-one-append", "no entry appends more than one response (%s)" % (pc,), "an entry can append %s responses" % (pc,), where(nx))
    # after the loop
    fin = b.calls_to(r"BatchResponseBuilder::finish$")
    fb = b.calls_to(r"MethodResponse::from_batch$")
    nt = b.calls_to(r"MethodResponse::notification$")
    ie = b.calls_to(r"BatchResponseBuilder::is_empty$")
    R.check(len(fin) == 1 and len(fb) == 1 and len(nt) == 1, "C02.R3", "after-loop:shape", "after the loop: notification() / from_batch(finish())", "after-loop structure changed: finish=%d from_batch=%d notification=%d" % (len(fin), len(fb), len(nt)), "%s:%d" % (b.file, b.lo))
    R.check(len(ie) == 1, "C02.R3", "after-loop:empty-ack-only-when-empty", "the empty acknowledgement is decided by is_empty() of the reply builder", "the empty acknowledgement (no reply) is not decided by is_empty() of the reply builder (%d is_empty sites): replies that were already appended - e.g. -32600 for invalid entries next to notifications - are discarded" % len(ie), where(nt[0]) if nt else "%s:%d" % (b.file, b.lo))
    if len(ie) == 1 and len(nt) == 1 and len(fb) == 1:
        t_true = None
        for sb, arms, other in flow.switch_on(b, ie[0].dest["l"]):
            t_true = other if "0" in arms else arms.get("1")
        R.check(t_true is not None and b.dominates(t_true, nt[0].bb), "C02.R3", "after-loop:empty-ack-only-when-empty", "the empty acknowledgement is chosen only when nothing was appended", "MethodResponse::notification() is not guarded by is_empty()", where(nt[0]))
        # and by got_notification
        # the "a notification was seen" flag: a bool local set to true only in the notification arm of the loop
        gn = []
        for l, defs in b.defs.items():
            if b.locals[l]["ty"] != "bool" or not b.locals[l].get("user"):
                continue
            trues = [bi_ for bi_, si_, dpl_, src_ in defs if src_[0] == "rv" and src_[1]["k"] == "use" and (op_const(src_[1]["op"]) or {}).get("bool") is True]
            falses = [bi_ for bi_, si_, dpl_, src_ in defs if src_[0] == "rv" and src_[1]["k"] == "use" and (op_const(src_[1]["op"]) or {}).get("bool") is False]
            if trues and falses and notifs and all(b.can_reach(tb_, notifs[0].bb) and not b.can_reach(tb_, calls[0].bb if calls else -1, avoid=[nx.bb]) for tb_ in trues):
                gn.append(l)
        okg = False
        for l in gn:
            for sb, arms, other in flow.switch_on(b, l):
                tt = other if "0" in arms else arms.get("1")
                if tt is not None and b.dominates(tt, nt[0].bb) and b.can_reach(nx.bb, sb):
                    okg = True
        if not okg and gn and none_t is not None:
            # the flag may be combined with is_empty() into one bool first: evaluate the code after the loop as a decision
            # table over (a notification was seen, nothing was appended)
            from ..interp import Interp, Sym, Unsupported
            table = {}
            try:
                for seen in (True, False):
                    for empty in (True, False):
                        handlers = [
                            (re.compile(r"BatchResponseBuilder::is_empty$"), lambda it, n_, a, empty=empty: empty),
                            (re.compile(r"MethodResponse::notification$"), lambda it, n_, a: Sym("ack")),
                            (re.compile(r"BatchResponseBuilder::finish$"), lambda it, n_, a: Sym("array")),
                            (re.compile(r"MethodResponse::from_batch$"), lambda it, n_, a: a[0]),
                            (re.compile(r"^std::mem::drop$|drop_in_place"), lambda it, n_, a: ()),
                        ]
                        env = {l: [seen] for l in gn}
                        table[(seen, empty)] = Interp(F, call_handlers=handlers, default_sym=True).run_from(b, none_t, 0, env)
                okg = table == {(True, True): Sym("ack"), (True, False): Sym("array"), (False, True): Sym("array"), (False, False): Sym("array")}
            except Unsupported:
                okg = False
        R.check(okg, "C02.R3", "after-loop:empty-ack-needs-notification", "an empty array is not acknowledged as notifications-only", "the empty acknowledgement does not require that a notification was seen (an empty array would get no InvalidRequest reply)", where(nt[0]))
        lv = tr.origins(b, fb[0].args[0])
        R.check(any(l.kind == "call" and re.search(r"BatchResponseBuilder::finish$", l.detail["callee"] or "") for l in lv), "C02.R3", "after-loop:array-from-builder", "the reply is the builder's array", "from_batch does not take the builder's finish()", where(fb[0]))
    # finish(): empty -> InvalidRequest, Id::Null
    fn = F.one(r"^jsonrpsee_core::server::method_response::BatchResponseBuilder::finish$")
    R.fn(fn)
    bre = fn.calls_to(r"batch_response_error$")
    R.check(len(bre) == 1, "C02.R3", "finish:empty-error", "finish() answers an empty builder with an error object", "finish() has %d batch_response_error sites" % len(bre), "%s:%d" % (fn.file, fn.lo))
    for c in bre:
        R.check(_null_id(tr, fn, c.args[0]), "C02.R3", "finish:empty-id-null", "the empty-batch error carries Id::Null", "the empty-batch error does not carry Id::Null", where(c))
        lv = tr.origins(fn, c.args[1])
        R.check(any(l.kind == "agg" and l.detail.get("variant") == "InvalidRequest" for l in lv), "C02.R3", "finish:empty->-32600", "an empty batch is InvalidRequest", "an empty batch is answered with %s" % [flow.leaf_str(l) for l in lv], where(c))
    # entries are executed by an unmodified copy of the service that executes stand-alone calls
    par = F.parent_body(b)
    for body in (b, par):
        if body is None:
            continue
        for bi, blk in enumerate(body.blocks):
            if blk.get("cleanup"):
                continue
            for st in blk["st"]:
                if st["s"] != "assign":
                    continue
                pp = st["pl"].get("p", [])
                if pp and isinstance(pp[-1], dict) and "f" in pp[-1] and (pp[-1].get("o") or "").endswith("middleware::rpc::RpcService"):
                    R.bad("C02.R3", "batch:service-modified:%s" % pp[-1]["n"], "RpcService::batch modifies the service's `%s` before executing entries: an entry's response then differs from the response it gets when sent alone" % pp[-1]["n"], "%s:%d" % (body.file, st["sp"][0]))
    if calls:
        lv = tr.origins(b, calls[0].args[0])
        trp = ctx.tracer(follow_callers=False, follow_fields=False)
        ok = bool(lv) and all(l.kind == "param" and l.detail["idx"] == 1 and l.detail["fn"].endswith("::batch") for l in lv)
        R.check(ok, "C02.R3", "batch:entries-run-on-self", "entries are executed by (a clone of) the service itself", "batch entries are executed by %s, not by the service that executes stand-alone calls" % [flow.leaf_str(l) for l in lv], where(calls[0]))


def r4_nothing_outside_array(ctx):
    F, R = ctx.F, ctx.R
    # reachability: batch -> RpcService::call -> Subscription slot closures -> (values handed to the user handler: their
    # methods) -> MethodSink::send of a *response* on the connection sink
    start = F.one(BATCH)
    tr = ctx.tracer(follow_callers=False, follow_fields=False)
    seen = set()
    work = [start]
    edges = {}
    hits = []
    sub_closures = [cb for _, cb in closures_in_variant(F, "jsonrpsee_core::server::rpc_module::MethodCallback", "Subscription")]
    methods_of = {}
    for b in F.real_bodies():
        if b.impl_self and b.crate in (CORE, SERVER) and not is_test_body(b) and b.kind == "AssocFn":
            methods_of.setdefault(re.sub(r"<.*$", "", b.impl_self), []).append(b)
    while work:
        b = work.pop()
        if b.path in seen:
            continue
        seen.add(b.path)
        nxt = []
        for c in b.calls:
            nm = c.name() or ""
            if re.search(r"MethodSink::(send|try_send|send_timeout)$", nm):
                lv = tr.origins(b, c.args[1])
                if any(l.kind == "call" and re.search(r"MethodResponse::(to_json|into_json|as_json|into_parts|response|error|subscription_response|subscription_error)$", l.detail["callee"] or "") for l in lv):
                    hits.append((b, c))
            t = F.bodies.get(nm)
            if t is not None and t.crate in (CORE, SERVER) and not is_test_body(t):
                nxt.append(t)
            if re.search(r"RpcServiceT::call$", c.callee or ""):
                t2 = F.bodies.get("<jsonrpsee_server::middleware::rpc::RpcService as jsonrpsee_core::middleware::RpcServiceT>::call")
                if t2 is not None:
                    nxt.append(t2)
        for inv in callback_invocations(b):
            if inv["variant"] and inv["variant"][1] == "Subscription":
                nxt += sub_closures
        for ch in F.nested(b, include_self=False):
            nxt.append(ch)
        # a value of a jsonrpsee type built here and handed to the (unanalysed) user handler: its methods become reachable
        if any(b.path.startswith(sc.path) for sc in sub_closures):
            for bi, blk in enumerate(b.blocks):
                for st in blk["st"]:
                    if st["s"] == "assign" and st["rv"]["k"] == "agg" and st["rv"]["ak"] == "adt" and st["rv"]["adt"].startswith(("jsonrpsee_core::server::subscription::",)):
                        nxt += methods_of.get(st["rv"]["adt"], [])
        for t in nxt:
            if t.path not in seen:
                edges.setdefault(t.path, b.path)
                work.append(t)
    R.extra["C02.R4.reachable_functions"] = len(seen)
    R.floor("C02.R4", len(seen), 20, "functions reachable from RpcService::batch")
    if not hits:
        R.ok("C02.R4", "no-direct-write", "no direct write of a response to the connection queue is reachable from RpcService::batch", "%s:%d" % (start.file, start.lo))
    for b, c in hits:
        path = [b.path]
        while path[-1] in edges:
            path.append(edges[path[-1]])
        R.bad("C02.R4", "%s:direct-write" % fkey(b), "the response to a subscribe entry of a batch is written directly to the connection (outside the array) and again inside the array: RpcService::batch reaches MethodSink::%s(response json) via %s" % (c.name().split("::")[-1], " <- ".join(short(p) for p in path[:7])), where(c), {"path": list(reversed(path))})



def r5_append_writes_every_entry(ctx):
    """one array element per call entry: BatchResponseBuilder::append either refuses (Err) or writes the entry's json into
    the array exactly once - there is no accepted-but-not-written path (RpcService::batch counts on it: an empty builder
    means 'no call was seen')"""
    F, R = ctx.F, ctx.R
    tr0 = ctx.tracer(follow_callers=False, follow_fields=False)
    ap = F.one(r"^jsonrpsee_core::server::method_response::BatchResponseBuilder::append$")
    R.fn(ap)
    ps = ap.calls_to(r"^std::string::String::push_str$")
    oks = [bi for bi, blk in enumerate(ap.blocks) if bi in ap.reachable for st in blk["st"] if st["s"] == "assign" and st["pl"]["l"] == 0 and not st["pl"].get("p") and st["rv"]["k"] == "agg" and st["rv"].get("variant") == "Ok"]
    if not ps or not oks:
        raise AnchorLost("push_str / Ok(..) in BatchResponseBuilder::append")
    w = {}
    for c in ps:
        w[c.bb] = w.get(c.bb, 0) + 1
    pc = flow.path_counts(ap, 0, w, stop=set(oks))
    R.paths_enumerated += 1
    R.check(pc == (1, 1), "C02.R5", "append:accepted-entry-written-once", "every path on which append accepts an entry writes it into the array once", "BatchResponseBuilder::append can accept an entry and write it %s times: an entry's reply is missing from the array (or repeated) and RpcService::batch's `empty builder = no call` test is wrong" % (pc,), "%s:%d" % (ap.file, ap.lo))
    for c in ps:
        lv = tr0.origins(ap, c.args[1])
        okj = any(l.kind == "call" and re.search(r"RawValue::get$", l.detail["callee"] or "") for l in lv) or any(l.kind == "field" and l.detail["fields"][-1][1] == "json" for l in lv)
        R.check(okj, "C02.R5", "append:writes-the-entry", "what is written is the entry's own json", "append writes %s" % [flow.leaf_str(l) for l in lv], where(c))


def r6_batch_container_is_inert(ctx):
    """the Batch container carries its entries unchanged from handle_rpc_call to RpcService::batch: its own methods never
    reach into an entry mutably (no iter_mut / extensions_mut / mem::take / removal on `inner`), so that an entry executed
    as part of a batch is the entry that was parsed - same params, same extensions - and answers as it would alone"""
    F, R = ctx.F, ctx.R
    MUT = (r"slice::<impl \[T\]>::iter_mut$|Vec::<.*>::(iter_mut|drain|retain|retain_mut|remove|swap_remove|clear|truncate|pop|get_mut|first_mut|last_mut|split_off|dedup\w*)$|"
           r"IntoIterator>::into_iter$|(BatchEntry|Request|Notification)::<.*>::extensions_mut$|^std::mem::(take|replace|swap)$|IndexMut.*::index_mut$")
    n = 0
    for b in F.real_bodies():
        if not re.search(r"^(<)?jsonrpsee_core::middleware::Batch(::<'a>|<'a>)", b.path) or is_test_body(b):
            continue
        last = b.path.split("::")[-1]
        n += 1
        R.fn(b)
        if last in ("iter_mut", "into_iter"):
            # the two public accessors that *return* (mutable / owning) iterators over the entries
            continue
        bad = []
        for c in b.calls_to(MUT):
            nm = c.name() or ""
            if nm.endswith("into_iter"):
                # `for e in &mut self.inner` / `self.inner.iter_mut()` desugar here; only &mut / by-value receivers count
                p0 = op_place(c.args[0]) if c.args else None
                ty0 = b.locals[p0["l"]]["ty"] if p0 is not None else ""
                if not (ty0.startswith("&mut ") or ty0.startswith("std::vec::Vec<")) or "BatchEntry" not in ty0:
                    continue
            bad.append(c)
        R.check(not bad, "C02.R6", "batch-container:%s" % fkey(b), "%s does not alter the entries" % short(b.path), "%s reaches into the batch's entries mutably (%s): an entry executed from a batch then differs from the same entry sent alone (e.g. it loses its extensions)" % (short(b.path), sorted({short(c.name() or "") for c in bad})), where(bad[0]) if bad else "%s:%d" % (b.file, b.lo))
    R.floor("C02.R6", n, 8, "methods of middleware::Batch")


def rcfg_config_verbatim(ctx):
    """the configured `batch_requests_config` reaches the ServerConfig unchanged (setter stores its argument, build()/Clone copy it)"""
    from .common import config_field_integrity
    config_field_integrity(ctx, "C02.CFG", "batch_requests_config")




def r7_notifications_run_nothing(ctx):
    """`none for notifications`: the server's RpcService::notification answers with the empty acknowledgement and does not
    dispatch: it reaches neither RpcService::call nor the method table. Executing the named method `and throwing the
    result away` is not harmless - a subscription method writes its own response (and later items) straight to the
    connection, outside any batch array and for a message that must get no reply."""
    F, R = ctx.F, ctx.R
    b = F.one(r"^<jsonrpsee_server::middleware::rpc::RpcService as jsonrpsee_core::middleware::RpcServiceT>::notification$")
    bodies = F.nested(b)
    bad = []
    ack = []
    for x in bodies:
        R.fn(x)
        for c in x.calls:
            nm = c.name() or ""
            if re.search(r"RpcServiceT>?::(call|batch)$|rpc::RpcService::\w+$|Methods::(method|method_with_name|inner_call)$|MethodCallback", nm) or re.search(r"RpcServiceT::(call|batch)$", c.callee or ""):
                bad.append(c)
            if re.search(r"MethodResponse::notification$", nm):
                ack.append(c)
    R.check(not bad, "C02.R7", "notification:dispatches-nothing", "RpcService::notification dispatches nothing", "RpcService::notification dispatches the notification (%s): a notification naming a subscription method makes the subscription machinery write a response and items to the connection - a reply to a message that must not be answered, outside any batch array" % sorted({short(c.name()) for c in bad}), where(bad[0]) if bad else "%s:%d" % (b.file, b.lo))
    R.check(bool(ack), "C02.R7", "notification:empty-ack", "RpcService::notification answers with MethodResponse::notification()", "RpcService::notification no longer answers with the empty acknowledgement", "%s:%d" % (b.file, b.lo))



def r8_entries_are_decoded_like_single_messages(ctx):
    """`entries classified exactly as single messages are`: the decoders the server uses for batch entries accept the same
    texts as the ones for single messages - none of them reads a member as a borrowed `&str` (serde can borrow only
    escape-free strings: a batch entry whose method name is written with a JSON escape then fails the call decoder, falls
    through to the notification decoder and is never answered, while the same bytes sent alone are a call) (= C15.R7
    over types/core/server)"""
    from . import c15
    n = c15._borrowed_str_scan(ctx.F, ctx.R, r"^<?jsonrpsee_(types|core|server)::", "C02.R8")
    ctx.R.ok("C02.R8", "no-borrowed-str", "%d deserialisation sites inspected" % n)
    ctx.R.floor("C02.R8", n, 40, "deserialisation sites in types/core/server")


def r9_only_the_response_limit_refuses_a_reply(ctx):
    """`only the response-size limit may replace the array by a single error`: the limit the reply builder works with is the
    configured max_response_body_size on every entry point (= C08.R1)"""
    from . import c08
    c08.r1_size_provenance(ctx)


def _borrowed(modname, fname):
    def run(ctx):
        import importlib
        mod = importlib.import_module("jrsa.rules." + modname)
        return getattr(mod, fname)(ctx)
    run.__name__ = "%s_%s" % (modname, fname)
    return run


# "a batch consisting only of notifications gets no reply": over WebSocket the reply write is gated by the response kind
# (C01.R3) - RpcService::batch signals "no reply" with MethodResponse::notification()
# a batch POSTed to a path the GET-proxy serves must still be executed entry by entry: the proxy rewrites GET only (C19.R6)
# a batch is recognised as a batch by both transports alike (= C01.R6); a blocking entry that panics is answered, it does not
# take the replies collected so far with it (= C01.R5)
BORROWED = [_borrowed("c01", "r6_transport_agreement"), _borrowed("c01", "r5_failure_classes"), _borrowed("c01", "r3_ws_reply_once"), _borrowed("c19", "r6_proxy_rewrites_only_what_it_proxies")]


def r10_single_and_entry_decoders_are_twins(ctx):
    """a batch entry is classified exactly as the same text sent alone: the decoder used for a single message
    (deserialize_with_ext::{call,notif}::from_slice) and the one used for a batch entry (::from_str) do the same things -
    the same calls, up to the slice/str spelling of the serde_json entry point. An extra check in one of the twins (reject
    a notification that carries an `id` member - for single messages only) answers an object alone and swallows it, or
    answers it differently, inside a batch."""
    F, R = ctx.F, ctx.R
    n = 0

    def norm(b):
        out = []
        for x in F.nested(b):
            for c in x.calls:
                nm = c.name() or ""
                nm = re.sub(r"from_(slice|str)\b", "from_X", nm)
                nm = re.sub(r"<(SliceRead|StrRead)<'\w+>>", "<R>", nm)
                out.append(nm)
        return sorted(out)

    for kind in ("call", "notif"):
        a = F.find(r"^jsonrpsee_server::utils::deserialize_with_ext::%s::from_slice$" % kind)
        b = F.find(r"^jsonrpsee_server::utils::deserialize_with_ext::%s::from_str$" % kind)
        if len(a) != 1 or len(b) != 1:
            continue
        n += 1
        R.fn(a[0])
        R.fn(b[0])
        na, nb = norm(a[0]), norm(b[0])
        only_a = sorted(set(na) - set(nb))
        only_b = sorted(set(nb) - set(na))
        R.check(na == nb, "C02.R10", "%s:from_slice~from_str" % kind, "the single-message and the batch-entry %s decoder do the same things" % kind, "deserialize_with_ext::%s::from_slice (single messages) and ::from_str (batch entries) differ (only in from_slice: %s; only in from_str: %s): the same text is classified differently alone and as a batch entry" % (kind, [short(x) for x in only_a][:4], [short(x) for x in only_b][:4]), "%s:%d" % (a[0].file, a[0].lo))
    R.extra["C02.R10.pairs"] = n


RULES = [r10_single_and_entry_decoders_are_twins, r1_gate_before_work, r2_classifier_agreement, r3_append_discipline, r4_nothing_outside_array, r5_append_writes_every_entry, r6_batch_container_is_inert, r7_notifications_run_nothing, r8_entries_are_decoded_like_single_messages, r9_only_the_response_limit_refuses_a_reply, rcfg_config_verbatim] + BORROWED

LEVEL_TEXT = (
    "Structural necessary conditions of batch handling decided from the type-checked program: the gates that must precede "
    "any execution (config, length guard in normal form), agreement of the per-entry classifier with the single-message "
    "classifier, exact append counts per entry kind over all loop-body paths, the after-loop decision, and call-graph "
    "reachability (through the callback slots) of direct connection writes from the batch path."
)
LEVEL_NOTE = "Trusted: rustc MIR; serde_json. Not decided: equality with stand-alone responses, permutations, the size-limit interaction (C08)."
TECHNIQUE = "dominance + guard normal form + path counting + call-graph reachability through callback slots"

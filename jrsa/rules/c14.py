"""C14 — host filter: only allow-listed authorities reach the RPC service (structural clauses + decision tables)."""
import re

from .common import (fkey, where, short, arg_is_local, follow_value, block_line, SERVER)
from ..facts import op_place, op_const, AnchorLost, is_test_body
from .. import flow
from ..interp import Interp, Enum, Sym, Ref, Struct, Unsupported, eq_handler, unit_variants

PID = "C14"
LEVEL = "other"
EXPLANATION = (
    'Static analysis over MIR of the host-filter middleware. Decided: R1 in HostFilter::call the inner service is '
    'called only when an authority could be determined (Some arm of Authority::from_http_request) and the filter is '
    'disabled or recognize() returned true; the other exits answer malformed() (400) / host_not_allowed() (403) and '
    'never call the inner service; R2 the port-matching table of WhitelistedHosts::recognize, extracted over {Any, '
    'Default, Fixed a} x {Any, Default, Fixed b}, equals: entry `*` allows every port; both default allows; fixed '
    'allows iff equal; everything else denies; a host the router does not recognise is denied; R3 the authority '
    'decision table of from_http_request over {absent, parsed, unparsable}^2: both parsed -> that authority iff equal '
    '(else none), exactly one parsed -> that one, none parsed -> none; R4 default_port: http/ws -> 80, https/wss -> '
    "443, and a port equal to the scheme's default is normalised to Default. R5 every Authority is built by the one "
    'normalising parser (single construction site) and an enabled HostFilterLayer always stores Some(list) (None '
    'means disabled to HostFilter::call); R1 accepts both spellings of the allow decision (Option::is_none_or, '
    'explicit match on self.filter). NOT decided: wildcard/host matching (route-recognizer) and URI parsing for all '
    'strings.'
)
RULE_TEXT = "instances = gate dominance in HostFilter::call, rows of the three extracted decision tables"
TRUSTED = ["rustc MIR", "route-recognizer", "http::Uri parsing", "tower Service contract"]
ASSUMPTIONS = []

PORT = "jsonrpsee_server::middleware::http::authority::Port"
RX_EQ = (re.compile(r"PartialEq.*::eq$|PartialEq::eq$|::eq$"), eq_handler)


def r1_gate(ctx):
    F, R = ctx.F, ctx.R
    b = F.one(r"^<jsonrpsee_server::middleware::http::host_filter::HostFilter<S> as tower::Service<hyper::Request<B>>>::call$")
    R.fn(b)
    inner = [c for c in b.calls if c.callee == "tower::Service::call"]
    R.check(len(inner) == 1, "C14.R1", "one-inner-call", "one call to the inner service", "%d calls to the inner service" % len(inner), "%s:%d" % (b.file, b.lo))
    fa = b.calls_to(r"Authority::from_http_request$")
    R.check(len(fa) == 1, "C14.R1", "shape", "one authority extraction", "HostFilter::call changed: from_http_request=%d" % len(fa), "%s:%d" % (b.file, b.lo))
    if not (inner and fa):
        return
    ic, f = inner[0], fa[0]
    tr = ctx.tracer(follow_callers=False, follow_fields=False)
    some_t = none_t = None
    for sb, arms, other in flow.switch_on(b, f.dest["l"]):
        some_t = arms.get("1")
        none_t = other if "1" in arms and "0" not in arms else arms.get("0")
    R.check(some_t is not None and b.dominates(some_t, ic.bb), "C14.R1", "inner-needs-authority", "the inner service is called only when a single authority was determined", "the inner service is reachable although no authority was determined", where(ic))
    # the allow decision: either `self.filter.is_none_or(|f| f.recognize(&authority))` or an explicit match on self.filter
    # whose Some arm asks recognize(); in both forms the inner call must lie behind (filter is None) or (recognize == true)
    allow_blocks = set()   # blocks from which "allowed" is established
    false_t = None
    rec_on_req = False
    uses_filter = False
    ino = b.calls_to(r"Option::<.*>::is_none_or$")
    if ino:
        r = ino[0]
        for sb, arms, other in flow.switch_on(b, r.dest["l"]):
            false_t = arms.get("0")
            tt = other if "0" in arms else arms.get("1")
            if tt is not None:
                allow_blocks.add(tt)
        for lf in tr.origins(b, r.args[1]):
            if lf.kind == "closure":
                cb = F.bodies.get(lf.detail["def"])
                if cb is not None:
                    for c in cb.calls_to(r"WhitelistedHosts::recognize$"):
                        if any(l.kind == "call" and re.search(r"from_http_request$", l.detail["callee"] or "") for l in tr.origins(cb, c.args[1])):
                            rec_on_req = True
        uses_filter = any(l.kind == "field" and l.detail["fields"][-1][1] == "filter" for l in tr.origins(b, r.args[0]))
        decision_where = where(r)
    else:
        recs = b.calls_to(r"WhitelistedHosts::recognize$")
        decision_where = where(recs[0]) if recs else "%s:%d" % (b.file, b.lo)
        for c in recs:
            if any(l.kind == "call" and re.search(r"from_http_request$", l.detail["callee"] or "") for l in tr.origins(b, c.args[1])):
                rec_on_req = True
            if any(l.kind == "field" and any(f_[1] == "filter" for f_ in l.detail["fields"]) for l in tr.origins(b, c.args[0])):
                uses_filter = True
        # the bool that is finally tested: defined as const true on the None arm and as recognize()'s result on the Some arm
        for sb, blk in enumerate(b.blocks):
            t = blk["term"]
            if not t or t["t"] != "switch" or sb not in b.reachable:
                continue
            p = op_place(t["discr"])
            if p is None or p.get("p") or b.locals[p["l"]]["ty"] != "bool":
                continue
            srcs = []
            for l in flow._local_copies_back(b, p["l"], 6):
                for bi, si, dpl, src in b.defs.get(l, []):
                    if src[0] == "rv" and src[1]["k"] == "use" and op_const(src[1]["op"]) is not None:
                        srcs.append(("const", op_const(src[1]["op"]).get("bool")))
                    elif src[0] == "call" and re.search(r"WhitelistedHosts::recognize$", (op_const(src[1]["f"]) or {}).get("res", (op_const(src[1]["f"]) or {}).get("fn", ""))):
                        srcs.append(("recognize", None))
            if ("recognize", None) in srcs and all(k == "recognize" or v is True for k, v in srcs):
                arms = {v: tb for v, tb in t["arms"]}
                false_t = arms.get("0")
                tt = t["otherwise"] if "0" in arms else arms.get("1")
                if tt is not None:
                    allow_blocks.add(tt)
    R.check(bool(allow_blocks) and all(b.dominates(tt, ic.bb) for tt in allow_blocks), "C14.R1", "inner-needs-allow", "the inner service is called only when the filter is disabled or recognises the authority", "the inner service is reachable without a positive allow decision (filter None, or recognize() == true)", where(ic))
    R.check(rec_on_req, "C14.R1", "decision-on-request-authority", "recognize() is asked about the request's own authority", "the allow decision is not recognize(<the request's authority>)", decision_where)
    R.check(uses_filter, "C14.R1", "uses-configured-filter", "the configured allow-list is consulted", "the allow decision does not consult self.filter", decision_where)
    # deny exits
    def futs(t):
        out = []
        for bi in {x for x in (b.reach_from(t) | {t}) if b.dominates(t, x)}:
            for st in b.blocks[bi]["st"]:
                if st["s"] == "assign" and st["rv"]["k"] == "agg" and st["rv"]["ak"] in ("coroutine", "closure"):
                    cb = F.bodies.get(st["rv"]["def"])
                    if cb is not None:
                        out.append(cb)
        return out
    if none_t is not None:
        fs = futs(none_t)
        R.check(any(f_.calls_to(r"response::malformed$") for f_ in fs), "C14.R1", "no-authority->400", "no single authority -> malformed() (400)", "the no-authority exit does not answer malformed()", "%s:%d" % (b.file, block_line(b, none_t)))
        R.check(not b.can_reach(none_t, ic.bb), "C14.R1", "no-authority:no-inner", "the no-authority exit never calls the inner service", "the no-authority exit can reach the inner service", "%s:%d" % (b.file, block_line(b, none_t)))
    if false_t is not None:
        fs = futs(false_t)
        R.check(any(f_.calls_to(r"response::host_not_allowed$") for f_ in fs), "C14.R1", "deny->403", "a denied authority -> host_not_allowed() (403)", "the deny exit does not answer host_not_allowed()", "%s:%d" % (b.file, block_line(b, false_t)))
        R.check(not b.can_reach(false_t, ic.bb), "C14.R1", "deny:no-inner", "the deny exit never calls the inner service", "the deny exit can reach the inner service", "%s:%d" % (b.file, block_line(b, false_t)))
    for nm, code in (("malformed", "BAD_REQUEST"), ("host_not_allowed", "FORBIDDEN")):
        rb = F.one(r"^jsonrpsee_server::transport::http::response::%s$" % nm)
        ok = any(op_const(x) and op_const(x).get("name", "").endswith(code) for c in rb.calls for x in c.args)
        R.check(ok, "C14.R1", "%s:status" % nm, "%s() uses StatusCode::%s" % (nm, code), "%s() does not use StatusCode::%s" % (nm, code), "%s:%d" % (rb.file, rb.lo))


def r2_port_table(ctx):
    F, R = ctx.F, ctx.R
    rec = F.one(r"^jsonrpsee_server::middleware::http::host_filter::WhitelistedHosts::recognize$")
    R.fn(rec)
    for x in F.nested(rec, include_self=False):
        R.fn(x)
    vs = {n: i for i, n, f in unit_variants(F, PORT)}
    from ..interp import ListVal

    def port(kind, n=None):
        return Enum(PORT, vs[kind], kind, [n] if kind == "Fixed" else [])

    def run(entry_ports, req_port, known=True):
        """recognize(&self, &Authority{host, port}) with the router answering `entry_ports` for the host"""
        lookup = Enum("std::result::Result", 0, "Ok", [Struct("Match", [ListVal(entry_ports)])]) if known else Enum("std::result::Result", 1, "Err", [Sym("no-route")])
        handlers = [
            RX_EQ,
            (re.compile(r"route_recognizer::Router::<.*>::recognize$"), lambda it, n, a: lookup),
            (re.compile(r"route_recognizer::Match::<.*>::(handler|handler_mut)$"), lambda it, n, a: Ref([deref_(a[0]).fields[0]])),
            (re.compile(r"Deref>?::deref$|AsRef<.*>>?::as_ref$|String::as_str$"), lambda it, n, a: deref_(a[0])),
        ]
        auth = Struct("Authority", [Sym("host"), req_port], ["host", "port"])
        return Interp(F, call_handlers=handlers).run(rec, [Ref([Struct("WhitelistedHosts", [Sym("router")])]), Ref([auth])])

    from ..interp import deref as deref_
    cases = [("Any", None), ("Default", None), ("Fixed", 8080), ("Fixed", 9999)]
    n = 0
    try:
        for ek, en in cases:
            for rk, rn in cases:
                n += 1
                got = run([port(ek, en)], port(rk, rn))
                want = (ek == "Any") or (ek == "Default" and rk == "Default") or (ek == "Fixed" and rk == "Fixed" and en == rn)
                R.check(got == want, "C14.R2", "port:%s%s-vs-%s%s" % (ek, en or "", rk, rn or ""), "entry port %s%s vs request port %s%s -> %s" % (ek, en or "", rk, rn or "", want), "allow-list entry with port %s%s %s a request with port %s%s (expected %s)" % (ek, en or "", "admits" if got else "refuses", rk, rn or "", "admit" if want else "refuse"), "%s:%d" % (rec.file, rec.lo))
        # any port of the entry: a later port of a multi-port entry matches; no port of it matches -> refuse; unknown host
        got = run([port("Fixed", 1), port("Default"), port("Fixed", 8080)], port("Fixed", 8080))
        R.check(got is True, "C14.R2", "any-port-of-entry", "a request matches if any port of the matching entry matches", "a request on the third port of a three-port entry is refused: only the first port(s) of an entry are compared", "%s:%d" % (rec.file, rec.lo))
        got = run([port("Fixed", 1), port("Fixed", 2)], port("Fixed", 8080))
        R.check(got is False, "C14.R2", "no-port-of-entry", "a request on none of the entry's ports is refused", "a request whose port equals none of the entry's ports is admitted", "%s:%d" % (rec.file, rec.lo))
        got = run([], port("Default"), known=False)
        R.check(got is False, "C14.R2", "unknown-host->deny", "a host that matches no entry is denied", "an unrecognised host is not denied", "%s:%d" % (rec.file, rec.lo))
    except Unsupported as e:
        raise AnchorLost("WhitelistedHosts::recognize is not a plain decision over the router's answer any more (%s)" % e)
    R.floor("C14.R2", n, 16, "rows of the port table")
    # unknown host -> false; the host looked up is the request's host; any() over the entry's ports
    tr = ctx.tracer(follow_callers=False, follow_fields=False)
    rr = rec.calls_to(r"route_recognizer::Router::<.*>::recognize$")
    R.check(len(rr) == 1, "C14.R2", "host-lookup", "the host is looked up in the router", "%d router lookups" % len(rr), "%s:%d" % (rec.file, rec.lo))
    for c in rr:
        lv = tr.origins(rec, c.args[1])
        R.check(any(l.kind == "field" and l.detail["fields"][-1][1] == "host" for l in lv), "C14.R2", "host-lookup-key", "the key is the request authority's host", "the router is asked about %s" % [flow.leaf_str(l) for l in lv], where(c))


def r3_authority_table(ctx):
    F, R = ctx.F, ctx.R
    b = F.one(r"^jsonrpsee_server::middleware::http::authority::Authority::from_http_request$")
    R.fn(b)
    # the two inputs of the decision are found by what they are computed from (the Host header lookup, the URI's
    # authority), not by their names
    tr0 = ctx.tracer(follow_callers=False, follow_fields=False)

    def source_of(op):
        res = set()
        for lf in tr0.origins(b, op):
            if lf.kind != "call":
                continue
            if re.search(r"Option::<T>::map$", lf.detail["callee"]):
                for l2 in tr0.origins(b, lf.detail["args"][0]):
                    if l2.kind == "call":
                        res.add(l2.detail["callee"])
            else:
                res.add(lf.detail["callee"])
        return res

    start = None
    AUTH_OPT = "std::option::Option<std::result::Result<jsonrpsee_server::middleware::http::authority::Authority,"
    for bi, blk in enumerate(b.blocks):
        for si, st in enumerate(blk["st"]):
            if st["s"] == "assign" and st["rv"]["k"] == "agg" and st["rv"]["ak"] == "tuple" and len(st["rv"]["ops"]) == 2:
                ps = [op_place(o) for o in st["rv"]["ops"]]
                if all(p_ is not None and b.locals[p_["l"]]["ty"].startswith(AUTH_OPT) for p_ in ps):
                    srcs = [source_of(o) for o in st["rv"]["ops"]]
                    if any(re.search(r"read_header_value$", x) for x in srcs[0]) and any(re.search(r"Uri::authority$", x) for x in srcs[1]):
                        start = (bi, si)
                        tl = [ps[0]["l"], ps[1]["l"]]
                    elif any(re.search(r"read_header_value$", x) for x in srcs[1]) and any(re.search(r"Uri::authority$", x) for x in srcs[0]):
                        start = (bi, si)
                        tl = [ps[1]["l"], ps[0]["l"]]
    if start is None:
        raise AnchorLost("the (Host header, URI authority) match in from_http_request")
    hh = [x for x in flow._local_copies_back(b, tl[0], 6) if x != tl[0]] or [tl[0]]
    uu = [x for x in flow._local_copies_back(b, tl[1], 6) if x != tl[1]] or [tl[1]]
    it = Interp(F, call_handlers=[RX_EQ])
    OPT = "std::option::Option"
    RES = "std::result::Result"

    def val(kind, a):
        if kind == "absent":
            return Enum(OPT, 0, "None", [])
        if kind == "ok":
            return Enum(OPT, 1, "Some", [Enum(RES, 0, "Ok", [a])])
        return Enum(OPT, 1, "Some", [Enum(RES, 1, "Err", [Sym("err")])])

    n = 0
    for hk in ("absent", "ok", "bad"):
        for uk in ("absent", "ok", "bad"):
            for same in ((True, False) if hk == uk == "ok" else (True,)):
                n += 1
                a1 = Sym("A")
                a2 = Sym("A") if same else Sym("B")
                env = {tl[0]: [val(hk, a1)], tl[1]: [val(uk, a2)]}
                for x in hh:
                    env[x] = [val(hk, a1)]
                for x in uu:
                    env[x] = [val(uk, a2)]
                try:
                    got = it.run_from(b, start[0], start[1], env)
                except Unsupported as e:
                    raise AnchorLost("from_http_request's decision is not a plain table any more (%s)" % e)
                if hk == "ok" and uk == "ok":
                    want = ("Some", a1) if same else ("None", None)
                elif hk == "ok":
                    want = ("Some", a1)
                elif uk == "ok":
                    want = ("Some", a2)
                else:
                    want = ("None", None)
                g = (got.vname, got.fields[0] if got.fields else None) if isinstance(got, Enum) else (repr(got), None)
                R.check(g == want, "C14.R3", "authority:host-%s:uri-%s%s" % (hk, uk, "" if same else ":differ"), "Host %s / URI %s%s -> %s" % (hk, uk, "" if same else " (different)", want[0]), "Host header %s and URI authority %s%s resolve to %s, expected %s" % (hk, uk, "" if same else " (different)", g, want), "%s:%d" % (b.file, b.lo))
    R.floor("C14.R3", n, 10, "rows of the authority table")
    # what is parsed: the Host header and the URI authority
    tr = ctx.tracer(follow_callers=False, follow_fields=False)
    rh = b.calls_to(r"http_helpers::read_header_value$")
    ok = False
    for c in rh:
        for l in tr.origins(b, c.args[1]):
            if l.kind == "const" and l.detail.get("name", "").endswith("header::HOST"):
                ok = True
    R.check(ok, "C14.R3", "reads-host-header", "the Host header is read", "from_http_request does not read the HOST header", "%s:%d" % (b.file, b.lo))
    R.check(bool(b.calls_to(r"Uri::authority$")), "C14.R3", "reads-uri-authority", "the URI authority is read", "from_http_request does not read the URI authority", "%s:%d" % (b.file, b.lo))


def r4_default_port(ctx):
    F, R = ctx.F, ctx.R
    dp = F.one(r"^jsonrpsee_server::middleware::http::authority::default_port$")
    R.fn(dp)
    it = Interp(F, call_handlers=[RX_EQ])
    OPT = "std::option::Option"
    want = {"http": 80, "ws": 80, "https": 443, "wss": 443, "gopher": None, None: None}
    for sch, w in want.items():
        arg = Enum(OPT, 1, "Some", [Ref([sch])]) if sch is not None else Enum(OPT, 0, "None", [])
        try:
            got = it.run(dp, [arg])
        except Unsupported as e:
            raise AnchorLost("default_port is not a plain decision table any more (%s)" % e)
        g = got.fields[0] if isinstance(got, Enum) and got.fields else None
        R.check(g == w, "C14.R4", "default_port:%s" % sch, "default_port(%s) = %s" % (sch, w), "default_port(%s) = %s, expected %s" % (sch, g, w), "%s:%d" % (dp.file, dp.lo))
    # normalisation: a port equal to the scheme's default becomes Port::Default
    ifs = F.one(r"^jsonrpsee_server::middleware::http::authority::Authority::inner_from_str$")
    R.fn(ifs)
    d = ifs.calls_to(r"authority::default_port$")
    built = [st["rv"]["variant"] for blk in ifs.blocks for st in blk["st"] if st["s"] == "assign" and st["rv"]["k"] == "agg" and st["rv"].get("adt") == PORT]
    R.check(len(d) == 1 and "Default" in built and "Any" in built, "C14.R4", "inner_from_str:normalises", "the parser normalises default ports and `*`", "inner_from_str no longer normalises default ports / `*` (default_port sites=%d, variants built=%s)" % (len(d), sorted(set(built))), "%s:%d" % (ifs.file, ifs.lo))


def _ctor_sites(F, adt_suffix):
    out = []
    for b in F.real_bodies():
        if is_test_body(b):
            continue
        for bi, blk in enumerate(b.blocks):
            if blk.get("cleanup"):
                continue
            for st in blk["st"]:
                if st["s"] == "assign" and st["rv"]["k"] == "agg" and st["rv"].get("adt", "").endswith(adt_suffix):
                    out.append((b, bi, st))
    return out


def r5_one_parser_and_enabled_filter(ctx):
    """(a) allow-list entries and request authorities are the same kind of value: every Authority is produced by the one
    normalising parser (inner_from_str), whatever it is converted from - an entry built differently (bare IPv6 without
    brackets, unnormalised port) never equals the request side's form, or turns into a wildcard route; (b) an *enabled*
    filter is always Some(list), however short the list: None means 'filtering disabled' to HostFilter::call."""
    F, R = ctx.F, ctx.R
    sites = _ctor_sites(F, "http::authority::Authority")
    n = 0
    for b, bi, st in sites:
        if b.path.endswith("::clone") and (b.impl_trait or "").endswith("Clone"):
            continue
        n += 1
        R.check(bool(re.search(r"authority::Authority::inner_from_str$", b.path)), "C14.R5", "authority-ctor:%s" % fkey(b), "Authority values are built by the normalising parser", "%s builds an Authority without going through the parser (inner_from_str): the value is not normalised like the request side's (IPv6 brackets, default ports), so an allow-list entry built this way never matches - or matches every host" % short(b.path), "%s:%d" % (b.file, st["sp"][0]))
    R.floor("C14.R5", n, 1, "Authority construction sites")
    tr = ctx.tracer(follow_callers=False, follow_fields=False, inline_calls=False)
    m = 0
    for b, bi, st in _ctor_sites(F, "host_filter::HostFilterLayer"):
        if b.path.endswith("::clone") and (b.impl_trait or "").endswith("Clone"):
            continue
        m += 1
        lv = tr.origins(b, st["rv"]["ops"][0])
        kinds = sorted({(l.detail.get("variant") if l.kind == "agg" else flow.leaf_str(l)[:60]) for l in lv})
        if re.search(r"HostFilterLayer::disable$", b.path):
            R.check(kinds == ["None"], "C14.R5", "layer:disable-is-none", "disable() stores None", "HostFilterLayer::disable stores %s" % kinds, "%s:%d" % (b.file, st["sp"][0]))
        else:
            R.check(kinds == ["Some"], "C14.R5", "layer:%s-is-some" % b.path.split("::")[-1], "%s always stores Some(allow-list)" % short(b.path), "%s can store %s as the filter: None means `filtering disabled` to HostFilter::call, so an enabled filter (e.g. with an empty allow-list) lets every host through" % (short(b.path), kinds), "%s:%d" % (b.file, st["sp"][0]))
    R.floor("C14.R5.layer", m, 2, "HostFilterLayer construction sites")


XFORM = r"str::<impl str>::(to_ascii_lowercase|to_ascii_uppercase|to_lowercase|to_uppercase|trim\w*|replace\w*|strip_\w+|split\w*|rsplit\w*)$|String::(make_ascii_lowercase|make_ascii_uppercase|truncate|retain|remove|pop|insert\w*)$|^std::fmt::format$|<\[u8\]>::(to_ascii_lowercase|to_ascii_uppercase)$"


def r6_both_sides_spell_hosts_alike(ctx):
    """the allow-list (writer: From<..> for WhitelistedHosts feeds the router) and the request check (reader:
    WhitelistedHosts::recognize asks the router) must spell hosts the same way: whatever string transformation one side
    applies to Authority.host the other applies too (today: none on either side). A one-sided fold (lower-casing the
    entries only) makes an entry unmatchable by its own spelling and matchable by another."""
    F, R = ctx.F, ctx.R
    def xforms(pat):
        out = set()
        bodies = []
        for b in F.find(pat):
            bodies += F.nested(b)
        if not bodies:
            raise AnchorLost(pat)
        for b in bodies:
            R.fn(b)
            for c in b.calls_to(XFORM):
                out.add((c.name() or "").split("::")[-1])
        return out
    w = xforms(r"^<jsonrpsee_server::middleware::http::host_filter::WhitelistedHosts as std::convert::From<T>>::from$")
    r = xforms(r"^jsonrpsee_server::middleware::http::host_filter::WhitelistedHosts::recognize$")
    R.check(w == r, "C14.R6", "host-spelling:writer-reader-agree", "allow-list entries and request hosts reach the router in the same spelling (transformations: %s)" % (sorted(w) or "none"), "the allow-list side transforms hosts with %s but the request side with %s: an entry is no longer matched by a request that spells the host exactly like the entry (and may be matched by a different spelling)" % (sorted(w) or "nothing", sorted(r) or "nothing"), None)
    # the route key is the entry's host, the lookup key is the request authority's host
    tr = ctx.tracer(follow_callers=False, follow_fields=False)
    rec = F.one(r"^jsonrpsee_server::middleware::http::host_filter::WhitelistedHosts::recognize$")
    for c in rec.calls_to(r"Router::<.*>::recognize$"):
        lv = tr.origins(rec, c.args[1])
        R.check(bool(lv) and all(l.kind == "field" and l.detail["fields"][-1][1] == "host" and l.detail["idx"] == 2 for l in lv), "C14.R6", "recognize:looks-up-request-host", "the router is asked about the request authority's host", "recognize() asks the router about %s" % [flow.leaf_str(l) for l in lv], where(c))



def rstatus_http_status_table(ctx):
    """the HTTP refusals relevant here carry their own status codes"""
    from .common import http_status_table
    http_status_table(ctx, "C14.STATUS", ('host_not_allowed', 'malformed'))


def r7_parser_fails_closed(ctx):
    """the authority parser is fail-closed: when a step of Authority::inner_from_str cannot extract what it looks for it
    returns an error (`?`) - it never collapses an Option/Result into a default (`unwrap_or_default`, `unwrap_or("")`,
    `.ok()`), because "nothing found" for the port text means Port::Default, i.e. a request with an explicit port would be
    matched as if it had none"""
    F, R = ctx.F, ctx.R
    b = F.one(r"^jsonrpsee_server::middleware::http::authority::Authority::inner_from_str$")
    bodies = F.nested(b)
    bad = []
    for x in bodies:
        R.fn(x)
        bad += [c for c in x.calls_to(r"(Option|Result)::<.*>::(unwrap_or_default|unwrap_or|unwrap_or_else|ok|map_or|map_or_else|unwrap|expect)$|Option::<.*>::(or|or_else|xor)$") if not c.exp]
    R.check(not bad, "C14.R7", "inner_from_str:fails-closed", "every failed step of the authority parser is an error", "Authority::inner_from_str collapses a failed step into a default (%s): when the port text cannot be cut out (e.g. an authority with userinfo) the port is silently read as `default`, so `user@host:8080` is matched like `host`" % sorted({short(c.name()) for c in bad}), where(bad[0]) if bad else "%s:%d" % (b.file, b.lo))
    # the port text comes from the authority string itself
    sp = [c for x in bodies for c in x.calls_to(r"str::<impl str>::(split_once|rsplit_once|rfind|find|split)$")]
    R.check(bool(sp), "C14.R7", "inner_from_str:port-from-authority-text", "the port is cut out of the authority text", "inner_from_str no longer cuts the port out of the authority text", "%s:%d" % (b.file, b.lo))


def r8_ports_registered_per_host(ctx):
    """the port list registered for a host holds that host's ports only. Structural part: a collection handed to
    Router::add inside a loop is not an accumulator that lives across iterations - if the registered value (or what it was
    cloned from) is created outside the loop and pushed to inside it, every iteration that registers it also resets it
    (clear / mem::take / re-assignment). Otherwise every host also gets the ports of the hosts registered before it."""
    F, R = ctx.F, ctx.R
    tr = ctx.tracer(follow_callers=False, follow_fields=False, inline_calls=False)
    n = 0
    for b in F.find(r"^<jsonrpsee_server::middleware::http::host_filter::WhitelistedHosts as std::convert::From<T>>::from$"):
        R.fn(b)
        for add in b.calls_to(r"^route_recognizer::Router::<.*>::add$"):
            n += 1
            loop = {x for x in b.reach_from(add.bb) if add.bb in b.reach_from(x)} | {add.bb}
            # locals the registered value is (a clone of)
            srcs = set()
            work = []
            pl0 = op_place(add.args[2])
            if pl0 is not None:
                work = [pl0["l"]]
            for _ in range(5):
                nxt = []
                for l0 in work:
                    for v in flow._local_copies_back(b, l0, 6):
                        if v in srcs:
                            continue
                        srcs.add(v)
                        for bi, si, dpl, src in b.defs.get(v, []):
                            if src[0] == "call":
                                f = op_const(src[1]["f"]) or {}
                                if re.search(r"Clone>?::clone$|ToOwned>?::to_owned$|\]>::to_vec$|Deref>?::deref$", f.get("res", f.get("fn", "")) or "") and src[1]["args"]:
                                    q = op_place(src[1]["args"][0])
                                    if q is not None:
                                        nxt.append(q["l"])
                work = nxt
            bad = []
            for v in sorted(srcs):
                if not b.locals[v]["ty"].lstrip("&mut ").startswith(("std::vec::Vec<", "alloc::vec::Vec<", "std::collections::", "smallvec::")):
                    continue
                def touches(c, v=v):
                    if not c.args:
                        return False
                    pl = op_place(c.args[0])
                    return pl is not None and v in flow._local_copies_back(b, pl["l"], 6)
                grows = [c for c in b.calls_to(r"Vec::<.*>::(push|extend|extend_from_slice|insert|append)$|Extend<.*>>::extend$") if c.bb in loop and touches(c)]
                if not grows:
                    continue
                created_in_loop = any(bi in loop for bi, si, dpl, src in b.defs.get(v, []) if not dpl.get("p"))
                resets = [c for c in b.calls_to(r"Vec::<.*>::(clear|truncate|drain)$|^std::mem::(take|replace|swap)$|^core::mem::(take|replace|swap)$") if c.bb in loop and touches(c)]
                if not created_in_loop and not resets:
                    bad.append((v, grows[0]))
            R.check(not bad, "C14.R8", "%s:ports-fresh-per-host" % fkey(b), "the port list registered for a host is built for that host alone", "the port list handed to Router::add (%s) is created outside the loop, grown inside it (%s) and never reset: every host is registered with its own ports plus those of all hosts registered before it, so a request for one host is admitted on another host's port" % (", ".join(b.local_name(v) or "_%d" % v for v, _ in bad), ", ".join(where(g) for _, g in bad)), where(add))
    R.floor("C14.R8", n, 1, "Router::add sites in the allow-list constructor")


def _u16_sources(F, tr, b, op, depth=0, seen=None):
    """leaves of a port number: (ok, description) per origin; in-crate helpers are followed through their return value"""
    out = []
    seen = seen if seen is not None else set()
    for l in tr.origins(b, op):
        if l.kind == "call":
            callee = l.detail.get("callee") or ""
            decl = l.detail.get("declared") or ""
            call = next((c for c in b.calls if c.bb == l.detail.get("bb")), None)
            if re.search(r"str::<impl str>::parse$", callee) and call is not None and call.ga and call.ga[-1] == "u16":
                out.append((True, "str::parse::<u16>"))
                continue
            if re.search(r"<u16 as std::str::FromStr>::from_str$|^core::num::<impl u16>::from_str_radix$", callee):
                out.append((True, "u16::from_str"))
                continue
            if re.search(r"Authority::port_u16$|uri::Port::<.*>::as_u16$", callee):
                out.append((True, "http's own port parser"))
                continue
            tgt = F.bodies.get(callee) or F.bodies.get(decl)
            if tgt is not None and tgt.crate == SERVER and depth < 3 and tgt.path not in seen:
                seen.add(tgt.path)
                out += _u16_sources(F, tr, tgt, {"cp": {"l": 0}}, depth + 1, seen)
                continue
            out.append((False, "result of %s" % short(callee)))
        elif l.kind == "agg" and l.detail.get("variant") in ("Err", "None"):
            continue
        elif l.kind == "agg" and l.detail.get("variant") in ("Ok", "Some") and l.detail.get("ops"):
            out += _u16_sources(F, tr, F.bodies[l.where], l.detail["ops"][0], depth, seen)
        elif l.kind == "const":
            out.append((True, "constant"))
        else:
            out.append((False, flow.leaf_str(l)[:80]))
    return out


def r9_port_numbers_are_parsed_as_u16(ctx):
    """a port is a number in 0..=65535: the number that becomes Port::Fixed / is compared with the default port comes
    from the standard u16 parser, which refuses out-of-range text. A hand-rolled digit fold that wraps makes `:73616`
    equal to `:8080`; also no wrapping / truncating integer operation appears in the authority module."""
    F, R = ctx.F, ctx.R
    tr = ctx.tracer(follow_callers=False, follow_fields=False, inline_calls=False)
    n = 0
    mods = [b for b in F.real_bodies() if b.crate == SERVER and b.path.startswith(("jsonrpsee_server::middleware::http::authority::", "<jsonrpsee_server::middleware::http::authority::")) and not is_test_body(b)]
    for b in mods:
        R.fn(b)
        if re.search(r"Port as std::convert::From<u16>>::from$", b.path):
            continue
        sites = [(c, c.args[0]) for c in b.calls_to(r"Into<.*>>::into$|Into::into$|From<u16>>::from$") if c.ga and c.ga[0] == "u16" and "Port" in (c.ga[-1] if len(c.ga) > 1 else (c.self_ty or ""))]
        sites += [(c, c.args[0]) for c in b.calls_to(r"Port as std::convert::From<u16>>::from$")]
        for bi, blk in enumerate(b.blocks):
            if blk.get("cleanup") or bi not in b.reachable:
                continue
            for st in blk["st"]:
                if st["s"] == "assign" and st["rv"]["k"] == "agg" and st["rv"].get("variant") == "Fixed" and st["rv"].get("adt", "").endswith("authority::Port"):
                    sites.append((None, st["rv"]["ops"][0]))
        for c, op in sites:
            n += 1
            srcs = _u16_sources(F, tr, b, op)
            bad = sorted({d for ok, d in srcs if not ok})
            R.check(bool(srcs) and not bad, "C14.R9", "%s:port-number-source" % fkey(b), "the port number comes from the standard u16 parser", "the number that becomes the port is produced by %s, not by the standard u16 parser: out-of-range port text (`:73616`) is no longer refused and can wrap onto an allowed port" % (bad or "nothing traceable"), where(c) if c else "%s:%d" % (b.file, b.lo))
    R.floor("C14.R9", n, 1, "u16 -> Port conversion sites in the authority parser")
    wrap = []
    for b in mods:
        for x in F.nested(b):
            wrap += [(short(c.name()), where(c)) for c in x.calls_to(r"num::<impl u(8|16|32|64|size)>::(wrapping_\w+|overflowing_\w+|saturating_\w+)$") if not c.exp]
            for bi, blk in enumerate(x.blocks):
                if blk.get("cleanup") or bi not in x.reachable:
                    continue
                for st in blk["st"]:
                    rv = st.get("rv") if st["s"] == "assign" else None
                    if rv and rv["k"] == "cast" and rv.get("ty") in ("u16", "u8") and "IntToInt" in str(rv.get("ck")):
                        src = op_place(rv["op"])
                        sty = x.locals[src["l"]]["ty"] if src is not None and not src.get("p") else "?"
                        if sty in ("u32", "u64", "usize", "i32", "i64", "isize", "u128", "i128"):
                            wrap.append(("%s as %s" % (sty, rv.get("ty")), "%s:%d" % (x.file, st["sp"][0])))
    R.check(not wrap, "C14.R9", "authority:no-wrapping-arithmetic", "no wrapping / truncating integer operation in the authority module", "the authority module computes with wrapping / truncating integer operations (%s): a port outside 0..=65535 wraps onto a valid one" % sorted({d for d, _ in wrap}), wrap[0][1] if wrap else None)


def r10_header_value_is_taken_whole(ctx):
    """the authority that is matched is the authority that was sent: read_header_value hands the Host header's text on as
    it is (no split / trim / case change - `example.com, evil.test` is one malformed value, not `example.com`), and
    Authority::from_http_request passes exactly that text to the parser."""
    from .common import text_transforms
    F, R = ctx.F, ctx.R
    got = text_transforms(F, R, (r"^jsonrpsee_core::http_helpers::read_header_value$",))
    R.check(not got, "C14.R10", "read_header_value:verbatim", "read_header_value returns the header text unchanged", "read_header_value transforms the header text (%s) before handing it on: the host filter validates only a part of the Host header (`example.com, evil.test` passes as `example.com`)" % sorted(got), None)
    b = F.one(r"^jsonrpsee_core::http_helpers::read_header_value$")
    tr = ctx.tracer(follow_callers=False, follow_fields=False)
    lv = [l for l in tr.origins(b, {"cp": {"l": 0}}) if not (l.kind == "agg" and l.detail.get("variant") == "None")]
    ok = bool(lv) and all((l.kind == "call" and re.search(r"HeaderValue::to_str$|FromResidual.*::from_residual$", l.detail.get("callee") or "")) or (l.kind == "agg" and l.detail.get("variant") in ("Some", "None")) for l in lv) and any(l.kind == "call" and re.search(r"HeaderValue::to_str$", l.detail.get("callee") or "") for l in lv)
    R.check(ok, "C14.R10", "read_header_value:result-is-to_str", "what read_header_value returns is HeaderValue::to_str's text", "read_header_value returns %s" % [flow.leaf_str(l)[:60] for l in lv][:4], "%s:%d" % (b.file, b.lo))
    # u16 -> Port is Port::Fixed(port) for every port number (0 included: `host:0` is not `host:*`)
    fb = F.one(r"Port as std::convert::From<u16>>::from$")
    R.fn(fb)
    aggs = [st for blk in fb.blocks if not blk.get("cleanup") for st in blk["st"] if st["s"] == "assign" and st["rv"]["k"] == "agg" and (st["rv"].get("adt") or "").endswith("authority::Port")]
    branches = [bi for bi, blk in enumerate(fb.blocks) if bi in fb.reachable and not blk.get("cleanup") and blk["term"] and blk["term"]["t"] == "switch"]
    R.check(len(aggs) == 1 and aggs[0]["rv"].get("variant") == "Fixed" and not branches, "C14.R10", "port-from-u16:always-fixed", "a numeric port is always Port::Fixed(n)", "<Port as From<u16>>::from does not map every number to Port::Fixed (variants built: %s, %d branches): some port number is read as a wildcard / default, so an entry `host:<n>` admits requests on other ports" % (sorted(a["rv"].get("variant") for a in aggs), len(branches)), "%s:%d" % (fb.file, fb.lo))


def r11_request_headers_reach_the_filter_untouched(ctx):
    """the authority the filter judges is the one the client sent: in the server crate the headers / URI of an incoming
    request are modified only by the GET proxy, and there only by inserting Content-Type and Accept (and the fixed `/`
    target): nothing copies the URI authority over the Host header on the way in (that hides a Host / authority
    disagreement, which must be answered 400), and the proxy does not clear the headers (a proxied GET then reaches an
    inner host filter without any authority and is refused although its Host matches the allow-list)."""
    F, R = ctx.F, ctx.R
    tr = ctx.tracer(follow_callers=False, follow_fields=False, inline_calls=False)
    n = 0
    PROXY = r"proxy_get_request::ProxyGetRequest<S> as tower::Service<hyper::Request<B>>>::call$"
    for c in F.all_calls(r"Request::<.*>::(headers_mut|uri_mut|method_mut)$"):
        b = c.body
        if b.crate != SERVER or is_test_body(b):
            continue
        n += 1
        R.fn(b)
        R.check(bool(re.search(PROXY, b.path)), "C14.R11", "request-mutation:%s:%s" % (fkey(b), (c.name() or "").split("::")[-1]), "the request is modified by the GET proxy only", "%s modifies an incoming request (%s) before the HTTP middleware sees it: the host filter no longer judges the Host header / authority the client sent (a Host that disagrees with the URI authority is overwritten instead of being answered 400)" % (short(b.path), (c.name() or "").split("::")[-1]), where(c))
    R.floor("C14.R11", n, 3, "request-mutation sites in the server crate")
    for b in F.find(PROXY):
        for c in b.calls_to(r"HeaderMap::<.*>::\w+$"):
            op = (c.name() or "").split("::")[-1]
            if op in ("get", "get_all", "contains_key", "iter", "len", "is_empty", "keys", "values"):
                continue
            ok = False
            if op == "insert" and len(c.args) >= 2:
                ks = [op_const(c.args[1])] + [l.detail for l in tr.origins(b, c.args[1]) if l.kind == "const"]
                ok = any(k and re.search(r"header::(CONTENT_TYPE|ACCEPT)$", str(k.get("name", ""))) for k in ks)
            R.check(ok, "C14.R11", "proxy:header-op:%s@%d" % (op, sorted(x.bb for x in b.calls_to(r"HeaderMap::<.*>::\w+$")).index(c.bb)), "the proxy only inserts Content-Type / Accept", "ProxyGetRequest::call performs `%s` on the request's headers: beyond adding Content-Type and Accept the proxy must leave the headers alone - clearing / removing them takes the Host header away from an inner host filter, which then refuses a request whose Host is allow-listed" % op, where(c))


def r12_authority_comes_from_host_and_uri_only(ctx):
    """what authority a request has is decided from its Host header and its URI, nothing else: of the request,
    `Authority::from_http_request` reads `headers()` and `uri()` only. A branch on anything else (the HTTP version, a
    pseudo-header rule for HTTP/2) lets one of the two win without the comparison - `:authority: allowed`, `Host: evil` -
    on one entry point and not on the other."""
    F, R = ctx.F, ctx.R
    b = F.one(r"^jsonrpsee_server::middleware::http::authority::Authority::from_http_request$")
    R.fn(b)
    acc = [c for x in F.nested(b) for c in x.calls if re.search(r"^(hyper|http)::(request::)?Request::<.*>::\w+$", c.name() or "")]
    other = [c for c in acc if not re.search(r"::(headers|uri)$", c.name() or "")]
    R.floor("C14.R12", len(acc), 2, "reads of the request in from_http_request")
    R.check(not other, "C14.R12", "reads-host-and-uri-only", "from_http_request reads headers() and uri()", "Authority::from_http_request also looks at %s: for some requests the Host header and the URI authority are no longer compared with each other" % sorted({short(c.name()) for c in other}), where(other[0]) if other else None)


def r13_allow_list_entries_do_not_lend_each_other_ports(ctx):
    """a request is admitted when it matches *one* configured entry in host and in port: when the allow-list is built,
    the ports stored for a host pattern are the ports of the entries with exactly that host. The construction
    (`WhitelistedHosts::from`) therefore touches its per-host table through `entry(host)` alone and matches no host
    against another one (no Router::recognize at build time): patterns that overlap keep their own ports."""
    F, R = ctx.F, ctx.R
    bs = F.find(r"host_filter::WhitelistedHosts as std::convert::From<T>>::from$")
    if len(bs) != 1:
        raise AnchorLost("From<T> for WhitelistedHosts")
    calls = [c for x in F.nested(bs[0]) for c in x.calls if not c.exp]
    R.fn(bs[0])
    tbl = [c for c in calls if re.search(r"BTreeMap::<.*>::(insert|get_mut|get|remove|extend|append|iter_mut|values_mut|retain)$|BTreeMap<.*> as std::ops::Index.*>::index$|HashMap::<.*>::(insert|get_mut|extend|iter_mut|values_mut)$", c.name() or "")]
    rec = [c for c in calls if re.search(r"Router::<.*>::recognize$", c.name() or "")]
    ent = [c for c in calls if re.search(r"BTreeMap::<.*>::entry$|HashMap::<.*>::entry$", c.name() or "")]
    R.floor("C14.R13", len(ent), 1, "entry(host) sites in WhitelistedHosts::from")
    R.check(not tbl and not rec, "C14.R13", "ports-per-entry-host", "each entry contributes its port to its own host only", "WhitelistedHosts::from moves ports between hosts while it builds the allow-list (%s): a request can be admitted on a port that belongs to another entry" % sorted({short(c.name()) for c in tbl + rec}), where((tbl + rec)[0]) if tbl + rec else None)


def r14_authorities_are_compared_field_by_field(ctx):
    """`Host header and URI authority disagree -> 400` rests on `a1 == a2` of two Authority values, and the allow-list on
    their Hash/Eq: both are the derived impls (= compare host with host and port with port of the *other* value)"""
    from .common import derived_impls_stay_derived
    derived_impls_stay_derived(ctx, "C14.R14", [("PartialEq for Authority", r"^<jsonrpsee_server::middleware::http::authority::Authority as std::cmp::PartialEq>::eq$"), ("Hash for Authority", r"^<jsonrpsee_server::middleware::http::authority::Authority as std::hash::Hash>::hash$"), ("PartialEq for Port", r"^<jsonrpsee_server::middleware::http::authority::Port as std::cmp::PartialEq>::eq$")])


RULES = [r14_authorities_are_compared_field_by_field, r12_authority_comes_from_host_and_uri_only, r13_allow_list_entries_do_not_lend_each_other_ports, r11_request_headers_reach_the_filter_untouched, r10_header_value_is_taken_whole, r8_ports_registered_per_host, r9_port_numbers_are_parsed_as_u16, r1_gate, r2_port_table, r3_authority_table, r4_default_port, r5_one_parser_and_enabled_filter, r6_both_sides_spell_hosts_alike, r7_parser_fails_closed, rstatus_http_status_table]

LEVEL_TEXT = (
    "The gate (who may reach the inner service) is decided by dominance for every path of HostFilter::call, and the three "
    "finite decisions the property names - the port table, the authority-resolution table and the default-port table - are "
    "extracted exhaustively from the switch structure and compared with the stated tables. Host-pattern matching itself is "
    "route-recognizer's and is trusted, not analysed."
)
LEVEL_NOTE = "Trusted: rustc MIR; route-recognizer; http::Uri. Not decided: wildcard matching and URI parsing over all header strings."
TECHNIQUE = "dominance (gate) + exhaustive decision-table extraction over finite variant products"

"""C09 — client: on connection failure everything pending fails with the cause (structural clauses)."""
import re

from .common import (sub_is_guarded, fkey, where, short, arg_is_local, follow_value, block_line, terminal_field, awaited_value_local, CORE)
from ..facts import op_place, op_const, AnchorLost, is_test_body
from .. import flow

PID = "C09"
LEVEL = "other"
EXPLANATION = (
    'Static analysis over MIR of the async client. Decided: R1 (happens-before assembled from per-task dominance) in '
    'the task that owns the FrontToBack receiver, closing or dropping that receiver - the only signal the front end '
    'has - is dominated by the completion of close_tx.send(res).await and then close_tx.closed().await, and in '
    'wait_for_shutdown the write of the shared disconnect reason happens on the Some(Err) arm before the close '
    'receiver can be dropped; after the cause is recorded no further transport operation is awaited before the '
    'frontend channel is closed; R2 no overflow-capable arithmetic (+,-,* and their overflow-checked forms) on '
    "numbers that originate from the server's message in the receive path; R3 in send_task and read_task every path "
    'to the end passes through close_tx.send(res), and every transport result awaited in the send path '
    '(handle_frontend_messages, stop_subscription, send_ping) is propagated with `?` / matched into Error::Transport, '
    'never discarded; R4 the front end maps a dead channel to ServiceDisconnect and then to on_disconnect(): every '
    'service future of the Client is passed to run_future_until_timeout, subscribe_to_method waits through '
    'call_with_timeout; R5 read_error waits for the channel to close and returns RestartNeeded(cause) when the slot '
    'is filled. R6 no second acquisition of the request-manager lock (or any std lock) while a guard of it is alive, '
    'directly or one crate call deep (fixture control with a sequential twin). NOT decided: the schedules themselves; '
    'promptness in wall-clock terms; absence of every other panic for arbitrary bytes.'
)
RULE_TEXT = "instances = receiver close/drop sites vs. awaited acknowledgements, arithmetic sites in the receive path with tainted operands, awaited transport results, service futures"
TRUSTED = ["rustc MIR", "tokio mpsc: Sender::closed() resolves when the receiver is dropped/closed", "futures select"]
ASSUMPTIONS = ["cfg(wasm32) builder not analysed"]

SEND_TASK = r"^jsonrpsee_core::client::async_client::send_task::\{closure#0\}$"
READ_TASK = r"^jsonrpsee_core::client::async_client::read_task::\{closure#0\}$"
WFS = r"^jsonrpsee_core::client::async_client::wait_for_shutdown::\{closure#0\}$"
HFM = r"^jsonrpsee_core::client::async_client::handle_frontend_messages::\{closure#0\}$"
HRM = r"^jsonrpsee_core::client::async_client::handle_backend_messages::handle_recv_message$"


def _ready(body, call):
    vl, rblk = awaited_value_local(body, call)
    if rblk is None:
        rblk = flow.await_ready_block(body, call)
    return rblk


def r1_cause_before_close(ctx):
    F, R = ctx.F, ctx.R
    st = F.one(SEND_TASK)
    R.fn(st)
    tr = ctx.tracer(follow_callers=False, follow_fields=False)
    sends = [c for c in st.calls_to(r"mpsc::.*Sender::<.*>::send$") if "Result<(), " in " ".join(c.ga) + (c.self_ty or "")]
    closeds = [c for c in st.calls_to(r"mpsc::.*Sender::<.*>::closed$")]
    R.check(len(sends) == 1, "C09.R1", "send_task:reports", "send_task reports its result to the watcher once", "%d close_tx.send sites in send_task" % len(sends), "%s:%d" % (st.file, st.lo))
    if not sends:
        return
    rs = _ready(st, sends[0])
    ack = None
    for c in closeds:
        r = _ready(st, c)
        if r is not None and rs is not None and st.dominates(rs, c.bb):
            ack = r
    R.check(ack is not None, "C09.R1", "send_task:waits-for-watcher", "after reporting, send_task waits until the watcher dropped its receiver (cause recorded)", "send_task does not wait for the watcher (close_tx.closed().await after close_tx.send(res).await): the frontend channel can close before the cause is stored", where(sends[0]))
    # every close / drop of the FrontToBack receiver
    sites = []
    for c in st.calls_to(r"mpsc::.*Receiver::<.*>::close$"):
        if "FrontToBack" in " ".join(c.ga) + (c.self_ty or ""):
            sites.append((c.bb, "close()", where(c)))
    for bi, blk in enumerate(st.blocks):
        t = blk["term"]
        if t and t["t"] == "drop" and bi in st.reachable and not blk.get("cleanup"):
            pl = t["pl"]
            if not pl.get("p") and "Receiver<jsonrpsee_core::client::FrontToBack>" in st.locals[pl["l"]]["ty"]:
                sites.append((bi, "drop", "%s:%d" % (st.file, t["sp"][0])))
    R.floor("C09.R1", len(sites), 1, "close/drop sites of the frontend receiver in send_task")
    for bb, what, loc in sites:
        R.check(ack is not None and st.dominates(ack, bb), "C09.R1", "send_task:frontend-%s-after-cause" % what, "the frontend channel is closed (%s) only after the cause was recorded" % what, "the frontend channel is closed (%s) before the failing task's cause reached the shutdown watcher: a caller woken by the closed channel reads an empty slot and gets the placeholder error" % what, loc)
    # promptness: between the acknowledgement and the close no transport operation is awaited
    if ack is not None:
        closes = [bb for bb, what, _ in sites if what == "close()"]
        for c in st.calls:
            if re.search(r"TransportSenderT::(close|send|send_ping)$", c.callee or "") and st.dominates(ack, c.bb):
                for cb in closes:
                    bad = st.can_reach(c.bb, cb)
                    R.check(not bad, "C09.R1", "send_task:no-transport-await-before-close", "no transport operation is awaited between recording the cause and closing the frontend channel", "after the cause is recorded send_task awaits TransportSenderT::%s before closing the frontend channel: is_connected stays true and on_disconnect stalls while the transport operation runs" % c.callee.split("::")[-1], where(c))
    # who else owns a FrontToBack receiver?
    owners = set()
    for b in F.real_bodies():
        if b.crate != CORE or is_test_body(b):
            continue
        for l in b.locals:
            if "mpsc::Receiver<jsonrpsee_core::client::FrontToBack>" in l["ty"] and "SendTaskParams" not in l["ty"]:
                owners.add(fkey(F.root_fn(b)))
    R.check(owners <= {"jsonrpsee_core::client::async_client::send_task", "jsonrpsee_core::client::async_client::ClientBuilder::build_with_tokio"}, "C09.R1", "frontend-receiver-owners", "only send_task owns the frontend receiver", "the frontend receiver is owned by %s" % sorted(owners), None)
    # watcher: slot write on the Some(Err) arm, before the close receiver is dropped
    w = F.one(WFS)
    R.fn(w)
    wr = w.calls_to(r"RwLock::<.*>::write$")
    R.check(len(wr) == 1, "C09.R1", "watcher:writes-slot", "the watcher writes the shared disconnect reason", "%d RwLock::write sites in wait_for_shutdown" % len(wr), "%s:%d" % (w.file, w.lo))
    for c in wr:
        stored = False
        for bi in w.reach_from(c.bb) | {c.bb}:
            if not w.dominates(c.bb, bi):
                continue
            for s in w.blocks[bi]["st"]:
                if s["s"] == "assign" and "*" in s["pl"].get("p", []) and s["rv"]["k"] == "use":
                    for l in tr.origins(w, s["rv"]["op"]):
                        if l.kind == "agg" and l.detail.get("variant") == "Some":
                            l2 = tr.origins(w, l.detail["ops"][0])
                            if any("as Err" in " ".join(x.chain) for x in l2):
                                stored = True
        R.check(stored, "C09.R1", "watcher:stores-received-error", "the reason stored is the received error", "the watcher does not store the received error", where(c))
        for bi, blk in enumerate(w.blocks):
            t = blk["term"]
            if t and t["t"] == "drop" and bi in w.reachable and not blk.get("cleanup"):
                pl = t["pl"]
                if not pl.get("p") and "mpsc::Receiver<" in w.locals[pl["l"]]["ty"]:
                    R.check(not w.can_reach(bi, c.bb), "C09.R1", "watcher:receiver-dropped-after-write", "the close receiver is dropped only after the reason was written", "wait_for_shutdown can drop the close receiver before writing the reason: tasks waiting in close_tx.closed() proceed to close the frontend channel with an empty slot", "%s:%d" % (w.file, t["sp"][0]))
        for cl in w.calls_to(r"mpsc::.*Receiver::<.*>::close$"):
            R.check(not w.can_reach(cl.bb, c.bb), "C09.R1", "watcher:receiver-closed-after-write", "the close receiver is closed only after the write", "wait_for_shutdown closes the receiver before writing the reason", where(cl))


_ARITH = ("Add", "Sub", "Mul", "AddWithOverflow", "SubWithOverflow", "MulWithOverflow", "AddUnchecked", "SubUnchecked", "MulUnchecked", "Shl", "ShlUnchecked")


def r2_no_unchecked_arith_on_peer_numbers(ctx):
    F, R = ctx.F, ctx.R
    tr = ctx.tracer(follow_callers=True, follow_fields=False, max_depth=3)
    bodies = []
    for b in F.real_bodies():
        if b.crate != CORE or is_test_body(b):
            continue
        p = b.path
        if re.search(r"client::async_client::(handle_backend_messages|helpers::process_|manager::RequestManager)", p) or p.startswith("jsonrpsee_core::client::async_client::handle_backend_messages"):
            bodies.append(b)
    R.floor("C09.R2", len(bodies), 15, "bodies of the client's receive path")
    n = 0
    for b in bodies:
        R.fn(b)
        for bi, blk in enumerate(b.blocks):
            if blk.get("cleanup") or bi not in b.reachable:
                continue
            for st in blk["st"]:
                if st["s"] != "assign" or st["rv"]["k"] != "bin" or st["rv"]["op"] not in _ARITH:
                    continue
                if st["sp"][2].startswith("m:"):
                    continue
                n += 1
                # a subtraction under an explicit `a >= b` test cannot underflow
                if st["rv"]["op"].startswith("Sub") and sub_is_guarded(b, bi, st["rv"]):
                    R.ok("C09.R2", "%s:arith@%s:guarded" % (fkey(b), st["rv"]["op"]), "subtraction protected by an explicit comparison", "%s:%d" % (b.file, st["sp"][0]))
                    continue
                tainted = []
                for o in (st["rv"]["a"], st["rv"]["b"]):
                    for l in tr.origins(b, o):
                        if l.kind == "call" and re.search(r"try_parse_inner_as_number$|serde_json::(de::)?from_(slice|str)$|RawResponse::<'.*>::id$", l.detail["callee"] or ""):
                            tainted.append(flow.leaf_str(l))
                        elif l.kind == "field" and l.detail["fields"][-1][1] in ("id", "start", "end") and "Range" in (l.detail["fields"][-1][0] or "") + l.detail.get("base_ty", ""):
                            # a Range built from reply ids
                            tainted.append(flow.leaf_str(l))
                ordn = n
                R.check(not tainted, "C09.R2", "%s:arith@%s" % (fkey(b), st["rv"]["op"]), "arithmetic %s on locally produced numbers" % st["rv"]["op"], "unchecked arithmetic (%s) on a number supplied by the server (%s): an extreme id overflows (panic in overflow-checking builds, wrap-around otherwise) in the background read task" % (st["rv"]["op"], sorted(set(tainted))[:2]), "%s:%d" % (b.file, st["sp"][0]))
    R.extra["C09.R2.arith_sites"] = n
    # the range end computation uses checked_add and its failure is an error return
    from .common import client_message_handlers
    h = client_message_handlers(F)[0]
    ca = h.calls_to(r"checked_add$")
    R.check(bool(ca), "C09.R2", "range-end:checked_add", "the exclusive range end is computed with checked_add", "handle_recv_message no longer uses checked_add for the reply id range", "%s:%d" % (h.file, h.lo))
    for c in h.calls_to(r"Option::<.*>::(unwrap|expect)$|Result::<.*>::(unwrap|expect)$"):
        if c.exp:
            continue
        lv = tr.origins(h, c.args[0])
        bad = any(l.kind == "call" and re.search(r"checked_(add|sub|mul)$|try_parse_inner_as_number$", l.detail["callee"] or "") for l in lv)
        R.check(not bad, "C09.R2", "no-unwrap-on-peer-number@%d" % c.bb, "no unwrap/expect on a computation over server-supplied numbers", "unwrap/expect on a checked computation over a server-supplied number: panics the read task", where(c))


def r3_errors_reach_watcher(ctx):
    F, R = ctx.F, ctx.R
    tr = ctx.tracer(follow_callers=False, follow_fields=False)
    for pat, label in ((SEND_TASK, "send_task"), (READ_TASK, "read_task")):
        b = F.one(pat)
        R.fn(b)
        sends = [c for c in b.calls_to(r"mpsc::.*Sender::<.*>::send$") if "Result<(), " in " ".join(c.ga) + (c.self_ty or "")]
        R.check(len(sends) == 1, "C09.R3", "%s:one-report" % label, "%s has one report site" % label, "%s has %d report sites" % (label, len(sends)), "%s:%d" % (b.file, b.lo))
        for s in sends:
            ok = flow.all_paths_pass(b, 0, {s.bb}, b.exits)
            R.check(ok, "C09.R3", "%s:report-on-every-exit" % label, "every way out of %s reports the outcome to the watcher" % label, "%s can finish without reporting its outcome to the shutdown watcher (an error exit skips close_tx.send): the cause is lost and on_disconnect never gets it" % label, where(s))
            lv = tr.origins(b, s.args[1])
            errs = [l for l in lv if l.kind == "agg" and l.detail.get("variant") == "Err"]
            R.check(len(errs) >= 2, "C09.R3", "%s:reports-errors" % label, "the reported value can be each of the task's errors (%d Err origins)" % len(errs), "the value reported by %s has %d error origins" % (label, len(errs)), where(s))
    # transport results in the send path are never discarded
    from .common import awaited_error_leaves_function, frontend_family
    hfm_, helpers_ = frontend_family(F)
    wr = r"TransportSenderT::send$|async_client::helpers::stop_subscription$"
    groups = [("handle_frontend_messages", [hfm_] + helpers_, wr + "|" + "|".join(re.escape(h.path[:-len("::{closure#0}")]) + "$" for h in helpers_) if helpers_ else wr),
              ("stop_subscription", F.find(r"^jsonrpsee_core::client::async_client::helpers::stop_subscription::\{closure#0\}$"), r"TransportSenderT::send$")]
    if not groups[1][1]:
        groups.pop()   # the helper was inlined into its caller: its write is one of handle_frontend_messages' writes now
    for label, bodies, calls_pat in groups:
        total = 0
        for b in bodies:
            R.fn(b)
            cs = [c for c in b.calls if (re.search(calls_pat, c.callee or "") or re.search(calls_pat, c.name() or "")) and not re.search(r"\{closure#\d+\}$", c.name() or "")]
            total += sum(1 for c in cs if re.search(wr, c.callee or "") or re.search(wr, c.name() or ""))
            for c in cs:
                found, propagated = awaited_error_leaves_function(b, c)
                R.check(propagated, "C09.R3", "%s:propagates@%s%d" % (label, "" if b is bodies[0] else b.path.split("::")[-2] + ":", sorted(x.bb for x in cs).index(c.bb)), "a transport error leaves the function as an error (`?` or by hand)", "a transport error in %s is discarded instead of propagated: the failed write is not treated as a connection failure, nothing reaches the watcher and pending calls only end by their timeout" % label, where(c))
        R.floor("C09.R3." + label, total, 1 if label == "stop_subscription" else 5, "awaited transport operations in %s" % label)
    stb = F.one(SEND_TASK)
    for c in stb.calls:
        if re.search(r"handle_frontend_messages$", c.name() or "") or re.search(r"TransportSenderT::send_ping$", c.callee or ""):
            vl, rblk = awaited_value_local(stb, c)
            ok = False
            if vl is not None:
                for sb, arms, other in flow.switch_on(stb, vl):
                    et = arms.get("1", other if "0" in arms else None)
                    if et is not None:
                        for bi in stb.reach_from(et) | {et}:
                            for s in stb.blocks[bi]["st"]:
                                if s["s"] == "assign" and s["rv"]["k"] == "agg" and s["rv"].get("variant") == "Transport" and stb.dominates(et, bi):
                                    ok = True
            R.check(ok, "C09.R3", "send_task:%s-error-breaks" % (c.name() or c.callee).split("::")[-1], "a failed %s ends the loop with Error::Transport" % (c.name() or c.callee).split("::")[-1], "send_task ignores the error of %s" % (c.name() or c.callee).split("::")[-1], where(c))


def r4_frontend_mapping(ctx):
    F, R = ctx.F, ctx.R
    for pat, label in ((r"impl std::convert::From<tokio::sync::mpsc::error::SendError<jsonrpsee_core::client::FrontToBack>> for jsonrpsee_core::client::(error::)?Error>::from$", "SendError"),
                       (r"impl std::convert::From<tokio::sync::oneshot::error::RecvError> for jsonrpsee_core::client::(error::)?Error>::from$", "RecvError")):
        b = F.one(pat)
        ok = any(st["s"] == "assign" and st["rv"]["k"] == "agg" and st["rv"].get("variant") == "ServiceDisconnect" for blk in b.blocks for st in blk["st"])
        R.check(ok, "C09.R4", "from-%s" % label, "%s maps to ServiceDisconnect" % label, "%s no longer maps to Error::ServiceDisconnect" % label, "%s:%d" % (b.file, b.lo))
    rf = F.one(r"^jsonrpsee_core::client::async_client::Client::<L>::run_future_until_timeout::\{closure#0\}$")
    R.fn(rf)
    od = rf.calls_to(r"Client::<L>::on_disconnect$")
    R.check(bool(od), "C09.R4", "timeout-wrapper:maps-disconnect", "run_future_until_timeout maps ServiceDisconnect through on_disconnect()", "run_future_until_timeout no longer maps ServiceDisconnect through on_disconnect(): callers get a bare placeholder instead of the cause", "%s:%d" % (rf.file, rf.lo))
    dl = rf.calls_to(r"futures_timer::Delay::new$|tokio::time::(sleep|timeout)$")
    R.check(bool(dl), "C09.R4", "timeout-wrapper:has-timeout", "the wrapper races the future against the request timeout", "run_future_until_timeout has no timeout any more", "%s:%d" % (rf.file, rf.lo))
    n = 0
    for b in F.real_bodies():
        if b.crate != CORE or is_test_body(b) or "async_client::Client<L> as" not in b.path:
            continue
        for c in b.calls:
            if re.search(r"RpcServiceT::(call|batch|notification)$", c.callee or ""):
                n += 1
                R.fn(b)
                holders = follow_value(b, c.dest["l"])
                wrapped = [w for w in b.calls_to(r"Client::<L>::run_future_until_timeout$") if any(arg_is_local(b, w.args[1], h) for h in holders)]
                R.check(bool(wrapped), "C09.R4", "%s:%s-is-timed" % (fkey(b), c.callee.split("::")[-1]), "the service future is awaited through run_future_until_timeout", "a service future in %s is awaited without run_future_until_timeout: no timeout and no disconnect mapping" % short(b.path), where(c))
    R.floor("C09.R4", n, 4, "service futures in impl ClientT/SubscriptionClientT for Client")
    sm = F.one(r"^<jsonrpsee_core::client::async_client::Client<L> as jsonrpsee_core::client::SubscriptionClientT>::subscribe_to_method::\{closure#0\}$")
    R.check(bool(sm.calls_to(r"helpers::call_with_timeout$")), "C09.R4", "subscribe_to_method:timed", "subscribe_to_method waits through call_with_timeout", "subscribe_to_method awaits the reply without a timeout", "%s:%d" % (sm.file, sm.lo))
    R.check(len(sm.calls_to(r"Client::<L>::on_disconnect$")) >= 2, "C09.R4", "subscribe_to_method:maps-disconnect", "both failure arms of subscribe_to_method go through on_disconnect()", "subscribe_to_method no longer maps a dead channel through on_disconnect()", "%s:%d" % (sm.file, sm.lo))


def r5_read_error(ctx):
    F, R = ctx.F, ctx.R
    b = F.one(r"^jsonrpsee_core::client::async_client::ErrorFromBack::read_error::\{closure#0\}$")
    R.fn(b)
    cl = b.calls_to(r"mpsc::.*Sender::<.*>::closed$")
    rd = b.calls_to(r"RwLock::<.*>::read$")
    R.check(len(cl) == 1 and len(rd) == 1, "C09.R5", "shape", "read_error = wait for close, then read the slot", "read_error changed: closed=%d read=%d" % (len(cl), len(rd)), "%s:%d" % (b.file, b.lo))
    if cl and rd:
        r = _ready(b, cl[0])
        R.check(r is not None and b.dominates(r, rd[0].bb), "C09.R5", "reads-after-close", "the slot is read only after the channel closed", "read_error reads the slot before the channel closed", where(rd[0]))
    built = {}
    for bi, blk in enumerate(b.blocks):
        for st in blk["st"]:
            if st["s"] == "assign" and st["rv"]["k"] == "agg" and re.search(r"client::(error::)?Error$", st["rv"].get("adt", "")):
                built[st["rv"]["variant"]] = bi
    R.check("RestartNeeded" in built, "C09.R5", "some->RestartNeeded", "a recorded cause is returned as RestartNeeded(cause)", "read_error no longer returns RestartNeeded(cause)", "%s:%d" % (b.file, b.lo))
    if "RestartNeeded" in built:
        # on the Some arm of the slot
        ok = False
        for sb, blk in enumerate(b.blocks):
            t = blk["term"]
            if t and t["t"] == "switch":
                arms = {v: tb for v, tb in t["arms"]}
                st_ = arms.get("1")
                if st_ is not None and b.dominates(st_, built["RestartNeeded"]) and ("Custom" not in built or not b.dominates(st_, built["Custom"])):
                    ok = True
        R.check(ok, "C09.R5", "table:some-arm", "RestartNeeded is chosen exactly on the Some arm", "RestartNeeded is not tied to the Some arm of the slot", "%s:%d" % (b.file, block_line(b, built["RestartNeeded"])))


def r6_no_relock(ctx):
    """the client's background tasks never block on their own lock: no second acquisition of the request manager (or any
    std lock) while a guard of it is alive"""
    from .common import double_lock_scan
    F, R = ctx.F, ctx.R
    n = double_lock_scan(F, R, "C09.R6", r"^<?jsonrpsee_core::client::|^<?jsonrpsee_http_client::|^<?jsonrpsee_client_transport::")
    R.ok("C09.R6", "no-relock", "%d lock acquisitions with a named/held guard inspected; none is followed by a second acquisition while the guard lives" % n)
    R.floor("C09.R6", n, 5, "lock acquisitions in the client crates")


def r7_manager_not_cleared_wholesale(ctx):
    """pending calls are failed by *closing the frontend channel after the cause was recorded* (R1): a caller whose oneshot
    is dropped earlier is woken with the internal ServiceDisconnect marker and then waits, outside its timeout, for a
    disconnect that has not been announced yet. So nothing replaces, takes or clears the RequestManager (or its tables)
    wholesale; entries leave it one by one through its own methods."""
    F, R = ctx.F, ctx.R
    n = 0
    bad = []
    for b in F.real_bodies():
        if not re.search(r"^<?jsonrpsee_core::client::", b.path) or is_test_body(b):
            continue
        n += 1
        for c in b.calls_to(r"^std::mem::(take|replace|swap)$|HashMap::<.*>::(clear|drain)$"):
            tys = " ".join(b.locals[op_place(a)["l"]]["ty"] for a in c.args if op_place(a) is not None) + " " + " ".join(c.ga or [])
            if re.search(r"(&mut |^| )jsonrpsee_core::client::async_client::manager::RequestManager\b", tys) or re.search(r"&mut (std::collections::|rustc_hash::\w*)?(Fx)?HashMap<", tys) or ((c.name() or "").endswith(("::clear", "::drain")) and "manager::" in tys):
                bad.append((b, c))
        # `*guard = RequestManager::default()` style overwrite
        for bi, blk in enumerate(b.blocks):
            if blk.get("cleanup"):
                continue
            for st in blk["st"]:
                if st["s"] == "assign" and st["pl"].get("p") and st["pl"]["p"][-1] == "*" and "RequestManager" in b.locals[st["pl"]["l"]]["ty"] and not re.search(r"manager::RequestManager::", b.path):
                    bad.append((b, None))
    for b, c in bad:
        R.bad("C09.R7", "%s:manager-cleared" % fkey(b), "%s empties the request manager wholesale (%s): every pending caller is woken with the internal ServiceDisconnect marker before the disconnect cause is published and then waits for it outside the request timeout" % (short(b.path), short(c.name()) if c else "overwrite"), where(c) if c else "%s:%d" % (b.file, b.lo))
    if not bad:
        R.ok("C09.R7", "manager-not-cleared", "no wholesale take/replace/clear of the request manager in %d client bodies" % n)
    R.floor("C09.R7", n, 100, "client bodies scanned")


PANICKY_TEXT = (r"str::<impl str>::(split_at|split_at_mut)$|String::(truncate|split_off|remove|insert|insert_str|drain|replace_range)$|"
                r"str::traits::<impl std::ops::Index(Mut)?<.*> for str>::index(_mut)?$|std::ops::Index(Mut)?::index(_mut)?$|"
                r"Option::<.*>::(unwrap|expect)$|Result::<.*>::(unwrap|expect)$|slice::<impl \[T\]>::(split_at|split_at_mut|copy_from_slice)$")


def _panicky_text_scan(F, R, rule, path_pat):
    """byte-offset surgery on text the server sent (split_at / slicing / truncate at a fixed offset) panics when the
    offset falls inside a multi-byte character; in the client's read path a panic kills the read task without any report"""
    n = 0
    for b in F.real_bodies():
        if not re.search(path_pat, b.path) or is_test_body(b):
            continue
        n += 1
        for c in b.calls_to(PANICKY_TEXT):
            nm = c.name() or ""
            if c.exp:
                continue
            if re.search(r"::(unwrap|expect)$", nm):
                continue   # R2 deals with unwrap/expect on peer numbers
            tys = [b.locals[op_place(a)["l"]]["ty"] for a in c.args if op_place(a) is not None]
            if re.search(r"Index(Mut)?::index(_mut)?$", nm) and not any(re.match(r"^&(mut )?(str|std::string::String)$", t) for t in tys[:1]):
                continue
            R.bad(rule, "%s:%s" % (fkey(b), nm.split("::")[-1]), "%s cuts text received from the server at a byte offset (%s): when the offset falls inside a multi-byte UTF-8 character this panics, the read task dies without reporting a cause and every pending call waits for its timeout" % (short(b.path), short(nm)), where(c))
    return n


def r8_no_panicky_text_surgery(ctx):
    F, R = ctx.F, ctx.R
    n = _panicky_text_scan(F, R, "C09.R8", r"^jsonrpsee_core::client::async_client::(handle_backend_messages|unparse_error|helpers::process_|read_task)")
    R.ok("C09.R8", "no-text-surgery", "no byte-offset string surgery in the %d bodies of the client's read path" % n)
    R.floor("C09.R8", n, 8, "bodies of the client's read path")


def control_text_surgery(ctx):
    from .common import control
    control(ctx, "C09.R8", "str::split_at at a fixed offset", lambda r: _panicky_text_scan(ctx.F, r, "C09.R8", r"^verif_fixtures::"))


def control_relock(ctx):
    from .common import control, double_lock_scan

    def run(r):
        double_lock_scan(ctx.F, r, "C09.R6", r"^verif_fixtures::")
        for v in r.violations:
            if "lock_twice_sequentially" in v["key"]:
                ctx.R.bad("C09.R6.control", "control:sequential-twin-reported", "the rule reports the twin that drops its guard first: the rule is wrong")
    control(ctx, "C09.R6", "Mutex::lock while a guard of the same mutex is alive", run)


CONTROLS = [control_relock, control_text_surgery]



def rcancel_receive_is_cancel_safe(ctx):
    """the read task never drops a half-received message"""
    from .common import read_task_receive_is_cancel_safe
    read_task_receive_is_cancel_safe(ctx, "C09.CANCEL")




def r9_taken_callers_are_answered(ctx):
    """once the read task has taken a caller's reply channel out of the request manager nothing else can complete that
    call: on every path that follows, the channel is sent on (value or error) before the function returns. A path that just
    drops it leaves the caller with a closed channel, which the front end takes for `the client is shutting down` and then
    waits - outside the request timeout - for a disconnect reason that never comes on a healthy connection."""
    F, R = ctx.F, ctx.R
    n = 0
    for pat in (r"^jsonrpsee_core::client::async_client::helpers::process_single_response$", r"^jsonrpsee_core::client::async_client::helpers::process_batch_response$"):
        b = F.one(pat)
        R.fn(b)
        exits = {bi for bi, blk in enumerate(b.blocks) if blk["term"] and blk["term"]["t"] == "return"}
        sends = b.calls_to(r"oneshot::Sender::<.*>::send$")
        for l, loc in enumerate(b.locals):
            if l == 0 or l <= b.argc or not loc["ty"].startswith("tokio::sync::oneshot::Sender<") or not loc.get("user"):
                continue
            defs = [(bi, si) for bi, si, dpl, src in b.defs.get(l, []) if not dpl.get("p") and bi in b.reachable and not b.blocks[bi].get("cleanup")]
            if not defs:
                continue
            holders = follow_value(b, l)
            answered = {c.bb for c in sends if c.args and op_place(c.args[0]) is not None and op_place(c.args[0])["l"] in holders}
            # handing the channel on (into a struct / another call) also counts as not dropping it here
            for bi, blk in enumerate(b.blocks):
                t = blk["term"]
                if t and t["t"] == "call" and bi not in answered and any(op_place(a) is not None and not op_place(a).get("p") and op_place(a)["l"] in holders and "mv" in a for a in t["args"]):
                    nm = (op_const(t["f"]) or {}).get("fn", "")
                    if not re.search(r"^std::mem::drop$|drop_in_place", nm):
                        answered.add(bi)
            for bi, si in defs:
                n += 1
                ok = bi in answered or flow.all_paths_pass(b, bi, answered, exits)
                R.check(ok, "C09.R9", "%s:%s-answered" % (short(b.path).split("::")[-1], b.local_name(l) or "_%d" % l), "the reply channel taken out of the manager is answered on every path", "%s can return after taking the caller's reply channel `%s` out of the request manager without sending on it: the call (a subscribe whose answer is not a subscription id, ...) is left with a dropped channel and stays pending beyond the request timeout although the connection is healthy" % (short(b.path), b.local_name(l) or "_%d" % l), "%s:%d" % (b.file, block_line(b, bi)))
    R.floor("C09.R9", n, 2, "reply channels taken out of the manager in the response path")



def rbuilder_client_settings_survive(ctx):
    """`no future stays pending longer than the request timeout`: the configured request timeout (and every other client
    setting) survives the builders' self-rebuilding steps (set_rpc_middleware, ...) (= C05.R8)"""
    from . import c05
    c05.r8_client_builder_fields(ctx)


def rpure_refused_insert_changes_nothing(ctx):
    """`no background task panics for any bytes the server may send`: a refused insert into the request manager leaves its
    tables as they were - a half-applied insert (reverse lookup overwritten, entry not created) makes a later server
    message hit an `expect` on the tables' consistency in the read task (= C05.R6)"""
    from . import c05
    c05.r6_refused_insert_is_pure(ctx)



def r10_front_end_hand_over_reports_a_dead_back_end(ctx):
    """`every later operation completes with an error that carries the disconnect cause`: the front end learns that the
    background tasks are gone from the failure of handing its message over. In async_client::rpc_service every hand-over is
    the waiting `Sender::send` whose error leaves the function (`?`); a non-waiting try_send whose `Closed` outcome is not
    an error makes a notification on a dead client return Ok(())."""
    from .common import awaited_error_leaves_function
    F, R = ctx.F, ctx.R
    n = 0
    for b in F.real_bodies():
        if b.crate != CORE or is_test_body(b) or not re.search(r"^<?jsonrpsee_core::client::async_client::rpc_service::", b.path):
            continue
        for c in b.calls_to(r"mpsc::(bounded::)?Sender::<.*>::(try_send|try_reserve\w*|blocking_send)$"):
            R.fn(b)
            R.bad("C09.R10", "%s:nonwaiting-hand-over" % fkey(b), "%s hands a front-end message over with %s: its `closed` outcome has to be turned into the disconnect error by hand, which the waiting send does by construction" % (short(b.path), (c.name() or "").split("::")[-1]), where(c))
        for c in b.calls_to(r"mpsc::(bounded::)?Sender::<.*>::send$"):
            n += 1
            R.fn(b)
            found, ok = awaited_error_leaves_function(b, c)
            R.check(ok, "C09.R10", "%s:hand-over-error-propagates@%d" % (fkey(b), sorted(x.bb for x in b.calls_to(r"Sender::<.*>::send$")).index(c.bb)), "a failed hand-over to the background task is an error for the caller", "%s does not turn a failed hand-over to the background task into an error: an operation on a disconnected client reports success" % short(b.path), where(c))
    R.floor("C09.R10", n, 4, "hand-overs from the front end to the background task")


def rsel_shutdown_is_a_select_branch(ctx):
    """the background tasks notice the other task's end while they wait"""
    from .common import shutdown_is_a_select_branch
    shutdown_is_a_select_branch(ctx, "C09.SEL")



def rloop_client_tasks_keep_polling(ctx):
    """the client's background loops suspend only at vetted points"""
    from .common import client_loops_suspend_only_where_vetted
    client_loops_suspend_only_where_vetted(ctx, "C09.LOOP")


# explicit panic sites (expect / unwrap / unreachable! / panic! / assert!) in the code the two background tasks run, as
# counted on the pinned tree; each was read: they state invariants of the client's own tables that no server message can
# falsify (R6/C05.R6 guard the ones that could), a poisoned-mutex expect, and the `expect`s of infallible serialisation
_BG_SCOPE = r"^jsonrpsee_core::client::async_client::(read_task|send_task|handle_backend_messages|handle_frontend_messages|wait_for_shutdown|unparse_error|helpers::|manager::|utils::|ThreadSafeRequestManager::|ErrorFromBack::)|^<jsonrpsee_client_transport::ws::(Sender|Receiver)<T> as "
_BG_PANICS = {"expect/unwrap": 6, "unreachable!/panic!": 4, "assert!": 0, "slice[index]": 0}


def r12_each_client_has_its_own_disconnect_reason(ctx):
    """the cause a client reports is the cause of *its* connection: the shared slot the background tasks write the reason
    into is created when the client is built (`SharedDisconnectReason::default()` inside build_with_tokio / _wasm), not
    carried in the (cloneable) builder - else every client built from clones of one builder reports whichever connection
    failed last"""
    F, R = ctx.F, ctx.R
    tr = ctx.tracer(follow_callers=False, follow_fields=False)
    n = 0
    for c in F.all_calls(r"async_client::ErrorFromBack::new$"):
        b = c.body
        if b.crate != CORE or is_test_body(b) or len(c.args) < 2:
            continue
        n += 1
        R.fn(b)
        lv = tr.origins(b, c.args[1])
        fresh = [l for l in lv if l.kind == "call" and re.search(r"Default>?::default$|Arc::<.*>::new$|Arc::<.*>::default$", l.detail["callee"] or "")]
        foreign = [l for l in lv if l not in fresh]
        R.check(bool(fresh) and not foreign, "C09.R12", "%s:reason-slot-is-fresh" % fkey(b), "the disconnect-reason slot is created with the client", "%s takes the disconnect-reason slot from %s instead of creating it: clients built from clones of one builder share it, and each reports the cause of whichever connection failed last" % (short(b.path), [flow.leaf_str(l)[:60] for l in foreign] or "nowhere traceable"), where(c))
    R.floor("C09.R12", n, 1, "constructions of the client's error reader")


class _Site:
    """a bounds-checked index expression, presented like a call site"""
    def __init__(self, body, line):
        self.body = body
        self.line = line

    def loc(self):
        return "%s:%d" % (self.body.file, self.line)


def r11_background_tasks_gain_no_panic_sites(ctx):
    """`no background task panics, for any bytes the server may send`: the explicit panic sites of the code the read and
    send tasks execute are an inventory that was read site by site; a new `expect` / `unreachable!` there is a new way for
    a server message (a reply on an id the client reserved, a text frame that is not UTF-8) to kill a task - which is
    reported to nobody: pending calls wait for their timeout, on_disconnect never resolves"""
    F, R = ctx.F, ctx.R
    got = {k: [] for k in _BG_PANICS}
    for b in F.real_bodies():
        if is_test_body(b):
            continue
        root = F.root_fn(b)
        if not re.search(_BG_SCOPE, root.path):
            continue
        R.fn(b)
        for bi_, blk_ in enumerate(b.blocks):
            t_ = blk_["term"]
            if t_ and t_["t"] == "assert" and t_.get("kind") == "BoundsCheck" and not blk_.get("cleanup") and bi_ in b.reachable:
                got["slice[index]"].append(_Site(b, t_["sp"][0]))
        for c in b.calls:
            nm = c.name() or ""
            exp = c.exp or ""
            if re.search(r"(Option|Result)::<.*>::(unwrap|expect|unwrap_err|expect_err)$", nm):
                got["expect/unwrap"].append(c)
            elif re.search(r"^(core|std)::panicking::(panic_fmt|panic|panic_display|panic_explicit|unreachable_display)$|begin_panic", nm):
                if "tokio::select" in exp or "$crate::select" in exp:
                    continue  # select!'s own "all branches disabled" arms
                if "m:assert" in exp or "m:debug_assert" in exp:
                    got["assert!"].append(c)
                else:
                    got["unreachable!/panic!"].append(c)
    for kind, allowed in _BG_PANICS.items():
        sites = got[kind]
        R.check(len(sites) <= allowed, "C09.R11", "panic-sites:%s" % kind, "%d %s sites in the background tasks' code (inventory: %d)" % (len(sites), kind, allowed), "the code run by the client's background tasks has %d %s sites, the inventory that was read has %d: a new one is a new way for the read / send task to die without reporting anything (sites: %s)" % (len(sites), kind, allowed, sorted({"%s@%s" % (short(F.root_fn(c.body).path), where(c)) for c in sites})), where(sites[-1]) if sites else None)
    R.floor("C09.R11", sum(len(v) for v in got.values()), 8, "explicit panic sites inventoried")


RULES = [r12_each_client_has_its_own_disconnect_reason, r11_background_tasks_gain_no_panic_sites, r10_front_end_hand_over_reports_a_dead_back_end, rloop_client_tasks_keep_polling, rbuilder_client_settings_survive, rpure_refused_insert_changes_nothing, rsel_shutdown_is_a_select_branch, r9_taken_callers_are_answered, r1_cause_before_close, r2_no_unchecked_arith_on_peer_numbers, r3_errors_reach_watcher, r4_frontend_mapping, r5_read_error, r6_no_relock, r7_manager_not_cleared_wholesale, r8_no_panicky_text_surgery, rcancel_receive_is_cancel_safe]

LEVEL_TEXT = (
    "Structural necessary conditions of clean failure handling decided from the type-checked program: the happens-before "
    "chain cause-recorded -> frontend-channel-closed assembled from per-task dominance facts, a taint scan for "
    "overflow-capable arithmetic on server-supplied numbers over the whole receive path, must-pass-through of the report "
    "to the watcher on every exit, propagation of every awaited transport result, and the front end's mapping chain. Each "
    "failing clause yields a concrete schedule / message on which a caller gets a placeholder, a hang or a panic."
)
LEVEL_NOTE = "Trusted: rustc MIR; tokio mpsc closed()/close() semantics. Not decided: the schedules themselves, wall-clock promptness, other panics."
TECHNIQUE = "per-task dominance (must-precede) + taint scan over arithmetic sites + must-pass-through + error-propagation discipline"

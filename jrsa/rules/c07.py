"""C07 — requests above max_request_body_size are never processed, on any path (structural clauses)."""
import re

from .common import *  # noqa: F401,F403
from .common import classify_config_leaves, fkey, where, chain_str, arg_is_local, short, SERVER, CORE, block_line
from ..facts import op_place, op_const, AnchorLost, is_test_body
from .. import flow

PID = "C07"
LEVEL = "other"
EXPLANATION = (
    'Static structural analysis over pre-borrowck MIR of every body of the server/core crates. Decided, for every '
    'path of the current source: R1 every function that finishes a soketto *server* connection configures '
    'Builder::set_max_message_size on that builder before finish(), and the argument originates (identity-only: '
    'moves, borrows, casts, struct plumbing followed across functions and field writes) from a field named '
    'max_request_body_size of the server configuration; R2 the limit operand of http_body_util::Limited::new in '
    'read_body and the limit argument of every in-crate caller of read_body / call_with_service originates likewise; '
    'R3 ServerConfigBuilder::build copies every field from the same-named builder field and every setter named after '
    'a field writes that field; R4 every http_body frame read in read_body goes through the Limited wrapper built '
    'with the limit parameter and handle_rpc_call in call_with_service is dominated by the Ok arm of read_body; R5 '
    'the WS MessageTooLarge arm sends reject_too_big_request(<request limit>) and reaches no dispatch before the next '
    'receive. R6 every ordering comparison against a value originating from max_request_body_size anywhere in '
    'server/core keeps the limit inclusive (size > limit refuses, size <= limit admits); CFG the configured value '
    "reaches ServerConfig verbatim and no builder step rebuilds the config from defaults. R8 the buffer handed to "
    "soketto Receiver::receive is a new empty Vec at every call (soketto appends fragments before it refuses an "
    "oversize message); R2 also requires every other Limited::new in server/core to take its cap from the request "
    "limit (no second fixed cap). NOT decided: soketto's / "
    "hyper's own enforcement and boundary arithmetic inside them; behaviour for concrete sizes."
)
RULE_TEXT = (
    "instances = soketto server-builder sites, Limited::new sites, callers of read_body/call_with_service, ServerConfig "
    "fields, setter methods, frame-read sites, MessageTooLarge arms; an instance is non-trivial when its verdict needed "
    "an origin trace or a dominance query"
)
TRUSTED = ["rustc MIR construction + trait resolution (nightly)", "soketto max_message_size semantics", "http_body_util::Limited semantics"]
ASSUMPTIONS = ["third-party crates enforce the limits they are configured with", "cfg(wasm32) code not analysed"]

WANT = "max_request_body_size"


def http_reader(F):
    """the body of transport::http that reads the request body (call_with_service itself or a helper it awaits)"""
    c = [b for b in F.find(r"^jsonrpsee_server::transport::http::\w+::\{closure#0\}$") if b.calls_to(r"^jsonrpsee_core::http_helpers::read_body$")]
    if len(c) != 1:
        raise AnchorLost("the function of transport::http that calls read_body (found %d)" % len(c))
    return c[0]


def _report_leaves(R, rule, key, what, loc, leaves, want=WANT, require_field=True, scope=("jsonrpsee_server",)):
    good, bad, skipped = classify_config_leaves(leaves, want, scope)
    if bad:
        for lf, why in bad:
            R.bad(rule, key, "%s: %s" % (what, why), loc, {"origin": chain_str(lf), "leaf": flow.leaf_str(lf)})
        return False
    if require_field and not good:
        R.bad(rule, key, "%s: no origin in a configuration field `%s` was found (leaves: %s)" % (what, want, [flow.leaf_str(l) for l in leaves][:6]), loc)
        return False
    R.ok(rule, key, "%s originates from `%s` only (%d field origins, %d neutral leaves)" % (what, want, len(good), len(skipped)), loc,
         {"origins": sorted({flow.leaf_str(l) for l in good})[:6]})
    return True


def r1_ws_frame_limit(ctx):
    F, R = ctx.F, ctx.R
    tr = ctx.tracer()
    sites = [c for c in F.all_calls(r"^soketto::handshake::http::Server::into_builder$|^soketto::handshake::server::Server::<.*>::into_builder$") if c.body.crate == SERVER]
    R.floor("C07.R1", len(sites), 2, "soketto server builder sites")
    for c in sites:
        b = c.body
        R.fn(b)
        key = fkey(b)
        bl = c.dest["l"]
        holders = flow_forward(b, bl)
        setters = [s for s in b.calls_to(r"^soketto::connection::Builder::<.*>::set_max_message_size$") if any(arg_is_local(b, s.args[0], h) for h in holders)]
        finishes = [s for s in b.calls_to(r"^soketto::connection::Builder::<.*>::finish$") if any(arg_is_local(b, s.args[0], h) for h in holders)]
        if not finishes:
            R.anchor_lost("C07.R1", "Builder::finish on the builder created in %s" % b.path)
            continue
        if not setters:
            R.bad("C07.R1", key + ":no-limit", "WebSocket server connection is finished without set_max_message_size: incoming frames are unbounded", where(c))
            continue
        for fin in finishes:
            dom = [s for s in setters if b.dominates(s.bb, fin.bb) and s.bb != fin.bb]
            R.check(bool(dom), "C07.R1", key + ":before-finish", "set_max_message_size dominates Builder::finish", "a path reaches Builder::finish without set_max_message_size", where(fin))
        for s in setters:
            leaves = tr.origins(b, s.args[1])
            _report_leaves(R, "C07.R1", key + ":limit-origin", "WS max message size", where(s), leaves)


def flow_forward(body, local):
    from .common import follow_value

    return follow_value(body, local)


def r2_http_limit(ctx):
    F, R = ctx.F, ctx.R
    tr = ctx.tracer()
    rb = F.one(r"^jsonrpsee_core::http_helpers::read_body::\{closure#0\}$")
    R.fn(rb)
    lims = rb.calls_to(r"^http_body_util::Limited::<.*>::new$")
    R.floor("C07.R2", len(lims), 1, "Limited::new sites in read_body")
    for c in lims:
        leaves = tr.origins(rb, c.args[1])
        # inside core the limit must be read_body's own parameter, identity-only
        params = [l for l in leaves if l.kind == "param" and l.detail["fn"] == "jsonrpsee_core::http_helpers::read_body"]
        R.check(bool(params), "C07.R2", "read_body:limit-is-param", "Limited::new's limit is read_body's max_body_size parameter", "Limited::new's limit does not originate from read_body's limit parameter", where(c))
        _report_leaves(R, "C07.R2", "read_body:limit-origin", "HTTP body limit (Limited::new)", where(c), leaves)
    # no other body-size cap exists on the request path: every Limited::new in the server/core crates takes its limit from
    # the request limit (a second, fixed cap makes the effective limit min(configured, cap) for one way of assembling the server)
    for c in F.all_calls(r"^http_body_util::Limited::<.*>::new$"):
        if c.body.path == rb.path or c.body.crate not in (SERVER, CORE) or is_test_body(c.body):
            continue
        R.fn(c.body)
        _report_leaves(R, "C07.R2", "%s:extra-body-cap" % fkey(c.body), "additional HTTP body cap (Limited::new) outside read_body", where(c), tr.origins(c.body, c.args[1]))
    # every server-crate caller of read_body / call_with_service passes the request limit
    n = 0
    for pat, argi, label in (
        (r"^jsonrpsee_core::http_helpers::read_body$", 2, "read_body"),
        (r"^jsonrpsee_server::transport::http::call_with_service$", 2, "call_with_service"),
    ):
        for c in F.all_calls(pat):
            if c.body.crate != SERVER:
                continue
            n += 1
            R.fn(c.body)
            leaves = tr.origins(c.body, c.args[argi])
            _report_leaves(R, "C07.R2", "%s:%s-arg" % (fkey(c.body), label), "limit passed to %s" % label, where(c), leaves)
    R.floor("C07.R2.callers", n, 3, "server-crate callers of read_body/call_with_service")
    # 413 mapping
    cws = http_reader(F)
    tl = cws.calls_to(r"^jsonrpsee_server::transport::http::response::too_large$")
    R.check(bool(tl), "C07.R2", "call_with_service:too_large", "TooLarge is answered through response::too_large", "call_with_service never builds the 413 response", "%s:%d" % (cws.file, cws.lo))
    tlb = F.one(r"^jsonrpsee_server::transport::http::response::too_large$")
    codes = []
    for c in tlb.calls:
        for a in c.args:
            k = op_const(a)
            if k and k.get("name", "").endswith("PAYLOAD_TOO_LARGE"):
                codes.append(k["name"])
    R.check(bool(codes), "C07.R2", "too_large:413", "response::too_large uses StatusCode::PAYLOAD_TOO_LARGE", "response::too_large does not use StatusCode::PAYLOAD_TOO_LARGE", "%s:%d" % (tlb.file, tlb.lo))


def r3_plumbing(ctx):
    F, R = ctx.F, ctx.R
    tr = ctx.tracer(follow_fields=False, follow_callers=False)
    build = F.one(r"^jsonrpsee_server::server::ServerConfigBuilder::build$")
    R.fn(build)
    n = 0
    for bi, blk in enumerate(build.blocks):
        for st in blk["st"]:
            if st["s"] == "assign" and st["rv"]["k"] == "agg" and st["rv"].get("adt") == "jsonrpsee_server::server::ServerConfig":
                rv = st["rv"]
                for fname, op in zip(rv["fields"], rv["ops"]):
                    n += 1
                    leaves = tr.origins(build, op)
                    names = {terminal_field(l)[1] for l in leaves if l.kind == "field"}
                    ok = names == {fname}
                    R.check(ok, "C07.R3", "build:%s" % fname, "ServerConfig.%s <- builder.%s" % (fname, fname), "ServerConfigBuilder::build initialises ServerConfig.%s from %s" % (fname, sorted(names) or [flow.leaf_str(l) for l in leaves]), "%s:%d" % (build.file, st["sp"][0]))
    R.floor("C07.R3", n, 10, "ServerConfig fields initialised in build()")
    # setters: a method named after a ServerConfig field (or set_<field>) writes that field only
    adt = F.adt("jsonrpsee_server::server::ServerConfig")
    if adt is None:
        raise AnchorLost("ADT jsonrpsee_server::server::ServerConfig")
    fields = {f["n"] for f in adt["variants"][0]["fields"]}
    ns = 0
    for b in F.real_bodies():
        if b.crate != SERVER or b.kind != "AssocFn" or is_test_body(b):
            continue
        last = b.path.split("::")[-1]
        target = last if last in fields else (last[4:] if last.startswith("set_") and last[4:] in fields else None)
        if target is None:
            continue
        if not (b.impl_self or "").startswith(("jsonrpsee_server::server::ServerConfigBuilder", "jsonrpsee_server::server::Builder")):
            continue
        writes = []
        for bi, blk in enumerate(b.blocks):
            if blk.get("cleanup"):
                continue
            for st in blk["st"]:
                if st["s"] == "assign":
                    p = st["pl"].get("p", [])
                    if p and isinstance(p[-1], dict) and "f" in p[-1] and p[-1].get("o", "").startswith("jsonrpsee_server::server::ServerConfig"):
                        writes.append((p[-1]["n"], st))
        if not writes:
            # struct-update spelling `Self { field: value, ..self }`: the fields "written" are those that are not copied
            # from the same field of self
            for bi, blk in enumerate(b.blocks):
                if blk.get("cleanup"):
                    continue
                for st in blk["st"]:
                    if st["s"] == "assign" and st["rv"]["k"] == "agg" and st["rv"].get("adt", "").startswith("jsonrpsee_server::server::ServerConfig"):
                        for fname, op in zip(st["rv"]["fields"], st["rv"]["ops"]):
                            lv = tr.origins(b, op)
                            if not (lv and all(l.kind == "field" and terminal_field(l)[1] == fname for l in lv)):
                                writes.append((fname, {"rv": {"k": "use", "op": op}, "sp": st["sp"]}))
        if not writes:
            continue
        ns += 1
        R.fn(b)
        wrong = [w for w, _ in writes if w != target]
        R.check(not wrong, "C07.R3", "setter:%s" % fkey(b), "setter %s writes field %s" % (short(b.path), target), "setter %s writes field(s) %s instead of %s" % (short(b.path), wrong, target), "%s:%d" % (b.file, b.lo))
        # value written comes from the parameter
        for w, st in writes:
            if w == target and st["rv"]["k"] == "use":
                leaves = tr.origins(b, st["rv"]["op"])
                okp = all(l.kind in ("param", "const") for l in leaves) and any(l.kind == "param" for l in leaves)
                if w in (WANT, "max_response_body_size"):
                    R.check(okp, "C07.R3", "setter-value:%s" % fkey(b), "setter %s stores its parameter unchanged" % short(b.path), "setter %s stores something else than its parameter: %s" % (short(b.path), [flow.leaf_str(l) for l in leaves]), "%s:%d" % (b.file, st["sp"][0]))
    R.floor("C07.R3.setters", ns, 9, "config setters")


def r4_limit_before_read(ctx):
    F, R = ctx.F, ctx.R
    rb = F.one(r"^jsonrpsee_core::http_helpers::read_body::\{closure#0\}$")
    lims = rb.calls_to(r"^http_body_util::Limited::<.*>::new$")
    reads = rb.calls_to(r"^http_body_util::BodyExt::(frame|collect|into_data_stream)$|^http_body::Body::poll_frame$|^hyper::body::Body::poll_frame$")
    R.floor("C07.R4", len(reads), 1, "body read sites in read_body")
    lim_locals = set()
    for c in lims:
        lim_locals |= flow_forward(rb, c.dest["l"])
    for c in reads:
        ok = any(arg_is_local(rb, c.args[0], l) for l in lim_locals)
        R.check(ok, "C07.R4", "read_body:frame-through-limited", "body frames are read through the Limited wrapper", "a body read in read_body bypasses the Limited wrapper (a body without/with a wrong Content-Length is then unbounded)", where(c))
    # Limited wraps the body parameter
    tr = ctx.tracer(follow_callers=False, follow_fields=False)
    for c in lims:
        leaves = tr.origins(rb, c.args[0])
        ok = any(l.kind == "param" and l.detail["idx"] == 2 for l in leaves)
        R.check(ok, "C07.R4", "read_body:limited-wraps-body", "Limited::new wraps read_body's body parameter", "Limited::new does not wrap the request body", where(c))
    # nobody else consumes the body: every call taking (a copy of) the body param is pin plumbing or Limited::new
    # call_with_service: dispatch dominated by Ok(read_body)
    cws = http_reader(F)
    R.fn(cws)
    rbc = cws.calls_to(r"^jsonrpsee_core::http_helpers::read_body$")
    hrc = cws.calls_to(r"^jsonrpsee_server::server::handle_rpc_call$")
    if not rbc or not hrc:
        raise AnchorLost("read_body / handle_rpc_call calls in call_with_service")
    from .common import awaited_value_local

    for rc in rbc:
        vl, rblk = awaited_value_local(cws, rc)
        if vl is None:
            R.anchor_lost("C07.R4", "awaited result of read_body in call_with_service")
            continue
        sws = flow.switch_on(cws, vl)
        ok_targets = set()
        for sb, arms, other in sws:
            if "0" in arms:
                ok_targets.add(arms["0"])
            else:
                ok_targets.add(other)
        for h in hrc:
            ok = any(cws.dominates(t, h.bb) for t in ok_targets)
            R.check(ok, "C07.R4", "call_with_service:dispatch-after-ok-read", "handle_rpc_call is dominated by the Ok arm of read_body", "handle_rpc_call is reachable without a successful bounded read_body", where(h))


def r5_ws_oversize_arm(ctx):
    F, R = ctx.F, ctx.R
    tr = ctx.tracer()
    bt = F.one(r"^jsonrpsee_server::transport::ws::background_task::\{closure#0\}$")
    R.fn(bt)
    rej = bt.calls_to(r"^jsonrpsee_types::error::reject_too_big_request$")
    R.floor("C07.R5", len(rej), 1, "reject_too_big_request sites in ws::background_task")
    for c in rej:
        leaves = tr.origins(bt, c.args[0])
        _report_leaves(R, "C07.R5", "background_task:reject-limit", "limit reported in the -32007 rejection", where(c), leaves)
        # it is sent: result flows into MethodSink::send_error
        se = [s for s in bt.calls_to(r"^jsonrpsee_core::server::MethodSink::send_error$|^jsonrpsee_core::server::helpers::MethodSink::send_error$") if len(s.args) > 2 and arg_is_local(bt, s.args[2], c.dest["l"])]
        R.check(bool(se), "C07.R5", "background_task:reject-sent", "the rejection is sent with MethodSink::send_error", "reject_too_big_request's result is not sent to the client", where(c))
        for s in se:
            idl = tr.origins(bt, s.args[1])
            okid = any(l.kind == "agg" and l.detail.get("variant") == "Null" for l in idl)
            R.check(okid, "C07.R5", "background_task:reject-id-null", "the rejection carries Id::Null", "the oversize rejection does not carry Id::Null", where(s))
            # from the send, no spawn / dispatch is reachable before the next try_recv
            recv = bt.calls_to(r"^jsonrpsee_server::transport::ws::try_recv$")
            spawn = bt.calls_to(r"^tokio::spawn$|^tokio::task::spawn$|^jsonrpsee_server::server::handle_rpc_call$")
            # spawn sites inside the loop are those reachable from try_recv
            recv_bbs = {r.bb for r in recv}
            if not recv_bbs:
                R.anchor_lost("C07.R5", "try_recv call in ws::background_task")
                continue
            reach = bt.reach_from(s.bb, avoid=recv_bbs)
            bad = [sp for sp in spawn if sp.bb in reach]
            R.check(not bad, "C07.R5", "background_task:no-dispatch-on-oversize", "no dispatch is reachable from the oversize arm before the next receive", "the oversize arm can reach a dispatch/spawn (%s) without receiving a new message" % [where(x) for x in bad], where(s))
            # the loop continues: next receive is reachable
            cont = any(rb_ in reach or rb_ in bt.reach_from(s.bb) for rb_ in recv_bbs)
            R.check(cont, "C07.R5", "background_task:continues", "after the rejection the receive loop continues", "after the rejection the connection loop cannot receive again", where(s))

    # *every* oversized message is answered: from the entry of the MessageTooLarge arm, each path back to the receive (or
    # out of the loop) passes through the send - not only the first such message of a connection, not only when a log
    # level is enabled
    import json as _json
    recv_bbs = {r.bb for r in bt.calls_to(r"^jsonrpsee_server::transport::ws::try_recv$")}
    sends = {s.bb for c in rej for s in bt.calls_to(r"MethodSink::send_error$") if len(s.args) > 2 and arg_is_local(bt, s.args[2], c.dest["l"])}
    uses = {bi for bi, blk in enumerate(bt.blocks) if bi in bt.reachable and not blk.get("cleanup") and '"d": "MessageTooLarge"' in _json.dumps(blk)}
    if not uses:
        uses = set(sends)  # the arm binds none of the variant's fields: fall back to the arm around the send
    entries = set()
    for bi, blk in enumerate(bt.blocks):
        t = blk["term"]
        if bi in bt.reachable and t and t["t"] == "switch":
            for tb in {x for _, x in t["arms"]} | {t["otherwise"]}:
                if uses and all(bt.dominates(tb, u) for u in uses) and not any(bt.dominates(tb, r_) for r_ in recv_bbs):
                    entries.add(tb)
    # the innermost arm target that still covers every use of the variant's fields: the one all the others dominate
    tops = [e for e in entries if all(bt.dominates(o, e) for o in entries)]
    if sends and recv_bbs:
        R.check(bool(tops), "C07.R5", "background_task:oversize-arm", "the MessageTooLarge arm of the receive loop is identified", "ws::background_task has no arm that handles soketto's MessageTooLarge", "%s:%d" % (bt.file, bt.lo))
        for e in tops:
            escape = (bt.reach_from(e, avoid=sends) | {e}) - sends
            esc_ = [x for x in escape if x in recv_bbs or x in bt.exits]
            R.check(e in sends or not esc_, "C07.R5", "background_task:every-oversize-answered", "every path through the MessageTooLarge arm sends the -32007 rejection", "the MessageTooLarge arm of ws::background_task can go back to receiving (or leave) without sending the -32007 rejection: some oversized messages are dropped unanswered", "%s:%d" % (bt.file, block_line(bt, e)))

    # the rejection itself is not subject to the *response* limit: MethodSink::send_error serialises the error object
    # directly; if it went through the bounded response builder a small max_response_body_size would turn the -32007
    # into -32008, i.e. the answer to an oversized request would depend on the other limit
    se_bodies = F.find(r"^jsonrpsee_core::server::helpers::MethodSink::send_error(::\{closure#0\})?$")
    if not se_bodies:
        raise AnchorLost("MethodSink::send_error")
    reads = []
    for x in se_bodies:
        R.fn(x)
        reads += [c for c in x.calls_to(r"MethodResponse::(response|subscription_response|error)$|MethodSink::max_response_size$")]
        for bi, blk in enumerate(x.blocks):
            if blk.get("cleanup"):
                continue
            for st in blk["st"]:
                if st["s"] == "assign" and "max_response_size" in str(st["rv"]):
                    reads.append(None)
    R.check(not reads, "C07.R5", "send_error:independent-of-response-limit", "the oversize rejection is serialised without consulting the response limit", "MethodSink::send_error consults the response limit (%s): with a small max_response_body_size the `request too big` (-32007) rejection is replaced by `response too big` (-32008), so the answer to an oversized request depends on the response limit" % sorted({short(c.name()) if c else "field max_response_size" for c in reads}), "%s:%d" % (se_bodies[0].file, se_bodies[0].lo))


def r6_size_gates(ctx):
    """wherever the request limit is compared with a size, equality is on the admit side"""
    from .common import limit_gates
    limit_gates(ctx, "C07.R6", WANT, (SERVER, "jsonrpsee_core"), 1, "request size")


def r7_server_builder_fields(ctx):
    """server builders that rebuild themselves (set_rpc_middleware, set_http_middleware, to_service_builder, ...) copy
    every setting from the same field"""
    from .common import builder_field_crossing
    builder_field_crossing(ctx, "C07.R7", r"^jsonrpsee_server::", 3)


SIBLINGS = (("server", r"TowerServiceNoHttp<.*> as tower::Service<.*>>::call$"), ("ws::connect", r"^jsonrpsee_server::transport::ws::connect$"), ("http::call_with_service_builder", r"^jsonrpsee_server::transport::http::call_with_service_builder$"))


def rsib_entry_points_agree(ctx):
    """the high-level server and the low-level entry points feed the shared machinery from the same settings"""
    from .common import sibling_config_agreement
    sibling_config_agreement(ctx, "C07.SIB", SIBLINGS, 6)


def rcfg_config_verbatim(ctx):
    """the configured `max_request_body_size` reaches the ServerConfig unchanged (setter stores its argument, build()/Clone copy it)"""
    from .common import config_field_integrity
    config_field_integrity(ctx, "C07.CFG", "max_request_body_size")



def rstatus_http_status_table(ctx):
    """the HTTP refusals relevant here carry their own status codes"""
    from .common import http_status_table
    http_status_table(ctx, "C07.STATUS", ('too_large', 'internal_error', 'malformed'))



def rin_inbound_limits_from_request_limit(ctx):
    """what the WebSocket side may receive is bounded by max_request_body_size only"""
    from .common import soketto_inbound_limits
    soketto_inbound_limits(ctx, "C07.INBOUND")


def r8_ws_receive_buffer_fresh(ctx):
    """soketto appends every fragment to the caller's buffer *before* it knows that the message is over the limit, so
    the buffer handed to Receiver::receive must be empty at every call: otherwise the fragments of a refused message
    become the prefix of the next one (which is then parsed and dispatched, or fails to parse)."""
    F, R = ctx.F, ctx.R
    tr = ctx.tracer()
    sites = [c for c in F.all_calls(r"^soketto::Receiver::<.*>::receive(_data)?$|^soketto::connection::Receiver::<.*>::receive(_data)?$") if c.body.crate == SERVER and not is_test_body(c.body)]
    R.floor("C07.R8", len(sites), 1, "soketto Receiver::receive sites in the server crate")
    FRESH = re.compile(r"^(alloc|std)::vec::Vec::<.*>::(new|with_capacity)$|^<(alloc|std)::vec::Vec<.*> as (std|core)::default::Default>::default$")
    for c in sites:
        b = c.body
        R.fn(b)
        leaves = tr.origins(b, c.args[1])
        stale = [l for l in leaves if not (l.kind == "call" and l.where == b.path and FRESH.search(l.detail.get("callee") or ""))]
        if stale:
            # accepted alternative: the buffer is emptied on every path to the receive
            pl = op_place(c.args[1])
            holders = flow_forward(b, pl["l"]) if pl else set()
            clears = [k for k in b.calls_to(r"^(alloc|std)::vec::Vec::<.*>::clear$") if b.dominates(k.bb, c.bb) and k.bb != c.bb]
            if clears:
                stale = []
        R.check(not stale, "C07.R8", fkey(b) + ":fresh-buffer",
                "the buffer handed to soketto Receiver::receive is a new empty Vec at every call",
                "the buffer handed to soketto Receiver::receive is carried over from an earlier iteration (%s): soketto appends the fragments of a message before it finds it over max_request_body_size, so the bytes of a refused message are glued in front of the next message, which is then dispatched or rejected with the wrong content" % [flow.leaf_str(l) for l in stale][:4],
                where(c), {"origins": [flow.leaf_str(l) for l in leaves][:6]})


def r9_receive_error_reaches_the_loop(ctx):
    """the oversize refusal is decided in background_task's MessageTooLarge arm, so try_recv must hand every receive error
    to it: the arm that binds a stream error `Some(Err(e))` returns `Receive::Err(e, ..)` on every path - it neither closes
    the connection itself nor goes round its loop again (an oversized message would then be answered by a closed
    connection, depending on the ping configuration, instead of -32007)."""
    F, R = ctx.F, ctx.R
    b = F.one(r"^jsonrpsee_server::transport::ws::try_recv::\{closure#0\}$")
    R.fn(b)
    binds = []
    for bi, blk in enumerate(b.blocks):
        if blk.get("cleanup") or bi not in b.reachable:
            continue
        for st in blk["st"]:
            if st["s"] == "assign" and st["rv"]["k"] == "use" and not st["pl"].get("p"):
                q = op_place(st["rv"]["op"])
                if q is None:
                    continue
                ds = [e for e in q.get("p", []) if isinstance(e, dict) and "d" in e]
                if ds and ds[-1]["d"] == "Err" and "soketto::connection::Error" in b.locals[st["pl"]["l"]]["ty"]:
                    binds.append(bi)
    R.floor("C07.R9", len(binds), 1, "bindings of a receive error in try_recv")
    errs = {bi for bi, blk in enumerate(b.blocks) for st in blk["st"] if st["s"] == "assign" and st["rv"]["k"] == "agg" and st["rv"].get("variant") == "Err" and (st["rv"].get("adt") or "").endswith("ws::Receive")}
    waits = {c.bb for c in b.calls_to(r"future::select$|IntoFuture>?::into_future$")}
    exits = {bi for bi, blk in enumerate(b.blocks) if blk["term"] and blk["term"]["t"] == "return"}
    for bi in binds:
        ok = bi in errs or flow.all_paths_pass(b, bi, errs, waits | exits)
        R.check(ok, "C07.R9", "try_recv:error-always-returned", "a receive error always leaves try_recv as Receive::Err", "try_recv can answer a receive error itself (a path from the error arm leaves without building Receive::Err - e.g. reports the connection as closed): an oversized message, which the caller answers with -32007 and survives, then closes the connection instead, depending on settings that have nothing to do with the size limit", "%s:%d" % (b.file, block_line(b, bi)))


def rhyper_vetted_transport_options(ctx):
    """which requests hyper itself accepts is not narrowed by options derived from the request limit: the hyper connection
    builder is configured with the vetted closed list of options only (an HTTP/2 max_frame_size computed from a small
    max_request_body_size makes every HTTP/2 connection fail instead of answering 200 / 413) (= C11.R6)"""
    from . import c11
    c11.r6_vetted_transport_options(ctx)


def r10_body_stream_errors_are_errors(ctx):
    """for a body without a usable Content-Length the Limited wrapper reports `too big` as an *error item* of the frame
    stream: in read_body an Err frame leaves the function as an error on every path (it is never taken for the end of
    the body - the frames read so far would then be parsed and dispatched as if they were the whole message)."""
    F, R = ctx.F, ctx.R
    rb = F.one(r"^jsonrpsee_core::http_helpers::read_body::\{closure#0\}$")
    R.fn(rb)
    from .common import err_return_blocks
    errs = err_return_blocks(rb)
    exits = {bi for bi, blk in enumerate(rb.blocks) if blk["term"] and blk["term"]["t"] == "return"}
    arms = []
    for l, loc in enumerate(rb.locals):
        ty = loc["ty"]
        if re.match(r"^std::result::Result<(http_body::|hyper::body::)?Frame<", ty) or re.match(r"^std::option::Option<std::result::Result<(http_body::|hyper::body::)?Frame<", ty):
            nested = ty.startswith("std::option::Option<")
            for bi, blk in enumerate(rb.blocks):
                t = blk["term"]
                if not t or t["t"] != "switch" or bi not in rb.reachable:
                    continue
                p = op_place(t["discr"])
                if p is None:
                    continue
                for bj, sj, dpl, src in rb.defs.get(p["l"], []):
                    if src[0] == "rv" and src[1]["k"] == "discr":
                        q = src[1]["pl"]
                        if q["l"] != l:
                            continue
                        ds = [e for e in q.get("p", []) if isinstance(e, dict) and "d" in e]
                        if (nested and ds and ds[-1]["d"] == "Some") or (not nested and not ds):
                            am = {v: tb for v, tb in t["arms"]}
                            et = am.get("1", t["otherwise"] if "0" in am else None)
                            if et is not None:
                                arms.append(et)
    from .common import result_outcome_arms
    _oks, _errs = result_outcome_arms(rb, lambda ty: bool(re.match(r"^std::result::Result<(http_body::|hyper::body::)?Frame<", ty)))
    arms += sorted(_errs)
    R.floor("C07.R10", len(arms), 1, "tests of a body frame for Err in read_body")
    for et in sorted(set(arms)):
        ok = et in errs or flow.all_paths_pass(rb, et, errs, exits)
        R.check(ok, "C07.R10", "read_body:frame-error-is-an-error", "an error frame ends read_body with an error", "read_body can go on (or return Ok) after the body stream reported an error: the size limit of a body without Content-Length is signalled exactly that way, so an oversized chunked request is cut at the limit and its first part is parsed and dispatched", "%s:%d" % (rb.file, block_line(rb, et)))


def rloop_the_receive_loop_waits_for_messages_only(ctx):
    """the answer to an oversized message does not depend on other settings: the WS receive loop suspends at its vetted
    points only (a slot of the outgoing queue reserved up front makes the -32007 reply wait for a second slot, which a
    queue of capacity 1 never has) (= C10.LOOP)"""
    from .common import event_loops_suspend_only_where_vetted, EVENT_LOOPS
    event_loops_suspend_only_where_vetted(ctx, "C07.LOOP", EVENT_LOOPS, "the reply to an oversized message waits for something unrelated to the size limit")


RULES = [rloop_the_receive_loop_waits_for_messages_only, r10_body_stream_errors_are_errors, rhyper_vetted_transport_options, r9_receive_error_reaches_the_loop, r8_ws_receive_buffer_fresh, r1_ws_frame_limit, r2_http_limit, r3_plumbing, r4_limit_before_read, r5_ws_oversize_arm, r6_size_gates, r7_server_builder_fields, rsib_entry_points_agree, rcfg_config_verbatim, rstatus_http_status_table, rin_inbound_limits_from_request_limit]

LEVEL_TEXT = (
    "Structural necessary conditions decided exactly from the type-checked program: which configuration field every "
    "request-size limit is read from at each of the three server assembly paths (default server, tower service, "
    "ws::connect) and the HTTP path, that the limit is installed before the first byte is read, config plumbing "
    "identity, and that the oversize arm rejects and continues without dispatch. This is the level static analysis can "
    "reach: the tests only ever configure equal limits, the rules cover every entry point for all values."
)
LEVEL_NOTE = "Trusted: rustc MIR + trait resolution; soketto and http_body_util enforce the limits they are given. Behaviour at concrete sizes is not decided."
TECHNIQUE = "MIR dataflow (inter-procedural origin tracing) + dominance queries via custom rustc driver"
